"""Translator: the anchored scalar formulas of pyttb/cp_als.py
-> lean/PyttbModel/Generated/CpAlsFormulas.lean (definitions only).

The Python source is parsed with `ast` on every run.  The anchors are found by their
*role* in `cp_als` (the assignment targets `normresidual`, `fit`, `fitchange`, `weights`
and the tests of the `if` statements that select between them inside the
`for iteration in range(maxiters)` loop), never by line number.  Each right-hand side is
translated into a Lean definition over an arbitrary scalar type with the free Python names
as parameters; `sqrt`, `abs`, `<`, `== 0`, `maximum` and the integer literals are taken from
the record `NumOps` so that the same definition runs at `Float` (trace validation) and is
reasoned about over a linear ordered field (theorems of Props/C09.lean).

Accepted AST subset of a scalar formula: names, integer literals, `+ - * /`, `** k` with a
positive integer literal `k` (rendered as a repeated product), `np.abs`/`abs`, `np.sqrt`,
the argument-free method call `M.norm()` (a free parameter `normM`), one-operator comparisons
`< > == ` (`== 0` only for scalars), `and` / `or`.  For the column scale additionally
`sum(e, 0)`, `np.max(e, 0)`, `np.maximum(a, b)` where `e` is an entry-wise expression in
`Unew`.  Anything else, or a missing anchor, is reported as "anchor lost: <name>" and nothing
is guessed.

`formulas()` also returns the Python expressions (as source text) so that the harness can
cross-check the translator's reading: the generated Lean definition evaluated by the driver at
`Float` against `eval` of the original expression on the same points.
"""
from __future__ import annotations

import ast
import hashlib
from pathlib import Path

from harness.lib import LEAN, REPO

PROPS = ["C09", "C18"]
OUT = LEAN / "PyttbModel" / "Generated" / "CpAlsFormulas.lean"
SRC = REPO / "pyttb" / "cp_als.py"

NAT_NAMES = {"iteration"}
SCALAR_NAMES = {"normX", "iprod", "fitold", "fit", "normresidual", "stoptol", "fitchange", "normM"}
METHOD_PARAMS = {("M", "norm"): "normM"}
#: call that stands for the inner product in the printing-only recomputation
FINAL_IPROD = "input_tensor.innerprod(M)"


class Lost(Exception):
    pass


# ----------------------------------------------------------------------------
# expression translation
# ----------------------------------------------------------------------------
class Tr:
    """Translate one expression; collects the free parameters in order of first use."""

    def __init__(self, where, column_var=None):
        self.where = where
        self.params = []  # (name, sort)
        self.uses_o = False
        self.column_var = column_var

    def bad(self, node, what):
        raise Lost(f"{self.where}: unsupported {what} at line {getattr(node, 'lineno', '?')}")

    def param(self, name, sort):
        if (name, sort) not in self.params:
            self.params.append((name, sort))
        return name

    def is_nat(self, node):
        if isinstance(node, ast.Name):
            return node.id in NAT_NAMES
        return False

    def nat(self, node):
        if isinstance(node, ast.Name) and node.id in NAT_NAMES:
            return self.param(node.id, "Nat")
        if isinstance(node, ast.Constant) and isinstance(node.value, int) and not isinstance(node.value, bool) \
                and node.value >= 0:
            return str(node.value)
        self.bad(node, "natural-number expression")

    def np_call(self, node):
        """('np', name) / ('', name) of a call, else None."""
        f = node.func
        if isinstance(f, ast.Attribute) and isinstance(f.value, ast.Name) and f.value.id == "np":
            return f.attr
        if isinstance(f, ast.Name):
            return f.id
        return None

    def scalar(self, node):
        if isinstance(node, ast.Constant):
            if isinstance(node.value, int) and not isinstance(node.value, bool) and node.value >= 0:
                self.uses_o = True
                return f"o.ofNat {node.value}"
            self.bad(node, f"literal {node.value!r}")
        if isinstance(node, ast.Name):
            if node.id in SCALAR_NAMES:
                return self.param(node.id, "α")
            self.bad(node, f"name {node.id!r}")
        if isinstance(node, ast.BinOp):
            ops = {ast.Add: "+", ast.Sub: "-", ast.Mult: "*", ast.Div: "/"}
            if type(node.op) in ops:
                return f"({self.scalar(node.left)} {ops[type(node.op)]} {self.scalar(node.right)})"
            if isinstance(node.op, ast.Pow):
                k = node.right
                if isinstance(k, ast.Constant) and isinstance(k.value, int) and not isinstance(k.value, bool) \
                        and 1 <= k.value <= 4:
                    b = self.scalar(node.left)
                    return "(" + " * ".join([b] * k.value) + ")"
                self.bad(node, "power with a non-literal exponent")
            self.bad(node, f"operator {type(node.op).__name__}")
        if isinstance(node, ast.Call):
            if isinstance(node.func, ast.Attribute) and isinstance(node.func.value, ast.Name) \
                    and (node.func.value.id, node.func.attr) in METHOD_PARAMS and not node.args and not node.keywords:
                return self.param(METHOD_PARAMS[(node.func.value.id, node.func.attr)], "α")
            name = self.np_call(node)
            if name in ("abs", "absolute", "sqrt") and len(node.args) == 1 and not node.keywords:
                self.uses_o = True
                fn = "o.sqrt" if name == "sqrt" else "o.abs"
                return f"{fn} ({self.scalar(node.args[0])})"
            self.bad(node, f"call {ast.unparse(node.func)!r}")
        self.bad(node, type(node).__name__)

    def boolean(self, node):
        if isinstance(node, ast.BoolOp):
            op = " && " if isinstance(node.op, ast.And) else " || "
            return "(" + op.join(self.boolean(v) for v in node.values) + ")"
        if isinstance(node, ast.Compare) and len(node.ops) == 1:
            a, b, op = node.left, node.comparators[0], node.ops[0]
            if self.is_nat(a) or self.is_nat(b):
                sym = {ast.Gt: ">", ast.Lt: "<", ast.Eq: "=", ast.GtE: "≥", ast.LtE: "≤"}.get(type(op))
                if sym is None:
                    self.bad(node, "comparison")
                return f"decide ({self.nat(a)} {sym} {self.nat(b)})"
            self.uses_o = True
            if isinstance(op, ast.Lt):
                return f"o.lt {self.atom(a)} {self.atom(b)}"
            if isinstance(op, ast.Gt):
                return f"o.lt {self.atom(b)} {self.atom(a)}"
            if isinstance(op, ast.Eq) and isinstance(b, ast.Constant) and b.value == 0:
                return f"o.isZero {self.atom(a)}"
            self.bad(node, "comparison")
        self.bad(node, "boolean expression")

    def atom(self, node):
        s = self.scalar(node)
        return s if (s.isidentifier() or s.startswith("(")) else f"({s})"

    # column expressions: a reduction of an entry-wise expression in `column_var`
    def entry(self, node):
        if isinstance(node, ast.Name) and node.id == self.column_var:
            return "x"
        if isinstance(node, ast.BinOp) and isinstance(node.op, ast.Pow):
            k = node.right
            if isinstance(k, ast.Constant) and isinstance(k.value, int) and 1 <= k.value <= 4:
                b = self.entry(node.left)
                return "(" + " * ".join([b] * k.value) + ")"
        if isinstance(node, ast.Call) and self.np_call(node) in ("abs", "absolute") and len(node.args) == 1:
            self.uses_o = True
            return f"o.abs ({self.entry(node.args[0])})"
        self.bad(node, "entry-wise expression")

    @staticmethod
    def axis0(node):
        return len(node.args) == 2 and isinstance(node.args[1], ast.Constant) and node.args[1].value == 0 \
            and not node.keywords

    def column(self, node):
        if isinstance(node, ast.Constant):
            return self.scalar(node)
        if isinstance(node, ast.Call):
            name = self.np_call(node)
            is_np = isinstance(node.func, ast.Attribute)
            if name == "sum" and not is_np and self.axis0(node):  # builtin sum over the rows
                return f"sumL ({self.column_var}.map fun x => {self.entry(node.args[0])})"
            if name == "max" and is_np and self.axis0(node):
                self.uses_o = True
                return f"maxL o ({self.column_var}.map fun x => {self.entry(node.args[0])})"
            if name == "maximum" and is_np and len(node.args) == 2 and not node.keywords:
                self.uses_o = True
                return f"o.max ({self.column(node.args[0])}) ({self.column(node.args[1])})"
            if name == "sqrt" and is_np and len(node.args) == 1:
                self.uses_o = True
                return f"o.sqrt ({self.column(node.args[0])})"
        self.bad(node, "column reduction")


def lean_def(name, doc, tr: Tr, body, ret, extra_params=()):
    binders = ""
    if tr.uses_o:
        binders += " (o : NumOps α)"
    for p, sort in list(tr.params) + list(extra_params):
        binders += f" ({p} : {sort})"
    return f"/-- `{doc}` -/\ndef {name}{binders} : {ret} :=\n  {body}\n"


# ----------------------------------------------------------------------------
# anchors
# ----------------------------------------------------------------------------
def _assign_to(stmts, target):
    """The single `target = expr` among stmts (no descent)."""
    hits = [s for s in stmts if isinstance(s, ast.Assign) and len(s.targets) == 1
            and isinstance(s.targets[0], ast.Name) and s.targets[0].id == target]
    if len(hits) != 1:
        raise Lost(f"{target}: expected exactly one assignment, found {len(hits)}")
    return hits[0].value


def _find(stmts, pred, what):
    hits = [s for s in stmts if pred(s)]
    if len(hits) != 1:
        raise Lost(f"{what}: expected exactly one, found {len(hits)}")
    return hits[0]


def _is_if_on(s, names):
    return isinstance(s, ast.If) and {n.id for n in ast.walk(s.test) if isinstance(n, ast.Name)} == set(names)


def _subst_call(node, call_src, name):
    """Replace every sub-expression whose source is `call_src` by Name(name)."""
    class T(ast.NodeTransformer):
        def visit_Call(self, n):
            if ast.unparse(n) == call_src:
                return ast.copy_location(ast.Name(id=name, ctx=ast.Load()), n)
            return self.generic_visit(n)
    return T().visit(ast.parse(ast.unparse(node), mode="eval").body)


def read_anchors(tree):
    """-> dict anchor name -> ast expression node (raises Lost)."""
    fn = _find(tree.body, lambda s: isinstance(s, ast.FunctionDef) and s.name == "cp_als", "def cp_als")
    loop = _find(fn.body, lambda s: isinstance(s, ast.For) and isinstance(s.target, ast.Name)
                 and s.target.id == "iteration", "for iteration")
    if ast.unparse(loop.iter) != "range(maxiters)":
        raise Lost("for iteration: not over range(maxiters)")
    A = {}
    # residual / fit branches
    br = _find(loop.body, lambda s: _is_if_on(s, ["normX"]), "if normX == 0 (loop)")
    A["branchZero"] = br.test
    A["normresidualZero"] = _assign_to(br.body, "normresidual")
    A["fitZero"] = _assign_to(br.body, "fit")
    A["normresidual"] = _assign_to(br.orelse, "normresidual")
    A["fit"] = _assign_to(br.orelse, "fit")
    A["fitchange"] = _assign_to(loop.body, "fitchange")
    # fitold = fit at the top of the pass
    if ast.unparse(_assign_to(loop.body, "fitold")) != "fit":
        raise Lost("fitold: is no longer `fitold = fit`")
    # stop test: the `if` that assigns flag = 0 / flag = 1
    st = _find(loop.body, lambda s: isinstance(s, ast.If) and any(
        isinstance(x, ast.Assign) and ast.unparse(x) == "flag = 0" for x in s.body), "stop test")
    if not any(ast.unparse(x) == "flag = 1" for x in st.orelse):
        raise Lost("stop test: else branch no longer sets flag = 1")
    A["stopTest"] = st.test
    brk = _find(loop.body, lambda s: isinstance(s, ast.If) and ast.unparse(s.test) == "flag == 0"
                and len(s.body) == 1 and isinstance(s.body[0], ast.Break), "if flag == 0: break")
    del brk
    # column scale inside the mode loop
    inner = _find(loop.body, lambda s: isinstance(s, ast.For) and isinstance(s.target, ast.Name)
                  and s.target.id == "n", "for n in dimorder")
    cs = _find(inner.body, lambda s: _is_if_on(s, ["iteration"]), "if iteration == 0")
    A["firstIteration"] = cs.test
    A["colWeightFirst"] = _assign_to(cs.body, "weights")
    A["colWeightLater"] = _assign_to(cs.orelse, "weights")
    # the printing-only recomputation must use the same formulas
    pr = [s for s in fn.body if isinstance(s, ast.If) and ast.unparse(s.test) == "printitn > 0"
          and any(_is_if_on(x, ["normX"]) for x in s.body)]
    if len(pr) != 1:
        raise Lost("final report: `if printitn > 0:` block with the recomputation not found")
    fb = _find(pr[0].body, lambda s: _is_if_on(s, ["normX"]), "if normX == 0 (final)")
    pairs = [("branchZero", fb.test), ("normresidualZero", _assign_to(fb.body, "normresidual")),
             ("fitZero", _assign_to(fb.body, "fit")), ("normresidual", _assign_to(fb.orelse, "normresidual")),
             ("fit", _assign_to(fb.orelse, "fit"))]
    for name, node in pairs:
        if ast.dump(_subst_call(node, FINAL_IPROD, "iprod")) != ast.dump(ast.parse(ast.unparse(A[name]), mode="eval").body):
            raise Lost(f"final report: `{name}` differs from the formula used in the loop")
    return A, fn


#: array-level statements of the loop that the hand-written model mirrors; a change is
#: reported as drift (advisory, DESIGN 4.4), not as a lost anchor.
PINNED = [
    "Unew = input_tensor.mttkrp(U, n)",
    "Y = np.prod(UtU, axis=2, where=[i != n for i in range(N)])",
    "Unew = np.linalg.solve(Y.T, Unew.T).T",
    "Unew = np.zeros(Unew.shape)",
    "Unew = Unew / weights",
    "U[n] = Unew",
    "UtU[:, :, n] = U[n].T @ U[n]",
    "M = ttb.ktensor(U, weights)",
    "iprod = np.sum(np.sum(M.factor_matrices[dimorder[-1]] * U_mttkrp, 0) * weights, 0)",
    "M.arrange()",
    "M = M.fixsigns()",
    "U = init.copy().factor_matrices",
    "dimorder = [int(d) for d in dimorder if d in optdims]",
]


def build():
    """-> (lean text | None, lost list, description dict)."""
    lost = []
    desc = {}
    try:
        src = SRC.read_text()
        tree = ast.parse(src)
        A, fn = read_anchors(tree)
    except (Lost, OSError, SyntaxError) as e:
        return None, [str(e)], desc
    stmts = {ast.unparse(s) for s in ast.walk(fn) if isinstance(s, ast.stmt)}
    desc["drifted_statements"] = [p for p in PINNED if p not in stmts]
    desc["source_sha1"] = hashlib.sha1(ast.dump(fn).encode()).hexdigest()[:16]
    parts = []
    exprs = {}

    def emit(name, kind, ret, extra=(), column=False):
        node = A[name]
        tr = Tr(name, column_var="Unew" if column else None)
        try:
            body = {"scalar": tr.scalar, "bool": tr.boolean, "column": tr.column}[kind](node)
        except Lost as e:
            lost.append(str(e))
            return
        doc = ast.unparse(node).replace("`", "'")
        if column:
            tr.params.append(("Unew", "List α"))
        parts.append(lean_def(name, doc, tr, body, ret, extra))
        exprs[name] = {"python": ast.unparse(node), "params": [p for p, _ in tr.params], "uses_o": tr.uses_o}

    emit("branchZero", "bool", "Bool")
    emit("normresidualZero", "scalar", "α")
    emit("fitZero", "scalar", "α")
    emit("normresidual", "scalar", "α")
    emit("fit", "scalar", "α")
    emit("fitchange", "scalar", "α")
    emit("stopTest", "bool", "Bool")
    emit("firstIteration", "bool", "Bool")
    emit("colWeightFirst", "column", "α", column=True)
    emit("colWeightLater", "column", "α", column=True)
    desc["anchors"] = sorted(exprs)
    desc["expressions"] = exprs
    if lost:
        return None, lost, desc
    text = (
        "/- GENERATED by harness/translate/gen_cpals.py from pyttb/cp_als.py -- do not edit. -/\n"
        "import PyttbModel.Alg.CpAlsNum\n"
        "namespace Pyttb.CpAls.Gen\n\n"
        "variable {α : Type} [Add α] [Sub α] [Mul α] [Div α] [Zero α]\n\n"
        + "\n".join(parts)
        + "\n/-- the column scale chosen in pass `iteration` (the `if` around the two assignments) -/\n"
          "def colWeight (o : NumOps α) (iteration : Nat) (Unew : List α) : α :=\n"
          "  if firstIteration iteration then colWeightFirst o Unew else colWeightLater o Unew\n"
          "\nend Pyttb.CpAls.Gen\n"
    )
    return text, lost, desc


def formulas():
    """Python expressions behind the generated definitions (for the cross-check family)."""
    _, lost, desc = build()
    return desc.get("expressions", {}), lost


def run(prop: str, info: dict):
    text, lost, desc = build()
    info.setdefault("translators", {})["gen_cpals"] = {
        "lost": lost, "anchors": desc.get("anchors", []),
        "drifted_statements": desc.get("drifted_statements", []), "source_sha1": desc.get("source_sha1")}
    if text is not None:
        OUT.parent.mkdir(parents=True, exist_ok=True)
        if not OUT.exists() or OUT.read_text() != text:
            OUT.write_text(text)
    return [f"gen_cpals: {a}" for a in lost]
