"""Translator: the anchored scalar formulas of pyttb/cp_als.py
-> lean/PyttbModel/Generated/CpAlsFormulas.lean (definitions only).

The Python source is parsed with `ast` on every run and `cp_als` is read SEMANTICALLY (harness/translate/flow.py: the
body is executed symbolically, module-level helper functions are executed in place, every variable is followed to the
expression that reaches it).  The anchors are found by their ROLE, never by a line number or a variable name:

  the main loop        the `for <it> in range(maxiters)` loop of `cp_als`
  fit, normresidual    the values that reach the entries "fit" and "normresidual" of the returned dictionary: at the end
                       of the loop body each must be `A if <test> else B` with the same test; `branchZero` is the
                       test, `normresidualZero` / `normresidual` and `fitZero` / `fit` are the four branch values.
                       Inside them `input_tensor.norm()` is the parameter `normX`, `<model>.norm()` is `normM`, the
                       value of the residual of the same branch is `normresidual`, and the one array-level expression
                       left (the inner product) is `iprod`
  the final report     if the dictionary entries are recomputed under `if printitn > 0:` after the loop, the
                       recomputation must give the same five definitions
  stopTest, fitchange  the path condition of the loop's only `break` (so `flag = 0 / 1` + `if flag == 0: break`,
                       `converged = True / False` + `if converged: break`, `converged = bool(<test>)` and
                       `if <test>: break` read the same); `fitchange` is the maximal sub-expression of it that is built
                       from the new fit and the fit of the previous pass (`fitold = fit` at the top of the body)
  colWeight*           the value that reaches the second argument of `ttb.ktensor(U, <weights>)` at the end of the body
                       of the mode loop: `A if <first-iteration test> else B`

Each value is translated into a Lean definition over an arbitrary scalar type with the free names as parameters;
`sqrt`, `abs`, `<`, `== 0`, `maximum` and the integer literals are taken from the record `NumOps` so that the same
definition runs at `Float` (trace validation) and is reasoned about over a linear ordered field (theorems of
Props/C09.lean).

Accepted AST subset of a scalar formula: names, integer literals, `+ - * /`, `** k` with a
positive integer literal `k` (rendered as a repeated product), `np.abs`/`abs`, `np.sqrt`,
one-operator comparisons `< > == ` (`== 0` only for scalars), `and` / `or`.  For the column scale additionally
`sum(e, 0)`, `np.max(e, 0)`, `np.maximum(a, b)` where `e` is an entry-wise expression in the (one) matrix.
Anything else, or a missing anchor, is reported as "anchor lost: <name>" and nothing is guessed: the definitions that
COULD be read are still emitted (a change in one of them is not hidden by a lost anchor elsewhere), the others are
filled in from the pinned file by harness/translate/__init__.py.

`formulas()` also returns the Python expressions (as source text over the parameter names) so that the harness can
cross-check the translator's reading: the generated Lean definition evaluated by the driver at `Float` against `eval`
of the expression on the same points.  The doc comments carry that expression (the source snippet with the
inputs under their parameter names), never a line number, so a shifted line or a renamed local does not change the
generated text.
"""
from __future__ import annotations

import ast
import copy
import hashlib
from pathlib import Path

from harness.lib import LEAN, REPO
from harness.translate import flow
from harness.translate.flow import Flow, conj, fold, fold_where, plain, simplify, text

PROPS = ["C09", "C18"]
OUT = LEAN / "PyttbModel" / "Generated" / "CpAlsFormulas.lean"
SRC = REPO / "pyttb" / "cp_als.py"

NAT_NAMES = {"iteration"}
SCALAR_NAMES = {"normX", "iprod", "fitold", "fit", "normresidual", "stoptol", "fitchange", "normM"}
NORMX_SRC = "input_tensor.norm()"


class Lost(Exception):
    pass


# ----------------------------------------------------------------------------
# expression translation
# ----------------------------------------------------------------------------
class Tr:
    """Translate one expression; collects the free parameters in order of first use."""

    def __init__(self, where, column_var=None):
        self.where = where
        self.params = []  # (name, sort)
        self.uses_o = False
        self.column_var = column_var

    def bad(self, node, what):
        raise Lost(f"{self.where}: unsupported {what} in `{plain(node)[:80]}`")

    def param(self, name, sort):
        if (name, sort) not in self.params:
            self.params.append((name, sort))
        return name

    def is_nat(self, node):
        if isinstance(node, ast.Name):
            return node.id in NAT_NAMES
        return False

    def nat(self, node):
        if isinstance(node, ast.Name) and node.id in NAT_NAMES:
            return self.param(node.id, "Nat")
        if isinstance(node, ast.Constant) and isinstance(node.value, int) and not isinstance(node.value, bool) \
                and node.value >= 0:
            return str(node.value)
        self.bad(node, "natural-number expression")

    def np_call(self, node):
        """('np', name) / ('', name) of a call, else None."""
        f = node.func
        if isinstance(f, ast.Attribute) and isinstance(f.value, ast.Name) and f.value.id == "np":
            return f.attr
        if isinstance(f, ast.Name):
            return f.id
        return None

    def scalar(self, node):
        if isinstance(node, ast.Constant):
            if isinstance(node.value, int) and not isinstance(node.value, bool) and node.value >= 0:
                self.uses_o = True
                return f"o.ofNat {node.value}"
            self.bad(node, f"literal {node.value!r}")
        if isinstance(node, ast.Name):
            if node.id in SCALAR_NAMES:
                return self.param(node.id, "α")
            self.bad(node, f"name {node.id!r}")
        if isinstance(node, ast.BinOp):
            ops = {ast.Add: "+", ast.Sub: "-", ast.Mult: "*", ast.Div: "/"}
            if type(node.op) in ops:
                return f"({self.scalar(node.left)} {ops[type(node.op)]} {self.scalar(node.right)})"
            if isinstance(node.op, ast.Pow):
                k = node.right
                if isinstance(k, ast.Constant) and isinstance(k.value, int) and not isinstance(k.value, bool) \
                        and 1 <= k.value <= 4:
                    b = self.scalar(node.left)
                    return "(" + " * ".join([b] * k.value) + ")"
                self.bad(node, "power with a non-literal exponent")
            self.bad(node, f"operator {type(node.op).__name__}")
        if isinstance(node, ast.Call):
            name = self.np_call(node)
            if name in ("abs", "absolute", "sqrt") and len(node.args) == 1 and not node.keywords:
                self.uses_o = True
                fn = "o.sqrt" if name == "sqrt" else "o.abs"
                return f"{fn} ({self.scalar(node.args[0])})"
            self.bad(node, f"call {ast.unparse(node.func)!r}")
        self.bad(node, type(node).__name__)

    def boolean(self, node):
        if isinstance(node, ast.BoolOp):
            op = " && " if isinstance(node.op, ast.And) else " || "
            return "(" + op.join(self.boolean(v) for v in node.values) + ")"
        if isinstance(node, ast.Compare) and len(node.ops) == 1:
            a, b, op = node.left, node.comparators[0], node.ops[0]
            if self.is_nat(a) or self.is_nat(b):
                sym = {ast.Gt: ">", ast.Lt: "<", ast.Eq: "=", ast.GtE: "≥", ast.LtE: "≤"}.get(type(op))
                if sym is None:
                    self.bad(node, "comparison")
                return f"decide ({self.nat(a)} {sym} {self.nat(b)})"
            self.uses_o = True
            if isinstance(op, ast.Lt):
                return f"o.lt {self.atom(a)} {self.atom(b)}"
            if isinstance(op, ast.Gt):
                return f"o.lt {self.atom(b)} {self.atom(a)}"
            if isinstance(op, ast.Eq) and isinstance(b, ast.Constant) and b.value == 0:
                return f"o.isZero {self.atom(a)}"
            self.bad(node, "comparison")
        self.bad(node, "boolean expression")

    def atom(self, node):
        s = self.scalar(node)
        return s if (s.isidentifier() or s.startswith("(")) else f"({s})"

    # column expressions: a reduction of an entry-wise expression in `column_var`
    def entry(self, node):
        if isinstance(node, ast.Name) and node.id == self.column_var:
            return "x"
        if isinstance(node, ast.BinOp) and isinstance(node.op, ast.Pow):
            k = node.right
            if isinstance(k, ast.Constant) and isinstance(k.value, int) and 1 <= k.value <= 4:
                b = self.entry(node.left)
                return "(" + " * ".join([b] * k.value) + ")"
        if isinstance(node, ast.Call) and self.np_call(node) in ("abs", "absolute") and len(node.args) == 1:
            self.uses_o = True
            return f"o.abs ({self.entry(node.args[0])})"
        self.bad(node, "entry-wise expression")

    @staticmethod
    def axis0(node):
        return len(node.args) == 2 and isinstance(node.args[1], ast.Constant) and node.args[1].value == 0 \
            and not node.keywords

    def column(self, node):
        if isinstance(node, ast.Constant):
            return self.scalar(node)
        if isinstance(node, ast.Call):
            name = self.np_call(node)
            is_np = isinstance(node.func, ast.Attribute)
            if name == "sum" and not is_np and self.axis0(node):  # builtin sum over the rows
                return f"sumL ({self.column_var}.map fun x => {self.entry(node.args[0])})"
            if name == "max" and is_np and self.axis0(node):
                self.uses_o = True
                return f"maxL o ({self.column_var}.map fun x => {self.entry(node.args[0])})"
            if name == "maximum" and is_np and len(node.args) == 2 and not node.keywords:
                self.uses_o = True
                return f"o.max ({self.column(node.args[0])}) ({self.column(node.args[1])})"
            if name == "sqrt" and is_np and len(node.args) == 1:
                self.uses_o = True
                return f"o.sqrt ({self.column(node.args[0])})"
        self.bad(node, "column reduction")


def lean_def(name, doc, tr: Tr, body, ret, extra_params=()):
    binders = ""
    if tr.uses_o:
        binders += " (o : NumOps α)"
    for p, sort in list(tr.params) + list(extra_params):
        binders += f" ({p} : {sort})"
    return f"/-- `{doc}` -/\ndef {name}{binders} : {ret} :=\n  {body}\n"


# ----------------------------------------------------------------------------
# anchors (by role, through the data flow)
# ----------------------------------------------------------------------------
def _np_name(node):
    f = node.func
    if isinstance(f, ast.Attribute) and isinstance(f.value, ast.Name) and f.value.id == "np":
        return f.attr
    if isinstance(f, ast.Name):
        return f.id
    return None


def _pure_call(n):
    return _np_name(n) in ("abs", "absolute", "sqrt") and len(n.args) == 1 and not n.keywords


def _is_norm_call(n):
    return (isinstance(n, ast.Call) and isinstance(n.func, ast.Attribute) and n.func.attr == "norm"
            and not n.args and not n.keywords)


def _fold_inputs(e, extra, where):
    """`input_tensor.norm()` -> normX, `<model>.norm()` -> normM (one model per formula), keys of `extra` -> their
    names."""
    receivers = set()

    def pred(n):
        t = text(n)
        if t in extra:
            return extra[t]
        if plain(t) == NORMX_SRC:
            return "normX"
        if _is_norm_call(n):
            receivers.add(text(n.func.value))
            return "normM"
        return None
    out = fold_where(e, pred)
    if len(receivers) > 1:
        raise Lost(f"{where}: the formula uses the norms of {len(receivers)} different objects")
    return out


def _opaque_parts(e):
    """Maximal sub-expressions of a scalar formula that are outside the scalar subset."""
    out = []

    def go(n):
        if isinstance(n, ast.Constant):
            return
        if isinstance(n, ast.Name) and n.id in SCALAR_NAMES | NAT_NAMES:
            return
        if isinstance(n, ast.BinOp) and isinstance(n.op, (ast.Add, ast.Sub, ast.Mult, ast.Div, ast.Pow)):
            go(n.left)
            go(n.right)
            return
        if isinstance(n, ast.Call) and _pure_call(n):
            go(n.args[0])
            return
        out.append(n)
    go(e)
    return out


def _fold_iprod(e, F, forbidden, where):
    """The one array-level expression left in a residual formula is the inner product <X, M>."""
    parts = _opaque_parts(e)
    texts = {text(x) for x in parts}
    if not texts:
        return e
    if len(texts) > 1:
        raise Lost(f"{where}: more than one array-level sub-expression: {sorted(plain(t)[:40] for t in texts)}")
    x = parts[0]
    shape = F.deref(x, 1) if isinstance(x, ast.Name) else x
    if not (isinstance(shape, ast.Call) or (isinstance(shape, ast.BinOp) and isinstance(shape.op, ast.MatMult))):
        raise Lost(f"{where}: unsupported operand `{plain(x)[:60]}`")
    bad = {flow.base(i) for i in flow.names(x)} & forbidden
    if bad or NORMX_SRC in plain(x):
        raise Lost(f"{where}: the array-level operand depends on {sorted(bad) or NORMX_SRC}")
    return fold(e, {text(x): "iprod"})


def _five(v_nr, v_fit, F, forbidden, where):
    """branch test + the four branch values, folded to the parameter names."""
    v_nr, v_fit = simplify(v_nr), simplify(v_fit)
    if not (isinstance(v_nr, ast.IfExp) and isinstance(v_fit, ast.IfExp)):
        raise Lost(f"{where}: fit / normresidual are not chosen by a test on the norm of the data")
    if text(v_nr.test) != text(v_fit.test):
        raise Lost(f"{where}: fit and normresidual are chosen by different tests")
    out = {"branchZero": _fold_inputs(v_nr.test, {}, where)}
    for tag, nr, ft in (("Zero", v_nr.body, v_fit.body), ("", v_nr.orelse, v_fit.orelse)):
        out["normresidual" + tag] = _fold_iprod(_fold_inputs(nr, {}, where), F, forbidden, where)
        f2 = _fold_inputs(ft, {text(nr): "normresidual"}, where)
        out["fit" + tag] = _fold_iprod(f2, F, forbidden, where)
        for k in ("normresidual" + tag, "fit" + tag):
            out[k]._src = flow.src_of(nr if k.startswith("normres") else ft)
    out["branchZero"]._src = flow.src_of(v_nr.test)
    return out


def read_anchors(src):
    """-> (A: anchor name -> expression over the parameter names, lost: [str], desc)."""
    A, lost, desc = {}, [], {}
    F = Flow(src, roots=["cp_als"])
    try:
        R = F.run("cp_als")
    except KeyError:
        return A, ["def cp_als: function not found"], desc, None
    desc["inlined_helpers"] = list(F.inlined)
    main = [L for L in R.loops() if plain(L.iter) == "range(maxiters)" and len(L.targets) == 1]
    if len(main) != 1:
        return A, [f"main loop: expected exactly one `for <it> in range(maxiters)`, found {len(main)}"], desc, F
    L = main[0]
    it_sym = f"{L.targets[0]}{flow.SEP}in{L.id}"

    def attempt(f):
        try:
            f()
        except Lost as e:
            lost.append(str(e))
        except Exception as e:  # noqa: BLE001
            lost.append(f"{f.__name__.strip('_')}: {type(e).__name__}: {e}")

    def at_exit(var, what):
        """value of `var` when the loop is left (end of the body and every break agree)"""
        v = L.end(var)
        if v is None:
            raise Lost(f"{what}: `{var}` is not assigned in the main loop")
        for _, env in L.breaks:
            if var in env and text(env[var]) != text(v):
                raise Lost(f"{what}: `{var}` differs between `break` and the end of the pass")
        return v

    roles = {}

    def residual_and_fit():
        ds = {text(d): d for d in flow.find_dict_with(R, ["fit", "normresidual"])}
        if len(ds) != 1:
            raise Lost(f"fit: expected one returned dictionary with the entries \"fit\" and \"normresidual\", found {len(ds)}")
        d = next(iter(ds.values()))
        var_fit, rec_fit = flow.split_sink(flow.dict_get(d, "fit"), F, L.id)
        var_nr, rec_nr = flow.split_sink(flow.dict_get(d, "normresidual"), F, L.id)
        if var_fit is None or var_nr is None:
            raise Lost("fit: the reported fit / normresidual do not come from the main loop")
        roles["fit"], roles["nr"] = var_fit, var_nr
        forbidden = {var_fit, var_nr, "stoptol", L.targets[0]}
        five = _five(at_exit(var_nr, "normresidual"), at_exit(var_fit, "fit"), F, forbidden, "fit (loop)")
        if len(rec_fit) != len(rec_nr):
            raise Lost("final report: fit and normresidual are not recomputed together")
        for rf, rn in zip(rec_fit, rec_nr):
            again = _five(rn, rf, F, forbidden, "final report")
            for k in five:
                if text(again[k]) != text(five[k]):
                    raise Lost(f"final report: `{k}` differs from the formula used in the loop")
        A.update(five)

    def stop_rule():
        if "fit" not in roles:
            raise Lost("stop test: the fit of the pass was not found")
        if len(L.breaks) != 1:
            raise Lost(f"stop test: expected exactly one `break` in the main loop, found {len(L.breaks)}")
        pc, _ = L.breaks[0]
        c = conj(pc)
        if c is None:
            raise Lost("stop test: unconditional break")
        v_fit = at_exit(roles["fit"], "stop test")
        leaves = {it_sym: "iteration", text(v_fit): "fit", f"{roles['fit']}{flow.SEP}in{L.id}": "fitold"}
        c = simplify(fold(c, leaves))
        cands = flow.maximal_over(c, {"fit", "fitold"}, _pure_call)
        if len(cands) != 1:
            raise Lost(f"fitchange: expected one quantity built from the old and the new fit in the stop test, found {len(cands)}")
        fc = cands[0]
        A["fitchange"] = copy.deepcopy(fc)
        A["stopTest"] = fold(c, {text(fc): "fitchange"})
        A["stopTest"]._src = text(A["stopTest"])

    def column_scale():
        kts = {}
        for e in L.entries(("assign", "effect", "return"), deep=False):
            for n in ast.walk(e.value):
                if isinstance(n, ast.Call) and plain(n.func) == "ttb.ktensor" and len(n.args) == 2:
                    kts[text(n)] = n
        if len(kts) != 1:
            raise Lost(f"colWeight: expected one `ttb.ktensor(U, weights)` in the main loop, found {len(kts)}")
        w = next(iter(kts.values())).args[1]
        s = F.sym(w.id) if isinstance(w, ast.Name) else None
        if not s or s["kind"] != "out":
            raise Lost("colWeight: the weights of the model do not come from the mode loop")
        L2 = F.regions[s["region"]]
        v = L2.end(s["var"])
        v = simplify(v) if v is not None else None
        if not isinstance(v, ast.IfExp):
            raise Lost("colWeight: the column scale is not chosen by a test on the iteration number")
        A["firstIteration"] = fold(v.test, {it_sym: "iteration"})
        A["firstIteration"]._src = flow.src_of(v.test)
        leaves = []

        def entry_leaf(n):
            if isinstance(n, ast.BinOp) and isinstance(n.op, ast.Pow):
                return entry_leaf(n.left)
            if isinstance(n, ast.Call) and _np_name(n) in ("abs", "absolute") and len(n.args) == 1:
                return entry_leaf(n.args[0])
            leaves.append(n)

        def col(n):
            if isinstance(n, ast.Call):
                nm = _np_name(n)
                if nm in ("sum", "max") and n.args:
                    return entry_leaf(n.args[0])
                if nm in ("maximum", "sqrt"):
                    for a in n.args:
                        col(a)
        col(v.body)
        col(v.orelse)
        texts = {text(x) for x in leaves}
        if len(texts) != 1:
            raise Lost(f"colWeight: expected one matrix under the column reductions, found {len(texts)}")
        m = {texts.pop(): "Unew"}
        for k, e in (("colWeightFirst", v.body), ("colWeightLater", v.orelse)):
            A[k] = fold(e, m)
            A[k]._src = flow.src_of(e)

    attempt(residual_and_fit)
    attempt(stop_rule)
    attempt(column_scale)
    return A, lost, desc, F


#: array-level statements of the loop that the hand-written model mirrors; a change is
#: reported as drift (advisory, DESIGN 4.4), not as a lost anchor.
PINNED = [
    "Unew = input_tensor.mttkrp(U, n)",
    "Y = np.prod(UtU, axis=2, where=[i != n for i in range(N)])",
    "Unew = np.linalg.solve(Y.T, Unew.T).T",
    "Unew = np.zeros(Unew.shape)",
    "Unew = Unew / weights",
    "U[n] = Unew",
    "UtU[:, :, n] = U[n].T @ U[n]",
    "M = ttb.ktensor(U, weights)",
    "iprod = np.sum(np.sum(M.factor_matrices[dimorder[-1]] * U_mttkrp, 0) * weights, 0)",
    "M.arrange()",
    "M = M.fixsigns()",
    "U = init.copy().factor_matrices",
    "dimorder = [int(d) for d in dimorder if d in optdims]",
]

ORDER = [("branchZero", "bool", "Bool"), ("normresidualZero", "scalar", "α"), ("fitZero", "scalar", "α"),
         ("normresidual", "scalar", "α"), ("fit", "scalar", "α"), ("fitchange", "scalar", "α"),
         ("stopTest", "bool", "Bool"), ("firstIteration", "bool", "Bool"), ("colWeightFirst", "column", "α"),
         ("colWeightLater", "column", "α")]


def build():
    """-> (lean text | None, lost list, description dict)."""
    desc = {}
    try:
        src = SRC.read_text()
        A, lost, desc, F = read_anchors(src)
    except (OSError, SyntaxError) as e:
        return None, [f"cp_als.py unreadable: {e}"], desc
    if F is not None:
        fns = [F.funcs[n] for n in ["cp_als"] + desc.get("inlined_helpers", []) if n in F.funcs]
        stmts = {ast.unparse(s) for fn in fns for s in ast.walk(fn) if isinstance(s, ast.stmt)}
        desc["drifted_statements"] = [p for p in PINNED if p not in stmts]
        if "cp_als" in F.funcs:
            desc["source_sha1"] = hashlib.sha1(ast.dump(F.funcs["cp_als"]).encode()).hexdigest()[:16]
    parts = []
    exprs = {}
    for name, kind, ret in ORDER:
        node = A.get(name)
        if node is None:
            if not any(name in m for m in lost):
                lost.append(f"{name}: not read")
            continue
        column = kind == "column"
        tr = Tr(name, column_var="Unew" if column else None)
        try:
            body = {"scalar": tr.scalar, "bool": tr.boolean, "column": tr.column}[kind](node)
        except Lost as e:
            lost.append(str(e))
            continue
        py = text(node)
        # the snippet shown is the expression over the parameter names (what was translated, and what the cross-check
        # family evaluates): a refactoring that keeps the formula keeps the generated text byte for byte
        doc = py.replace("`", "'")
        if column:
            tr.params.append(("Unew", "List α"))
        parts.append(lean_def(name, doc, tr, body, ret))
        exprs[name] = {"python": py, "params": [p for p, _ in tr.params], "uses_o": tr.uses_o}
    desc["anchors"] = sorted(exprs)
    desc["expressions"] = exprs
    text_ = (
        "/- GENERATED by harness/translate/gen_cpals.py from pyttb/cp_als.py -- do not edit. -/\n"
        "import PyttbModel.Alg.CpAlsNum\n"
        "namespace Pyttb.CpAls.Gen\n\n"
        "variable {α : Type} [Add α] [Sub α] [Mul α] [Div α] [Zero α]\n\n"
        + "\n".join(parts)
        + "\n/-- the column scale chosen in pass `iteration` (the test in front of the two formulas) -/\n"
          "def colWeight (o : NumOps α) (iteration : Nat) (Unew : List α) : α :=\n"
          "  if firstIteration iteration then colWeightFirst o Unew else colWeightLater o Unew\n"
          "\nend Pyttb.CpAls.Gen\n"
    )
    return text_, lost, desc


def formulas():
    """Python expressions behind the generated definitions (for the cross-check family)."""
    _, lost, desc = build()
    return desc.get("expressions", {}), lost


def run(prop: str, info: dict):
    text_, lost, desc = build()
    info.setdefault("translators", {})["gen_cpals"] = {
        "lost": lost, "anchors": desc.get("anchors", []), "inlined_helpers": desc.get("inlined_helpers", []),
        "drifted_statements": desc.get("drifted_statements", []), "source_sha1": desc.get("source_sha1")}
    if text_ is None:
        # the source could not be read at all: the pinned definitions (never a stale file of another tree)
        pin = Path(__file__).parent / "pinned" / OUT.name
        text_ = pin.read_text() if pin.exists() else None
    if text_ is not None:
        OUT.parent.mkdir(parents=True, exist_ok=True)
        if not OUT.exists() or OUT.read_text() != text_:
            OUT.write_text(text_)
    return [f"gen_cpals: {a}" for a in lost]


if __name__ == "__main__":
    t, l, d = build()
    print(t)
    print("lost:", l)
