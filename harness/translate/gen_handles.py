"""Translator: pyttb/gcp/handles.py + the selection table of pyttb/gcp/fg_setup.py
-> lean/PyttbModel/Generated/Handles.lean (definitions only).

The Python source is parsed with `ast` on every run.  Every handle body becomes a term
of `Pyttb.Expr` (lean/PyttbModel/Alg/GcpExpr.lean); `fg_setup.setup` is executed
symbolically once per objective and becomes `setupTable : Objective -> SetupRow`.
Anything outside the accepted AST subset is reported as a lost anchor, never guessed.

Accepted subset of a handle
  def f(<data>, <model>[, <param>[= default]]) or def f(<data>, <model>, *, <param>) with an
  optional docstring, any number of local assignments (`name = e`, `a, b = e1, e2`,
  annotated, and `name op= e` on a computed local; all inlined), `pass`, and a final
  `return <expr>`, where <expr> is built from
  - the argument names, local names, module-level constants of handles.py (EPS stays a
    named constant, every other one is inlined), numeric literals, `float(e)` /
    `np.float64(e)` / `np.asarray(e)` (identity), np.pi / math.pi, np.e / math.e;
  - + - * / ** and unary + -, parentheses; `**` with a non-negative integral literal is a
    natural power, with a negative integral literal the reciprocal of one, otherwise a real
    power; np.power / np.float_power / pow, np.square, np.sqrt, np.reciprocal, np.negative,
    np.add / subtract / multiply / divide / true_divide;
  - np.log / np.exp / np.log1p (log(1 + x)) / np.expm1 (exp(x) - 1) / np.abs / np.absolute /
    np.fabs / abs / np.sign, and math.log / exp / sqrt / fabs / pow;
  - comparisons < > <= >= in either orientation (chained ones are conjunctions),
    np.less / greater / less_equal / greater_equal, np.logical_not / `~` , np.logical_and /
    `&`, np.logical_or / `|` on comparisons;
  - np.where(c, a, b), `a if c else b`, np.maximum / np.fmax / max, np.minimum / np.fmin /
    min, np.clip(a, lo, hi) with a comparison-valued condition (-> `ite`);
  - calls of other module-level functions (and module-level lambdas) of handles.py with
    positional and keyword arguments and defaults: inlined.

Accepted subset of fg_setup.setup: straight-line code, `if` / `elif` / `else` and `match`
on `objective` (`==`, `is`, `in (..)`, either orientation), guards whose body only raises,
assignments (also tuple assignments and local aliases), a dict literal indexed by the
objective, and `return (fn, grad, bound)` anywhere.  A handle is `handles.f`, an imported
`f`, `partial(h, <param>=additional_parameter)` (also functools.partial), a
`lambda d, m[, t=additional_parameter]: h(d, m, …)` or a local `def` of that form, with
positional or keyword pass-through; the bound a number, `float(..)` of one, or
-np.inf / -math.inf / float("-inf") / -float("inf").
"""
from __future__ import annotations

import ast
from fractions import Fraction
from pathlib import Path

from harness.lib import LEAN, REPO

PROPS = ["C12"]

OUT = LEAN / "PyttbModel" / "Generated" / "Handles.lean"

OBJECTIVES = ["GAUSSIAN", "BERNOULLI_ODDS", "BERNOULLI_LOGIT", "POISSON", "POISSON_LOG",
              "RAYLEIGH", "GAMMA", "HUBER", "NEGATIVE_BINOMIAL", "BETA"]

NP_MODULES = ("np", "numpy")
BINOPS = {ast.Add: "add", ast.Sub: "sub", ast.Mult: "mul", ast.Div: "div"}
MAX_INLINE_DEPTH = 12

ONE = ("const", Fraction(1))
ZERO = ("const", Fraction(0))


class Lost(Exception):
    """An anchor (function / table entry) could not be read."""


# ----------------------------------------------------------------------------
# expression trees: ("var",) ("data",) ("param",) ("const", Fraction) ("eps",) ("pi",)
# ("add"|"sub"|"mul"|"div"|"powReal"|"lt", a, b) ("neg"|"log"|"exp"|"abs"|"sign"|"lnot"|"sqrt", a)
# ("powNat", a, n) ("ite", c, a, b)
# ----------------------------------------------------------------------------
def _num(node):
    if isinstance(node, ast.Constant) and isinstance(node.value, (int, float)) and not isinstance(node.value, bool):
        v = node.value
        if isinstance(v, float) and (v != v or v in (float("inf"), float("-inf"))):
            return None
        return Fraction(v)
    return None


def is_bool(e) -> bool:
    """mirror of Expr.isBool"""
    if e[0] == "lt":
        return True
    if e[0] == "lnot":
        return is_bool(e[1])
    if e[0] == "mul":
        return is_bool(e[1]) and is_bool(e[2])
    return False


def t_le(a, b):
    return ("lnot", ("lt", b, a))


def t_or(a, b):
    return ("lnot", ("mul", ("lnot", a), ("lnot", b)))


def t_max(a, b):
    return ("ite", ("lt", a, b), b, a)


def t_min(a, b):
    return ("ite", ("lt", a, b), a, b)


def t_pow(base, expo_tree):
    """`base ** expo`: a literal integral exponent is a natural power (or its reciprocal)."""
    if expo_tree[0] == "const":
        q = expo_tree[1]
        if q.denominator == 1 and 0 <= q.numerator <= 64:
            return ("powNat", base, int(q.numerator))
        if q.denominator == 1 and -64 <= q.numerator < 0:
            return ("div", ONE, ("powNat", base, int(-q.numerator)))
    return ("powReal", base, expo_tree)


UNARY = {
    "log": lambda a: ("log", a), "exp": lambda a: ("exp", a), "abs": lambda a: ("abs", a),
    "absolute": lambda a: ("abs", a), "fabs": lambda a: ("abs", a), "sign": lambda a: ("sign", a),
    "sqrt": lambda a: ("sqrt", a), "square": lambda a: ("powNat", a, 2),
    "log1p": lambda a: ("log", ("add", ONE, a)), "expm1": lambda a: ("sub", ("exp", a), ONE),
    "negative": lambda a: ("neg", a), "reciprocal": lambda a: ("div", ONE, a),
    "positive": lambda a: a, "asarray": lambda a: a, "array": lambda a: a, "float64": lambda a: a,
    "asanyarray": lambda a: a,
}
BINARY = {
    "add": lambda a, b: ("add", a, b), "subtract": lambda a, b: ("sub", a, b),
    "multiply": lambda a, b: ("mul", a, b), "divide": lambda a, b: ("div", a, b),
    "true_divide": lambda a, b: ("div", a, b), "power": t_pow, "float_power": t_pow,
    "maximum": t_max, "fmax": t_max, "minimum": t_min, "fmin": t_min,
    "less": lambda a, b: ("lt", a, b), "greater": lambda a, b: ("lt", b, a),
    "less_equal": t_le, "greater_equal": lambda a, b: t_le(b, a),
}
MATH_UNARY = {"log": UNARY["log"], "exp": UNARY["exp"], "sqrt": UNARY["sqrt"], "fabs": UNARY["abs"],
              "log1p": UNARY["log1p"], "expm1": UNARY["expm1"]}


class Module:
    """What a handle body may refer to besides its own arguments and locals."""

    def __init__(self, fns, lambdas, consts, eps_known):
        self.fns = fns            # name -> ast.FunctionDef
        self.lambdas = lambdas    # name -> ast.Lambda
        self.consts = consts      # name -> expression tree (module-level constants, EPS as ("eps",))
        self.eps_known = eps_known


def _callable_params(fn):
    """-> (positional parameter names, {name: default AST}, keyword-only names) of a def / lambda"""
    a = fn.args
    if a.vararg or a.kwarg:
        raise Lost(f"{getattr(fn, 'name', '<lambda>')}: *args / **kwargs in a signature")
    pos = [x.arg for x in (a.posonlyargs + a.args)]
    defaults = {}
    for name, d in zip(pos[len(pos) - len(a.defaults):], a.defaults):
        defaults[name] = d
    kwonly = [x.arg for x in a.kwonlyargs]
    for name, d in zip(kwonly, a.kw_defaults):
        if d is not None:
            defaults[name] = d
    return pos, defaults, kwonly


def tr_expr(node, env, mod: Module, where, depth=0):
    def bad(what):
        raise Lost(f"{where}: unsupported {what} at line {getattr(node, 'lineno', '?')}")

    def rec(n, e=None):
        return tr_expr(n, env if e is None else e, mod, where, depth)

    def boolean(n, what):
        t = rec(n)
        if not is_bool(t):
            raise Lost(f"{where}: {what} at line {getattr(n, 'lineno', '?')} is not a comparison")
        return t

    q = _num(node)
    if q is not None:
        return ("const", q)
    if isinstance(node, ast.Name):
        if node.id in env:
            return env[node.id]
        if node.id in mod.consts:
            return mod.consts[node.id]
        bad(f"name {node.id!r}")
    if isinstance(node, ast.Attribute):
        if isinstance(node.value, ast.Name) and node.value.id in NP_MODULES + ("math",):
            if node.attr == "pi":
                return ("pi",)
            if node.attr == "e":
                return ("exp", ONE)
        bad(f"attribute {ast.unparse(node)!r}")
    if isinstance(node, ast.UnaryOp):
        if isinstance(node.op, ast.USub):
            q = _num(node.operand)
            if q is not None:
                return ("const", -q)
            return ("neg", rec(node.operand))
        if isinstance(node.op, ast.UAdd):
            return rec(node.operand)
        if isinstance(node.op, ast.Invert):
            return ("lnot", boolean(node.operand, "operand of ~"))
        bad(f"unary operator {type(node.op).__name__}")
    if isinstance(node, ast.BinOp):
        if type(node.op) in BINOPS:
            return (BINOPS[type(node.op)], rec(node.left), rec(node.right))
        if isinstance(node.op, ast.Pow):
            return t_pow(rec(node.left), rec(node.right))
        if isinstance(node.op, ast.BitAnd):
            return ("mul", boolean(node.left, "operand of &"), boolean(node.right, "operand of &"))
        if isinstance(node.op, ast.BitOr):
            return t_or(boolean(node.left, "operand of |"), boolean(node.right, "operand of |"))
        bad(f"binary operator {type(node.op).__name__}")
    if isinstance(node, ast.IfExp):
        return ("ite", boolean(node.test, "condition"), rec(node.body), rec(node.orelse))
    if isinstance(node, ast.Compare):
        parts = []
        left = rec(node.left)
        for op, cmp_node in zip(node.ops, node.comparators):
            right = rec(cmp_node)
            if isinstance(op, ast.Lt):
                parts.append(("lt", left, right))
            elif isinstance(op, ast.Gt):
                parts.append(("lt", right, left))
            elif isinstance(op, ast.LtE):
                parts.append(t_le(left, right))
            elif isinstance(op, ast.GtE):
                parts.append(t_le(right, left))
            else:
                bad(f"comparison {type(op).__name__}")
            left = right
        out = parts[0]
        for p in parts[1:]:
            out = ("mul", out, p)
        return out
    if isinstance(node, ast.Call):
        f = node.func
        args = list(node.args)
        if any(isinstance(a, ast.Starred) for a in args) or any(k.arg is None for k in node.keywords):
            bad("argument unpacking")
        kws = {k.arg: k.value for k in node.keywords}
        # NumPy / math functions
        if isinstance(f, ast.Attribute) and isinstance(f.value, ast.Name) and f.value.id in NP_MODULES:
            n = f.attr
            if n in UNARY and len(args) == 1 and not kws:
                return UNARY[n](rec(args[0]))
            if n in BINARY and len(args) == 2 and not kws:
                return BINARY[n](rec(args[0]), rec(args[1]))
            if n == "logical_not" and len(args) == 1 and not kws:
                return ("lnot", boolean(args[0], "argument of logical_not"))
            if n == "logical_and" and len(args) == 2 and not kws:
                return ("mul", boolean(args[0], "argument of logical_and"), boolean(args[1], "argument of logical_and"))
            if n == "logical_or" and len(args) == 2 and not kws:
                return t_or(boolean(args[0], "argument of logical_or"), boolean(args[1], "argument of logical_or"))
            if n == "where" and len(args) == 3 and not kws:
                return ("ite", boolean(args[0], "condition of np.where"), rec(args[1]), rec(args[2]))
            if n == "clip":
                names = ["a", "a_min", "a_max"]
                got = dict(zip(names, args))
                for k, v in kws.items():
                    if k not in names or k in got:
                        bad(f"keyword {k!r} of np.clip")
                    got[k] = v
                if set(got) == set(names):
                    return t_min(t_max(rec(got["a"]), rec(got["a_min"])), rec(got["a_max"]))
            bad(f"call {ast.unparse(node.func)!r}")
        if isinstance(f, ast.Attribute) and isinstance(f.value, ast.Name) and f.value.id == "math":
            if f.attr in MATH_UNARY and len(args) == 1 and not kws:
                return MATH_UNARY[f.attr](rec(args[0]))
            if f.attr == "pow" and len(args) == 2 and not kws:
                return t_pow(rec(args[0]), rec(args[1]))
            bad(f"call {ast.unparse(node.func)!r}")
        if isinstance(f, ast.Name) and f.id not in env:
            n = f.id
            if n in mod.fns or n in mod.lambdas:
                return inline_call(mod.fns.get(n) or mod.lambdas[n], n, args, kws, env, mod, where, depth, node)
            if n == "float" and len(args) == 1 and not kws:
                return rec(args[0])
            if n == "int" and len(args) == 1 and not kws and _num(args[0]) is not None \
                    and _num(args[0]).denominator == 1:
                return ("const", _num(args[0]))
            if n == "abs" and len(args) == 1 and not kws:
                return ("abs", rec(args[0]))
            if n == "pow" and len(args) == 2 and not kws:
                return t_pow(rec(args[0]), rec(args[1]))
            if n in ("max", "min") and len(args) == 2 and not kws:
                return (t_max if n == "max" else t_min)(rec(args[0]), rec(args[1]))
        bad(f"call {ast.unparse(node.func)!r}")
    bad(type(node).__name__)


def inline_call(fn, name, args, kws, env, mod, where, depth, node):
    """A call of another module-level function of handles.py: its body with the arguments substituted."""
    if depth >= MAX_INLINE_DEPTH:
        raise Lost(f"{where}: helper calls nested deeper than {MAX_INLINE_DEPTH} (recursion?) at {name}")
    pos, defaults, kwonly = _callable_params(fn)
    if len(args) > len(pos):
        raise Lost(f"{where}: too many arguments for {name} at line {node.lineno}")
    bound = {}
    for p, a in zip(pos, args):
        bound[p] = tr_expr(a, env, mod, where, depth)
    for k, v in kws.items():
        if k not in pos + kwonly or k in bound:
            raise Lost(f"{where}: bad keyword {k!r} for {name} at line {node.lineno}")
        bound[k] = tr_expr(v, env, mod, where, depth)
    for p in pos + kwonly:
        if p not in bound:
            if p not in defaults:
                raise Lost(f"{where}: argument {p!r} of {name} missing at line {node.lineno}")
            bound[p] = tr_expr(defaults[p], {}, mod, f"{where}>{name}", depth + 1)
    if isinstance(fn, ast.Lambda):
        return tr_expr(fn.body, bound, mod, f"{where}>{name}", depth + 1)
    return tr_body(fn, bound, mod, f"{where}>{name}", depth + 1)


def _strip_docstring(body):
    body = list(body)
    if body and isinstance(body[0], ast.Expr) and isinstance(body[0].value, ast.Constant) \
            and isinstance(body[0].value.value, str):
        body = body[1:]
    return body


AUG = {ast.Add: "add", ast.Sub: "sub", ast.Mult: "mul", ast.Div: "div"}


def tr_body(fn: ast.FunctionDef, env, mod: Module, where, depth=0):
    """straight-line body ending in `return <expr>` with the parameters bound by `env`"""
    args0 = dict(env)
    body = _strip_docstring(fn.body)
    if not body or not isinstance(body[-1], ast.Return) or body[-1].value is None:
        raise Lost(f"{where}: body does not end in `return <expr>`")
    for st in body[:-1]:
        if isinstance(st, ast.Pass):
            continue
        if isinstance(st, ast.Assign) and len(st.targets) == 1 and isinstance(st.targets[0], ast.Name):
            env = {**env, st.targets[0].id: tr_expr(st.value, env, mod, where, depth)}
        elif isinstance(st, ast.Assign) and len(st.targets) == 1 and isinstance(st.targets[0], ast.Tuple) \
                and isinstance(st.value, ast.Tuple) and len(st.value.elts) == len(st.targets[0].elts) \
                and all(isinstance(t, ast.Name) for t in st.targets[0].elts):
            vals = [tr_expr(v, env, mod, where, depth) for v in st.value.elts]
            env = {**env, **{t.id: v for t, v in zip(st.targets[0].elts, vals)}}
        elif isinstance(st, ast.AnnAssign) and isinstance(st.target, ast.Name) and st.value is not None:
            env = {**env, st.target.id: tr_expr(st.value, env, mod, where, depth)}
        elif isinstance(st, ast.AugAssign) and isinstance(st.target, ast.Name) \
                and (type(st.op) in AUG or isinstance(st.op, ast.Pow)):
            tgt = st.target.id
            if tgt not in env:
                raise Lost(f"{where}: augmented assignment to unknown name {tgt!r} at line {st.lineno}")
            # `model += …` (or an alias of an argument) would change the caller's array in place
            if env[tgt] in (("var",), ("data",), ("param",)) or any(env[tgt] is v for v in args0.values()):
                raise Lost(f"{where}: in-place update of an argument ({tgt}) at line {st.lineno}")
            rhs = tr_expr(st.value, env, mod, where, depth)
            new = t_pow(env[tgt], rhs) if isinstance(st.op, ast.Pow) else (AUG[type(st.op)], env[tgt], rhs)
            env = {**env, tgt: new}
        else:
            raise Lost(f"{where}: unsupported statement {type(st).__name__} at line {st.lineno}")
    return tr_expr(body[-1].value, env, mod, where, depth)


def tr_function(fn: ast.FunctionDef, mod: Module):
    """-> (param name or None, expression tree) of a handle `def f(data, model[, param])`"""
    where = fn.name
    pos, _defaults, kwonly = _callable_params(fn)
    if len(pos) + len(kwonly) not in (2, 3) or len(pos) < 2 or len(kwonly) > 1:
        raise Lost(f"{where}: expected arguments (data, model[, parameter]), found {pos + kwonly}")
    env = {pos[0]: ("data",), pos[1]: ("var",)}
    param = None
    if len(pos) + len(kwonly) == 3:
        param = (pos + kwonly)[2]
        env[param] = ("param",)
    if len(set(pos + kwonly)) != len(pos + kwonly):
        raise Lost(f"{where}: repeated argument name")
    return param, tr_body(fn, env, mod, where)


# ----------------------------------------------------------------------------
# parsing the two modules
# ----------------------------------------------------------------------------
def parse_handles(src: str):
    """-> (eps Fraction | None, enum member names, Module)"""
    tree = ast.parse(src)
    eps = None
    members = None
    fns, lambdas, const_nodes = {}, {}, []
    for st in tree.body:
        tgt, val = None, None
        if isinstance(st, ast.Assign) and len(st.targets) == 1 and isinstance(st.targets[0], ast.Name):
            tgt, val = st.targets[0].id, st.value
        elif isinstance(st, ast.AnnAssign) and isinstance(st.target, ast.Name) and st.value is not None:
            tgt, val = st.target.id, st.value
        if tgt == "EPS":
            eps = _num(val)
            if eps is None and isinstance(val, ast.Call) and isinstance(val.func, ast.Name) \
                    and val.func.id == "float" and len(val.args) == 1:
                eps = _num(val.args[0])
        elif tgt is not None and isinstance(val, ast.Lambda):
            lambdas[tgt] = val
        elif tgt is not None:
            const_nodes.append((tgt, val))
        elif isinstance(st, ast.ClassDef) and st.name == "Objectives":
            members = []
            for c in st.body:
                if isinstance(c, ast.Assign) and len(c.targets) == 1 and isinstance(c.targets[0], ast.Name):
                    members.append(c.targets[0].id)
        elif isinstance(st, ast.FunctionDef):
            fns[st.name] = st
    mod = Module(fns, lambdas, {}, eps is not None)
    if eps is not None:
        mod.consts["EPS"] = ("eps",)
    # other module-level constants, in order; the ones that are not scalar expressions are simply not constants
    for name, val in const_nodes:
        try:
            mod.consts[name] = tr_expr(val, {}, mod, f"handles.{name}")
        except Lost:
            pass
    return eps, members, mod


class _Unknown:
    """value of a name the symbolic execution of `setup` knows nothing about"""


def _objective_of(node, ctx):
    """`Objectives.X` (or an imported / aliased spelling) -> "X" """
    if isinstance(node, ast.Attribute) and isinstance(node.value, ast.Name) and node.value.id == "Objectives":
        return node.attr
    if isinstance(node, ast.Attribute) and isinstance(node.value, ast.Attribute) \
            and node.value.attr == "Objectives" and isinstance(node.value.value, ast.Name) \
            and node.value.value.id == "handles":
        return node.attr
    return None


class SetupExec:
    """Symbolic execution of `fg_setup.setup` for one fixed objective."""

    def __init__(self, setup: ast.FunctionDef, objective: str, imported: dict):
        pos, _d, kwonly = _callable_params(setup)
        if len(pos) < 1:
            raise Lost("fg_setup.setup: no objective argument")
        self.obj_name = pos[0]
        self.data_name = pos[1] if len(pos) > 1 else None
        self.param_name = pos[2] if len(pos) > 2 else (kwonly[0] if kwonly else None)
        self.objective = objective
        self.imported = imported          # names imported from pyttb.gcp.handles -> handle name
        self.env = {}                     # local name -> AST node (already resolved) | ast.FunctionDef
        self.where = f"fg_setup.setup[{objective}]"

    # --- conditions -------------------------------------------------------------------------------------
    def test(self, t):
        """True / False when the test is about the objective, None otherwise"""
        if isinstance(t, ast.Compare) and len(t.ops) == 1:
            l, r, op = t.left, t.comparators[0], t.ops[0]
            is_obj = lambda n: isinstance(n, ast.Name) and n.id == self.obj_name  # noqa: E731
            if isinstance(op, (ast.Eq, ast.Is, ast.NotEq, ast.IsNot)):
                other = r if is_obj(l) else (l if is_obj(r) else None)
                if other is not None:
                    o = _objective_of(other, self)
                    if o is None:
                        raise Lost(f"{self.where}: branch test {ast.unparse(t)!r}")
                    eq = o == self.objective
                    return eq if isinstance(op, (ast.Eq, ast.Is)) else not eq
            if isinstance(op, (ast.In, ast.NotIn)) and is_obj(l) and isinstance(r, (ast.Tuple, ast.List, ast.Set)):
                names = [_objective_of(e, self) for e in r.elts]
                if None in names:
                    raise Lost(f"{self.where}: branch test {ast.unparse(t)!r}")
                inn = self.objective in names
                return inn if isinstance(op, ast.In) else not inn
        if isinstance(t, ast.BoolOp):
            vals = [self.test(v) for v in t.values]
            if None not in vals:
                return all(vals) if isinstance(t.op, ast.And) else any(vals)
            if isinstance(t.op, ast.And) and any(v is False for v in vals):
                return False
            if isinstance(t.op, ast.Or) and any(v is True for v in vals):
                return True
            return None
        if isinstance(t, ast.UnaryOp) and isinstance(t.op, ast.Not):
            v = self.test(t.operand)
            return None if v is None else not v
        return None

    # --- values -------------------------------------------------------------------------------------------
    def resolve(self, node):
        """substitute local aliases; index a dict literal by the objective"""
        if isinstance(node, ast.Name) and node.id in self.env:
            return self.env[node.id]
        if isinstance(node, ast.Subscript) and isinstance(node.slice, ast.Name) and node.slice.id == self.obj_name:
            d = self.resolve(node.value)
            if isinstance(d, ast.Dict):
                for k, v in zip(d.keys, d.values):
                    if k is not None and _objective_of(k, self) == self.objective:
                        return self.resolve(v)
                raise Lost(f"{self.where}: the table has no entry for this objective")
        return node

    @staticmethod
    def _only_raises(body):
        return all(isinstance(b, ast.Raise) or
                   (isinstance(b, ast.Expr) and isinstance(b.value, ast.Call)
                    and "warn" in ast.unparse(b.value.func)) for b in body) and \
            any(isinstance(b, ast.Raise) for b in body)

    def assign(self, target, value):
        if isinstance(target, ast.Name):
            self.env[target.id] = self.resolve(value)
        elif isinstance(target, (ast.Tuple, ast.List)):
            v = self.resolve(value)
            if not isinstance(v, (ast.Tuple, ast.List)) or len(v.elts) != len(target.elts):
                raise Lost(f"{self.where}: unsupported unpacking at line {target.lineno}")
            vals = [self.resolve(e) for e in v.elts]
            for t, e in zip(target.elts, vals):
                if not isinstance(t, ast.Name):
                    raise Lost(f"{self.where}: unsupported assignment target at line {target.lineno}")
                self.env[t.id] = e
        else:
            raise Lost(f"{self.where}: unsupported assignment target at line {target.lineno}")

    def run(self, body):
        """-> ("return", node) | ("raise",) | None (fell through)"""
        for st in _strip_docstring(body):
            if isinstance(st, ast.Pass):
                continue
            if isinstance(st, ast.Expr):      # a bare call (warning / logging) or a string
                continue
            if isinstance(st, ast.Raise):
                return ("raise",)
            if isinstance(st, ast.Return):
                if st.value is None:
                    raise Lost(f"{self.where}: bare return")
                return ("return", self.resolve(st.value))
            if isinstance(st, ast.Assign):
                for t in st.targets:
                    self.assign(t, st.value)
                continue
            if isinstance(st, ast.AnnAssign):
                if st.value is not None:
                    self.assign(st.target, st.value)
                continue
            if isinstance(st, ast.FunctionDef):
                self.env[st.name] = st
                continue
            if isinstance(st, ast.If):
                v = self.test(st.test)
                if v is None:
                    # a guard that does not mention the objective: it may only raise (argument validation)
                    if self._only_raises(st.body) and (not st.orelse or self._only_raises(st.orelse)):
                        continue
                    if self._only_raises(st.body):
                        r = self.run(st.orelse)
                        if r is not None:
                            return r
                        continue
                    raise Lost(f"{self.where}: unsupported condition {ast.unparse(st.test)!r} at line {st.lineno}")
                r = self.run(st.body if v else st.orelse)
                if r is not None:
                    return r
                continue
            if hasattr(ast, "Match") and isinstance(st, ast.Match):
                if not (isinstance(st.subject, ast.Name) and st.subject.id == self.obj_name):
                    raise Lost(f"{self.where}: match on {ast.unparse(st.subject)!r}")
                taken = None
                for case in st.cases:
                    pats = case.pattern.patterns if isinstance(case.pattern, ast.MatchOr) else [case.pattern]
                    hit = False
                    for p in pats:
                        if isinstance(p, ast.MatchValue):
                            o = _objective_of(p.value, self)
                            if o is None:
                                raise Lost(f"{self.where}: case pattern at line {case.pattern.lineno}")
                            hit = hit or o == self.objective
                        elif isinstance(p, ast.MatchAs) and p.pattern is None:
                            hit = True
                        else:
                            raise Lost(f"{self.where}: case pattern at line {case.pattern.lineno}")
                    if hit and case.guard is None:
                        taken = case
                        break
                    if case.guard is not None:
                        raise Lost(f"{self.where}: guarded case at line {case.pattern.lineno}")
                if taken is not None:
                    r = self.run(taken.body)
                    if r is not None:
                        return r
                continue
            raise Lost(f"{self.where}: unsupported statement {type(st).__name__} at line {st.lineno}")
        return None

    # --- reading the returned triple -------------------------------------------------------------------
    def is_param(self, node):
        node = self.resolve(node)
        if isinstance(node, ast.Call) and isinstance(node.func, ast.Name) and node.func.id == "float" \
                and len(node.args) == 1 and not node.keywords:
            return self.is_param(node.args[0])
        return isinstance(node, ast.Name) and node.id == self.param_name

    def handle_name(self, node):
        node = self.resolve(node)
        if isinstance(node, ast.Attribute) and isinstance(node.value, ast.Name) and node.value.id == "handles":
            return node.attr
        if isinstance(node, ast.Name) and node.id in self.imported:
            return self.imported[node.id]
        return None

    def handle_ref(self, node):
        """-> (handle name, binding) with binding None | ("kw", name) | ("pos3",)"""
        node = self.resolve(node)
        name = self.handle_name(node)
        if name is not None:
            return name, None
        # partial(h, kw=additional_parameter)
        if isinstance(node, ast.Call) and (
                (isinstance(node.func, ast.Name) and node.func.id == "partial") or
                (isinstance(node.func, ast.Attribute) and node.func.attr == "partial"
                 and isinstance(node.func.value, ast.Name) and node.func.value.id == "functools")):
            if len(node.args) == 1 and len(node.keywords) == 1 and node.keywords[0].arg is not None:
                name, inner = self.handle_ref(node.args[0])
                if inner is None:
                    if self.is_param(node.keywords[0].value):
                        return name, ("kw", node.keywords[0].arg)
                    raise Lost(f"{self.where}: {name} is bound to {ast.unparse(node.keywords[0].value)!r}, "
                               f"not to the additional parameter")
            raise Lost(f"{self.where}: unsupported partial application {ast.unparse(node)!r}")
        # lambda d, m[, t=additional_parameter]: h(d, m[, t | additional_parameter])   (or a local def of that form)
        lam = None
        if isinstance(node, ast.Lambda):
            lam, body = node, node.body
        elif isinstance(node, ast.FunctionDef):
            stmts = _strip_docstring(node.body)
            if len(stmts) == 1 and isinstance(stmts[0], ast.Return) and stmts[0].value is not None:
                lam, body = node, stmts[0].value
        if lam is not None:
            pos, defaults, kwonly = _callable_params(lam)
            names = pos + kwonly
            if len(pos) < 2 or len(names) > 3:
                raise Lost(f"{self.where}: wrapper with arguments {names}")
            extra = names[2] if len(names) == 3 else None
            if extra is not None and not (extra in defaults and self.is_param(defaults[extra])):
                raise Lost(f"{self.where}: the wrapper's argument {extra!r} does not default to the additional parameter")
            if set(defaults) - {extra}:
                raise Lost(f"{self.where}: wrapper with defaults for its data / model arguments")
            if isinstance(body, ast.Call) and not any(isinstance(a, ast.Starred) for a in body.args) \
                    and all(k.arg is not None for k in body.keywords):
                name, inner = self.handle_ref(body.func)
                if inner is None:
                    def kind(n):
                        if isinstance(n, ast.Name) and n.id == pos[0]:
                            return "data"
                        if isinstance(n, ast.Name) and n.id == pos[1]:
                            return "model"
                        if isinstance(n, ast.Name) and extra is not None and n.id == extra:
                            return "param"
                        if extra is None and self.is_param(n):
                            return "param"
                        return None
                    kinds = [kind(a) for a in body.args]
                    kwkinds = {k.arg: kind(k.value) for k in body.keywords}
                    if None in kinds or None in kwkinds.values():
                        raise Lost(f"{self.where}: the wrapper passes something else than its own arguments / the "
                                   f"additional parameter: {ast.unparse(body)!r}")
                    return name, ("call", kinds, kwkinds)
            raise Lost(f"{self.where}: unsupported wrapper {ast.unparse(node)!r}")
        raise Lost(f"{self.where}: unsupported handle expression {ast.unparse(node)!r}")

    def bound(self, node):
        node = self.resolve(node)
        q = _num(node)
        if q is not None:
            return ("fin", q)

        def is_inf(n):
            if isinstance(n, ast.Attribute) and isinstance(n.value, ast.Name) and n.value.id in NP_MODULES + ("math",) \
                    and n.attr in ("inf", "Inf", "infty", "Infinity", "PINF"):
                return 1
            if isinstance(n, ast.Attribute) and isinstance(n.value, ast.Name) and n.value.id in NP_MODULES \
                    and n.attr == "NINF":
                return -1
            if isinstance(n, ast.Call) and isinstance(n.func, ast.Name) and n.func.id == "float" and len(n.args) == 1 \
                    and isinstance(n.args[0], ast.Constant) and isinstance(n.args[0].value, str):
                s = n.args[0].value.strip().lower()
                if s in ("inf", "+inf", "infinity", "+infinity"):
                    return 1
                if s in ("-inf", "-infinity"):
                    return -1
            if isinstance(n, ast.Constant) and isinstance(n.value, float) and n.value in (float("inf"), float("-inf")):
                return 1 if n.value > 0 else -1
            return 0
        if isinstance(node, ast.UnaryOp) and isinstance(node.op, ast.USub):
            if is_inf(node.operand) == 1:
                return ("negInf",)
            q = _num(node.operand)
            if q is not None:
                return ("fin", -q)
            inner = self.bound(node.operand)
            if inner[0] == "fin":
                return ("fin", -inner[1])
        if is_inf(node) == -1:
            return ("negInf",)
        if isinstance(node, ast.Call) and len(node.args) == 1 and not node.keywords and (
                (isinstance(node.func, ast.Name) and node.func.id in ("float", "int")) or
                (isinstance(node.func, ast.Attribute) and node.func.attr in ("float64", "float32")
                 and isinstance(node.func.value, ast.Name) and node.func.value.id in NP_MODULES)):
            return self.bound(node.args[0])
        raise Lost(f"{self.where}: unsupported lower bound {ast.unparse(node)!r}")


def parse_setup(src: str):
    """-> {objective name: (fn name, fn binding, grad name, grad binding, bound)}, one symbolic run per objective."""
    tree = ast.parse(src)
    setup = next((s for s in tree.body if isinstance(s, ast.FunctionDef) and s.name == "setup"), None)
    if setup is None:
        raise Lost("fg_setup.setup")
    imported = {}
    for st in tree.body:
        if isinstance(st, ast.ImportFrom) and st.module in ("pyttb.gcp.handles", "handles", ".handles") \
                or (isinstance(st, ast.ImportFrom) and st.module == "handles" and st.level == 1):
            for a in st.names:
                imported[a.asname or a.name] = a.name
    table, errors = {}, []
    for obj in OBJECTIVES:
        try:
            ex = SetupExec(setup, obj, imported)
            # module-level tables / aliases of fg_setup.py
            for st in tree.body:
                if isinstance(st, ast.Assign) and len(st.targets) == 1 and isinstance(st.targets[0], ast.Name) \
                        and isinstance(st.value, (ast.Dict, ast.Attribute, ast.Lambda)):
                    ex.env[st.targets[0].id] = st.value
            r = ex.run(setup.body)
            if r is None:
                raise Lost(f"{ex.where}: no return")
            if r[0] == "raise":
                raise Lost(f"{ex.where}: raises for this objective")
            val = r[1]
            if not isinstance(val, ast.Tuple) or len(val.elts) != 3:
                raise Lost(f"{ex.where}: return (function_handle, gradient_handle, lower_bound)")
            fn, fb = ex.handle_ref(val.elts[0])
            gr, gb = ex.handle_ref(val.elts[1])
            table[obj] = (fn, fb, gr, gb, ex.bound(val.elts[2]))
        except Lost as e:
            errors.append(str(e))
    return table, errors


# ----------------------------------------------------------------------------
# rendering
# ----------------------------------------------------------------------------
def lean_rat(q: Fraction) -> str:
    if q.denominator == 1:
        return f"({q.numerator} : Rat)"
    return f"(({q.numerator} : Rat) / {q.denominator})"


def lean_expr(e) -> str:
    k = e[0]
    if k in ("var", "data", "param", "pi"):
        return f".{k}"
    if k == "eps":
        return "(.const EPS)"
    if k == "const":
        return f"(.const {lean_rat(e[1])})"
    if k == "powNat":
        return f"(.powNat {lean_expr(e[1])} {e[2]})"
    return "(." + k + "".join(" " + lean_expr(x) for x in e[1:]) + ")"


def uses(e, leaf):
    return e[0] == leaf or any(isinstance(x, tuple) and uses(x, leaf) for x in e[1:])


def binding_param(binding, fn_node: ast.FunctionDef, param):
    """The name of the handle parameter a table binding sets to the additional parameter (None: nothing bound).
    Raises Lost when the binding does not pass (data, model) through in this order."""
    if binding is None:
        return None
    if binding[0] == "kw":
        return binding[1]
    _tag, kinds, kwkinds = binding
    pos, _d, kwonly = _callable_params(fn_node)
    got = {}
    for p, k in zip(pos, kinds):
        got[p] = k
    if len(kinds) > len(pos):
        raise Lost(f"too many arguments for handles.{fn_node.name}")
    for k, v in kwkinds.items():
        if k in got or k not in pos + kwonly:
            raise Lost(f"bad keyword {k!r} for handles.{fn_node.name}")
        got[k] = v
    names = pos + kwonly
    if got.get(names[0]) != "data" or got.get(names[1]) != "model":
        raise Lost(f"the wrapper of handles.{fn_node.name} does not pass (data, model) through in this order")
    bound = [n for n in names[2:] if got.get(n) == "param"]
    if any(got.get(n) == "param" for n in names[:2]) or any(got.get(n) in ("data", "model") for n in names[2:]):
        raise Lost(f"the wrapper of handles.{fn_node.name} mixes up its arguments")
    return bound[0] if bound else None


def build():
    """Read the current source.  -> (lean text or None, lost anchors, description dict)"""
    lost = []
    hsrc = (REPO / "pyttb" / "gcp" / "handles.py").read_text()
    ssrc = (REPO / "pyttb" / "gcp" / "fg_setup.py").read_text()
    eps, members, mod = parse_handles(hsrc)
    fns = mod.fns
    if members is None or sorted(members) != sorted(OBJECTIVES):
        lost.append(f"handles.Objectives (members {members})")
    try:
        table, errors = parse_setup(ssrc)
        lost += errors
    except Lost as ex:
        lost.append(str(ex))
        table = {}
    exprs = {}
    params = {}
    desc = {"handles": {}, "table": {}, "eps": None if eps is None else str(eps)}
    rows = {}
    for o in OBJECTIVES:
        if o not in table:
            continue
        fn, fb, gr, gb, bound = table[o]
        okrow = True
        kws = []
        for name, binding in ((fn, fb), (gr, gb)):
            kw = None
            if name not in exprs:
                if name not in fns:
                    lost.append(f"handles.{name}")
                    okrow = False
                    kws.append(None)
                    continue
                try:
                    p, e = tr_function(fns[name], mod)
                except Lost as ex:
                    lost.append(str(ex))
                    okrow = False
                    kws.append(None)
                    continue
                exprs[name] = e
                params[name] = p
                desc["handles"][name] = {"param": p}
            if name in exprs:
                try:
                    kw = binding_param(binding, fns[name], params[name])
                except Lost as ex:
                    lost.append(f"fg_setup.setup[{o}]: {ex}")
                    okrow = False
                if okrow and params[name] != kw:
                    # what the table binds must be the handle's own extra argument
                    lost.append(f"fg_setup.setup[{o}]: {name} takes parameter {params[name]!r} but the table binds {kw!r}")
                    okrow = False
            kws.append(kw)
        if okrow:
            rows[o] = (fn, gr, bound, kws[0] is not None)
            desc["table"][o] = {"fn": fn, "grad": gr, "param": kws[0],
                                "lower": None if bound[0] == "negInf" else str(bound[1])}
    # every other public top-level function of handles.py that reads as a handle is translated too
    # (so that a handle the table no longer refers to can still be evaluated by the driver)
    for name, fn in fns.items():
        if name in exprs or name.startswith("_"):
            continue
        try:
            p, e = tr_function(fn, mod)
        except Lost:
            continue
        exprs[name] = e
        params[name] = p
        desc["handles"][name] = {"param": p, "unreferenced": True}
    if any(uses(e, "eps") for e in exprs.values()) and eps is None:
        lost.append("handles.EPS")
    if lost:
        return None, lost, desc
    out = []
    out.append("/- GENERATED by harness/translate/gen_handles.py from pyttb/gcp/handles.py and")
    out.append("   pyttb/gcp/fg_setup.py of the current working tree.  Definitions only.  Do not edit. -/")
    out.append("import PyttbModel.Alg.GcpExpr")
    out.append("namespace Pyttb.Handles")
    out.append("")
    out.append("/-- `EPS` of handles.py: the exact value of the Python double. -/")
    out.append(f"def EPS : Rat := {lean_rat(eps if eps is not None else Fraction(0))}")
    out.append("")
    for name in exprs:
        out.append(f"/-- `handles.{name}`" + (f" (extra parameter `{params[name]}`)" if params[name] else "") + " -/")
        out.append(f"def {name} : Expr :=\n  {lean_expr(exprs[name])}")
        out.append("")
    out.append("/-- the handles by their Python names -/")
    out.append("def byName : List (String × Expr) := [")
    out.append(",\n".join(f'  ("{n}", {n})' for n in exprs))
    out.append("]")
    out.append("")
    out.append("/-- `fg_setup.setup`: objective ↦ (function handle, gradient handle, lower bound, binds a parameter) -/")
    out.append("def setupTable : Objective → SetupRow")
    for o in OBJECTIVES:
        fn, gr, bound, hp = rows[o]
        b = ".negInf" if bound[0] == "negInf" else f"(.fin {lean_rat(bound[1])})"
        out.append(f"  | .{o} => ⟨{fn}, {gr}, {b}, {'true' if hp else 'false'}⟩")
    out.append("")
    out.append("end Pyttb.Handles")
    return "\n".join(out) + "\n", [], desc


def run(prop: str, info: dict):
    text, lost, desc = build()
    info.setdefault("translators", {})["gen_handles"] = {"lost": lost, **desc}
    if text is not None:
        OUT.parent.mkdir(parents=True, exist_ok=True)
        if not OUT.exists() or OUT.read_text() != text:
            OUT.write_text(text)
    return [f"gen_handles: {a}" for a in lost]
