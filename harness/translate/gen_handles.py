"""Translator: pyttb/gcp/handles.py + the selection table of pyttb/gcp/fg_setup.py
-> lean/PyttbModel/Generated/Handles.lean (definitions only).

The Python source is parsed with `ast` on every run.  Every handle body becomes a term
of `Pyttb.Expr` (lean/PyttbModel/Alg/GcpExpr.lean); the if/elif chain of
`fg_setup.setup` becomes `setupTable : Objective -> SetupRow`.  Anything outside the
accepted AST subset is reported as a lost anchor, never guessed.

Accepted subset of a handle:  def f(data, model[, param]) with an optional docstring,
any number of `name = <expr>` assignments (inlined) and a final `return <expr>`, where
<expr> is built from the argument names, local names, the module constant EPS, numeric
literals, np.pi, + - * / ** and unary minus, np.log / np.exp / np.abs / np.sign /
np.logical_not with one positional argument, and one-operator comparisons < > <= >=.
"""
from __future__ import annotations

import ast
from fractions import Fraction
from pathlib import Path

from harness.lib import LEAN, REPO

PROPS = ["C12"]

OUT = LEAN / "PyttbModel" / "Generated" / "Handles.lean"

OBJECTIVES = ["GAUSSIAN", "BERNOULLI_ODDS", "BERNOULLI_LOGIT", "POISSON", "POISSON_LOG",
              "RAYLEIGH", "GAMMA", "HUBER", "NEGATIVE_BINOMIAL", "BETA"]

UNARY_CALLS = {"log": "log", "exp": "exp", "abs": "abs", "absolute": "abs", "sign": "sign",
               "logical_not": "lnot"}
BINOPS = {ast.Add: "add", ast.Sub: "sub", ast.Mult: "mul", ast.Div: "div"}


class Lost(Exception):
    """An anchor (function / table entry) could not be read."""


# ----------------------------------------------------------------------------
# expression trees: ("var",) ("data",) ("param",) ("const", Fraction) ("eps",) ("pi",)
# ("add"|"sub"|"mul"|"div"|"powReal"|"lt", a, b) ("neg"|"log"|"exp"|"abs"|"sign"|"lnot", a)
# ("powNat", a, n)
# ----------------------------------------------------------------------------
def _num(node):
    if isinstance(node, ast.Constant) and isinstance(node.value, (int, float)) and not isinstance(node.value, bool):
        return Fraction(node.value)
    return None


def tr_expr(node, env, where):
    def bad(what):
        raise Lost(f"{where}: unsupported {what} at line {getattr(node, 'lineno', '?')}")

    q = _num(node)
    if q is not None:
        return ("const", q)
    if isinstance(node, ast.Name):
        if node.id in env:
            return env[node.id]
        bad(f"name {node.id!r}")
    if isinstance(node, ast.Attribute):
        if isinstance(node.value, ast.Name) and node.value.id == "np" and node.attr == "pi":
            return ("pi",)
        bad(f"attribute {ast.unparse(node)!r}")
    if isinstance(node, ast.UnaryOp):
        if isinstance(node.op, ast.USub):
            q = _num(node.operand)
            if q is not None:
                return ("const", -q)
            return ("neg", tr_expr(node.operand, env, where))
        bad(f"unary operator {type(node.op).__name__}")
    if isinstance(node, ast.BinOp):
        if type(node.op) in BINOPS:
            return (BINOPS[type(node.op)], tr_expr(node.left, env, where), tr_expr(node.right, env, where))
        if isinstance(node.op, ast.Pow):
            base = tr_expr(node.left, env, where)
            if isinstance(node.right, ast.Constant) and isinstance(node.right.value, int) \
                    and not isinstance(node.right.value, bool) and node.right.value >= 0:
                return ("powNat", base, int(node.right.value))
            return ("powReal", base, tr_expr(node.right, env, where))
        bad(f"binary operator {type(node.op).__name__}")
    if isinstance(node, ast.Call):
        f = node.func
        if (isinstance(f, ast.Attribute) and isinstance(f.value, ast.Name) and f.value.id == "np"
                and f.attr in UNARY_CALLS and len(node.args) == 1 and not node.keywords):
            return (UNARY_CALLS[f.attr], tr_expr(node.args[0], env, where))
        bad(f"call {ast.unparse(node.func)!r}")
    if isinstance(node, ast.Compare):
        if len(node.ops) == 1:
            a = tr_expr(node.left, env, where)
            b = tr_expr(node.comparators[0], env, where)
            op = node.ops[0]
            if isinstance(op, ast.Lt):
                return ("lt", a, b)
            if isinstance(op, ast.Gt):
                return ("lt", b, a)
            if isinstance(op, ast.LtE):
                return ("lnot", ("lt", b, a))
            if isinstance(op, ast.GtE):
                return ("lnot", ("lt", a, b))
        bad("comparison")
    bad(type(node).__name__)


def tr_function(fn: ast.FunctionDef, eps_known: bool):
    """-> (param name or None, expression tree)"""
    where = fn.name
    a = fn.args
    if a.vararg or a.kwarg or a.kwonlyargs or a.posonlyargs or a.defaults:
        raise Lost(f"{where}: unsupported signature")
    names = [x.arg for x in a.args]
    if len(names) not in (2, 3) or names[0] != "data" or names[1] != "model":
        raise Lost(f"{where}: expected arguments (data, model[, parameter]), found {names}")
    env = {"data": ("data",), "model": ("var",)}
    if eps_known:
        env["EPS"] = ("eps",)
    param = None
    if len(names) == 3:
        param = names[2]
        env[param] = ("param",)
    body = list(fn.body)
    if body and isinstance(body[0], ast.Expr) and isinstance(body[0].value, ast.Constant) \
            and isinstance(body[0].value.value, str):
        body = body[1:]
    if not body or not isinstance(body[-1], ast.Return) or body[-1].value is None:
        raise Lost(f"{where}: body does not end in `return <expr>`")
    for st in body[:-1]:
        if isinstance(st, ast.Assign) and len(st.targets) == 1 and isinstance(st.targets[0], ast.Name):
            tgt = st.targets[0].id
        elif isinstance(st, ast.AnnAssign) and isinstance(st.target, ast.Name) and st.value is not None:
            tgt = st.target.id
        else:
            raise Lost(f"{where}: unsupported statement {type(st).__name__} at line {st.lineno}")
        if tgt in ("data", "model", "EPS") or tgt == param:
            raise Lost(f"{where}: assignment to {tgt}")
        env = {**env, tgt: tr_expr(st.value, env, where)}
    return param, tr_expr(body[-1].value, env, where)


# ----------------------------------------------------------------------------
# parsing the two modules
# ----------------------------------------------------------------------------
def parse_handles(src: str):
    """-> (eps Fraction | None, enum member names, {function name: FunctionDef})"""
    mod = ast.parse(src)
    eps = None
    members = None
    fns = {}
    for st in mod.body:
        if isinstance(st, ast.Assign) and len(st.targets) == 1 and isinstance(st.targets[0], ast.Name) \
                and st.targets[0].id == "EPS":
            eps = _num(st.value)
        elif isinstance(st, ast.ClassDef) and st.name == "Objectives":
            members = []
            for c in st.body:
                if isinstance(c, ast.Assign) and len(c.targets) == 1 and isinstance(c.targets[0], ast.Name):
                    members.append(c.targets[0].id)
        elif isinstance(st, ast.FunctionDef):
            fns[st.name] = st
    return eps, members, fns


def _handle_ref(node, where):
    """`handles.f` -> ("f", None);  `partial(handles.f, kw=additional_parameter)` -> ("f", "kw")"""
    if isinstance(node, ast.Attribute) and isinstance(node.value, ast.Name) and node.value.id == "handles":
        return node.attr, None
    if (isinstance(node, ast.Call) and isinstance(node.func, ast.Name) and node.func.id == "partial"
            and len(node.args) == 1 and len(node.keywords) == 1):
        name, _ = _handle_ref(node.args[0], where)
        kw = node.keywords[0]
        if kw.arg is not None and isinstance(kw.value, ast.Name) and kw.value.id == "additional_parameter":
            return name, kw.arg
    raise Lost(f"{where}: unsupported handle expression {ast.unparse(node)!r}")


def _bound(node, where):
    q = _num(node)
    if q is not None:
        return ("fin", q)
    if (isinstance(node, ast.UnaryOp) and isinstance(node.op, ast.USub) and isinstance(node.operand, ast.Attribute)
            and isinstance(node.operand.value, ast.Name) and node.operand.value.id in ("np", "math")
            and node.operand.attr == "inf"):
        return ("negInf",)
    raise Lost(f"{where}: unsupported lower bound {ast.unparse(node)!r}")


def _only_raises(st):
    """`if <cond>: raise ...` guards (argument validation) do not take part in the table."""
    return isinstance(st, ast.If) and not st.orelse and all(isinstance(b, ast.Raise) for b in st.body)


def parse_setup(src: str):
    """-> {objective name: (fn name, fn kw, grad name, grad kw, bound)} read off the if/elif chain."""
    mod = ast.parse(src)
    setup = next((s for s in mod.body if isinstance(s, ast.FunctionDef) and s.name == "setup"), None)
    if setup is None:
        raise Lost("fg_setup.setup")
    chain = next((s for s in setup.body if isinstance(s, ast.If)), None)
    if chain is None:
        raise Lost("fg_setup.setup: if/elif chain")
    table = {}
    node = chain
    while True:
        t = node.test
        ok = (isinstance(t, ast.Compare) and len(t.ops) == 1 and isinstance(t.ops[0], ast.Eq)
              and isinstance(t.left, ast.Name) and t.left.id == "objective"
              and isinstance(t.comparators[0], ast.Attribute)
              and isinstance(t.comparators[0].value, ast.Name) and t.comparators[0].value.id == "Objectives")
        if not ok:
            raise Lost(f"fg_setup.setup: branch test {ast.unparse(t)!r}")
        obj = t.comparators[0].attr
        where = f"fg_setup.setup[{obj}]"
        got = {}
        for st in node.body:
            if _only_raises(st):
                continue
            if isinstance(st, ast.Assign) and len(st.targets) == 1 and isinstance(st.targets[0], ast.Name) \
                    and st.targets[0].id in ("function_handle", "gradient_handle", "lower_bound"):
                if st.targets[0].id in got:
                    raise Lost(f"{where}: {st.targets[0].id} assigned twice")
                got[st.targets[0].id] = st.value
            else:
                raise Lost(f"{where}: unsupported statement at line {st.lineno}")
        if set(got) != {"function_handle", "gradient_handle", "lower_bound"}:
            raise Lost(f"{where}: missing {sorted({'function_handle', 'gradient_handle', 'lower_bound'} - set(got))}")
        if obj in table:
            raise Lost(f"{where}: objective tested twice")
        fn, fkw = _handle_ref(got["function_handle"], where)
        gr, gkw = _handle_ref(got["gradient_handle"], where)
        table[obj] = (fn, fkw, gr, gkw, _bound(got["lower_bound"], where))
        if len(node.orelse) == 1 and isinstance(node.orelse[0], ast.If):
            node = node.orelse[0]
            continue
        if not all(isinstance(s, ast.Raise) for s in node.orelse):
            raise Lost("fg_setup.setup: final else branch is not a raise")
        break
    # what is returned must be the three variables, in this order
    ret = next((s for s in setup.body if isinstance(s, ast.Return)), None)
    if ret is None or not isinstance(ret.value, ast.Tuple) or \
            [getattr(e, "id", None) for e in ret.value.elts] != ["function_handle", "gradient_handle", "lower_bound"]:
        raise Lost("fg_setup.setup: return (function_handle, gradient_handle, lower_bound)")
    return table


# ----------------------------------------------------------------------------
# rendering
# ----------------------------------------------------------------------------
def lean_rat(q: Fraction) -> str:
    if q.denominator == 1:
        return f"({q.numerator} : Rat)"
    return f"(({q.numerator} : Rat) / {q.denominator})"


def lean_expr(e) -> str:
    k = e[0]
    if k in ("var", "data", "param", "pi"):
        return f".{k}"
    if k == "eps":
        return "(.const EPS)"
    if k == "const":
        return f"(.const {lean_rat(e[1])})"
    if k == "powNat":
        return f"(.powNat {lean_expr(e[1])} {e[2]})"
    if len(e) == 2:
        return f"(.{k} {lean_expr(e[1])})"
    return f"(.{k} {lean_expr(e[1])} {lean_expr(e[2])})"


def uses(e, leaf):
    return e[0] == leaf or any(isinstance(x, tuple) and uses(x, leaf) for x in e[1:])


def build():
    """Read the current source.  -> (lean text or None, lost anchors, description dict)"""
    lost = []
    hsrc = (REPO / "pyttb" / "gcp" / "handles.py").read_text()
    ssrc = (REPO / "pyttb" / "gcp" / "fg_setup.py").read_text()
    eps, members, fns = parse_handles(hsrc)
    if members is None or sorted(members) != sorted(OBJECTIVES):
        lost.append(f"handles.Objectives (members {members})")
    try:
        table = parse_setup(ssrc)
    except Lost as ex:
        lost.append(str(ex))
        table = {}
    for o in OBJECTIVES:
        if table and o not in table:
            lost.append(f"fg_setup.setup[{o}]")
    for o in table:
        if o not in OBJECTIVES:
            lost.append(f"fg_setup.setup[{o}] (not a known objective)")
    exprs = {}
    params = {}
    desc = {"handles": {}, "table": {}, "eps": None if eps is None else str(eps)}
    rows = {}
    for o in OBJECTIVES:
        if o not in table:
            continue
        fn, fkw, gr, gkw, bound = table[o]
        okrow = True
        for name, kw in ((fn, fkw), (gr, gkw)):
            if name not in exprs:
                if name not in fns:
                    lost.append(f"handles.{name}")
                    okrow = False
                    continue
                try:
                    p, e = tr_function(fns[name], eps is not None)
                except Lost as ex:
                    lost.append(str(ex))
                    okrow = False
                    continue
                exprs[name] = e
                params[name] = p
                desc["handles"][name] = {"param": p}
            if name in exprs and params[name] != kw:
                # the keyword bound by partial() must be the handle's own extra argument
                lost.append(f"fg_setup.setup[{o}]: {name} takes parameter {params[name]!r} but the table binds {kw!r}")
                okrow = False
        if okrow:
            rows[o] = (fn, gr, bound, fkw is not None)
            desc["table"][o] = {"fn": fn, "grad": gr, "param": fkw,
                                "lower": None if bound[0] == "negInf" else str(bound[1])}
    # every other top-level function of handles.py that reads as a handle is translated too
    # (so that a handle the table no longer refers to can still be evaluated by the driver)
    for name, fn in fns.items():
        if name in exprs:
            continue
        try:
            p, e = tr_function(fn, eps is not None)
        except Lost:
            continue
        exprs[name] = e
        params[name] = p
        desc["handles"][name] = {"param": p, "unreferenced": True}
    if any(uses(e, "eps") for e in exprs.values()) and eps is None:
        lost.append("handles.EPS")
    if lost:
        return None, lost, desc
    out = []
    out.append("/- GENERATED by harness/translate/gen_handles.py from pyttb/gcp/handles.py and")
    out.append("   pyttb/gcp/fg_setup.py of the current working tree.  Definitions only.  Do not edit. -/")
    out.append("import PyttbModel.Alg.GcpExpr")
    out.append("namespace Pyttb.Handles")
    out.append("")
    out.append("/-- `EPS` of handles.py: the exact value of the Python double. -/")
    out.append(f"def EPS : Rat := {lean_rat(eps if eps is not None else Fraction(0))}")
    out.append("")
    for name in exprs:
        out.append(f"/-- `handles.{name}`" + (f" (extra parameter `{params[name]}`)" if params[name] else "") + " -/")
        out.append(f"def {name} : Expr :=\n  {lean_expr(exprs[name])}")
        out.append("")
    out.append("/-- the handles by their Python names -/")
    out.append("def byName : List (String × Expr) := [")
    out.append(",\n".join(f'  ("{n}", {n})' for n in exprs))
    out.append("]")
    out.append("")
    out.append("/-- `fg_setup.setup`: objective ↦ (function handle, gradient handle, lower bound, binds a parameter) -/")
    out.append("def setupTable : Objective → SetupRow")
    for o in OBJECTIVES:
        fn, gr, bound, hp = rows[o]
        b = ".negInf" if bound[0] == "negInf" else f"(.fin {lean_rat(bound[1])})"
        out.append(f"  | .{o} => ⟨{fn}, {gr}, {b}, {'true' if hp else 'false'}⟩")
    out.append("")
    out.append("end Pyttb.Handles")
    return "\n".join(out) + "\n", [], desc


def run(prop: str, info: dict):
    text, lost, desc = build()
    info.setdefault("translators", {})["gen_handles"] = {"lost": lost, **desc}
    if text is not None:
        OUT.parent.mkdir(parents=True, exist_ok=True)
        if not OUT.exists() or OUT.read_text() != text:
            OUT.write_text(text)
    return [f"gen_handles: {a}" for a in lost]
