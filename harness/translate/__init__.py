"""Translators: regenerate lean/PyttbModel/Generated/* from /repo's source on every run.

`run(prop, info)` runs the translators the property depends on and returns the list of
lost anchors (strings).  Add a translator by adding its `run` to the table below.
"""
from __future__ import annotations

from harness.translate import gen_handles

TABLE = {
    "C12": [gen_handles.run],
}


def run(prop: str, info: dict):
    lost = []
    for fn in TABLE.get(prop, []):
        lost += list(fn(prop, info))
    return lost
