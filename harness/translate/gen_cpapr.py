"""Translator: pyttb/cp_apr.py -> lean/PyttbModel/Generated/CpAprFormulas.lean.

The source is parsed with `ast` on every run and the solver functions are read through their DATA FLOW
(harness/translate/flow.py: symbolic execution, small module-level helpers executed in place, every local followed to the
expression that reaches it).  Each *anchor* is found by its ROLE and translated with a small expression translator;
nothing is guessed: a value that is missing, ambiguous, or uses a construct outside the accepted subset is reported as
"anchor lost: <name>" and the definition is not emitted (harness/translate/__init__.py then fills it in from the pinned
file and the check ties it to the source by correspondence only).

Anchors (roles)
  loglik.normalize   tt_loglikelihood: the statement call `<Model>.normalize(weight_factor=0, normtype=1)`
  loglik.sparse      tt_loglikelihood: the value returned for sparse data, `float(np.sum(<x> * np.log(<m>)) - np.sum(<factor 0>))`
                     with x the stored values of the data and m = `np.sum(A, axis=1)`
  loglik.dense       tt_loglikelihood: the value returned otherwise, `float(<f> - np.sum(<factor 0>))`, f starting at 0 and
                     increased by `<x> * np.log(<m>)` only where `<x> == 0` does not hold (x, m the [i, j] entries of the
                     unfolded data / model)
  mu.update          tt_cp_apr_mu: the in-place product `<factor n> *= <Phi n>`
  mu.kkt             tt_cp_apr_mu: the value that reaches `kktViolations[...]` of the returned dictionary through
                     `<kkt per mode>[n] = np.max(<entries>)`; in <entries> the updated factor is `a`, the multiplier `phi`
  row.kkt            tt_cp_apr_pdnr / tt_cp_apr_pqnr: the same chain; in <entries> the current row (the variable written
                     back to `<M>.factor_matrices[n][jj, :]` after the inner loop) is `m`, its gradient `g`
  row.grad           the gradient of the row sub-problem: the values of shape `<ones> - <phi>` found there (pdnr:
                     `e_vec - phi_row`; pqnr: `np.ones(phi_row.shape) - phi_row`, computed by calc_grad)
  ls.trial/project   tt_linesearch_prowsubprob: the two projections `<v> *= <v> > 0`; the projected value inside the loop
  ls.fallback        is the trial point `<model_old> + <step> * <direction>`, the one after it the multiplicative fall-back
                     `<model_old> * <phi_row>` (parameters by position, the step = the loop-carried value that starts at
                     the 4th parameter)
  ls.armijo          the path condition of the loop's only `break`: not <descent direction rejected> and
                     `<f_new> <= <f_old> + <suff_decr> * <gDotd>` (so the test may sit in the else branch or carry
                     `not rejected and ...`)
  const.*            minDescentTol (the bound on `np.sum(<projected trial>)` in the rejection test), smallStepTol (the
                     bound in the fall-back test), the line-search arguments at the three call sites (1, 1/2, 10, 1.0e-4),
                     the zero-row fill 1e-8 (written to `<M>.factor_matrices[n][<rows that sum to 0>, 0]`, in the solver
                     or in a helper it calls), the inexact inner limit 2 and the divisor 100.0
Doc comments carry the expression that was translated (inputs under fixed names), never a line number.
"""
from __future__ import annotations

import ast
import copy
from fractions import Fraction
from pathlib import Path

from harness.lib import LEAN, REPO
from harness.translate import flow
from harness.translate.flow import Flow, fold, fold_where, ifexp_leaves, plain, simplify, text

PROPS = ["C11"]
OUT = LEAN / "PyttbModel" / "Generated" / "CpAprFormulas.lean"
ROOTS = ["cp_apr", "tt_cp_apr_mu", "tt_cp_apr_pdnr", "tt_cp_apr_pqnr", "tt_linesearch_prowsubprob",
         "tt_loglikelihood", "get_search_dir_pdnr", "get_search_dir_pqnr"]


class Lost(Exception):
    pass


# ----------------------------------------------------------------------------
# expression translator (entry-wise reading of the NumPy expression)
# ----------------------------------------------------------------------------
def _strip(node):
    """Drop pure re-shapings: x[:, None], x.transpose(), x.transpose()[0], x.ravel(), vectorize_for_mu(x)."""
    while True:
        if isinstance(node, ast.Subscript):
            sl = node.slice
            elts = sl.elts if isinstance(sl, ast.Tuple) else [sl]
            if all((isinstance(e, ast.Slice) and e.lower is None and e.upper is None and e.step is None)
                   or (isinstance(e, ast.Constant) and e.value is None) for e in elts) and \
                    any(isinstance(e, ast.Constant) and e.value is None for e in elts):
                node = node.value
                continue
            # x.transpose()[0] of a column is the column as a row
            if (isinstance(sl, ast.Constant) and sl.value == 0 and isinstance(node.value, ast.Call)
                    and isinstance(node.value.func, ast.Attribute) and node.value.func.attr == "transpose"
                    and not node.value.args):
                node = node.value.func.value
                continue
        if isinstance(node, ast.Call) and isinstance(node.func, ast.Attribute) \
                and node.func.attr in ("transpose", "ravel") and not node.args and not node.keywords:
            node = node.func.value
            continue
        if isinstance(node, ast.Call) and isinstance(node.func, ast.Name) \
                and node.func.id == "vectorize_for_mu" and len(node.args) == 1:
            node = node.args[0]
            continue
        return node


def tr2(node, leaves, where):
    """-> (Lean expression text, the same expression as Python text over the leaf names, re-shapings dropped).
    `leaves` maps ast.unparse(subexpression) to a Lean name."""
    node = _strip(node)
    key = ast.unparse(node)
    if key in leaves:
        return leaves[key], leaves[key]

    def bad(what):
        raise Lost(f"{where}: unsupported {what}: {plain(key)[:60]}")

    if isinstance(node, ast.Constant) and isinstance(node.value, int) and not isinstance(node.value, bool):
        if node.value in (0, 1):
            return str(node.value), str(node.value)
        bad("integer literal")
    if isinstance(node, ast.BinOp):
        ops = {ast.Add: "+", ast.Sub: "-", ast.Mult: "*", ast.Div: "/"}
        if type(node.op) in ops:
            (l, lp), (r, rp) = tr2(node.left, leaves, where), tr2(node.right, leaves, where)
            o = ops[type(node.op)]
            return f"({l} {o} {r})", f"({lp} {o} {rp})"
        bad("operator")
    if isinstance(node, ast.Call) and isinstance(node.func, ast.Attribute) \
            and isinstance(node.func.value, ast.Name) and node.func.value.id == "np":
        name = node.func.attr
        args = node.args
        if node.keywords:
            bad("keyword arguments")
        sub = [tr2(a, leaves, where) for a in args]
        if name in ("abs", "absolute") and len(args) == 1:
            return f"(abs {sub[0][0]})", f"np.abs({sub[0][1]})"
        if name == "log" and len(args) == 1:
            return f"(log {sub[0][0]})", f"np.log({sub[0][1]})"
        if name == "minimum" and len(args) == 2:
            return f"(minimum {sub[0][0]} {sub[1][0]})", f"np.minimum({sub[0][1]}, {sub[1][1]})"
        if name == "maximum" and len(args) == 2:
            return f"(maximum {sub[0][0]} {sub[1][0]})", f"np.maximum({sub[0][1]}, {sub[1][1]})"
        bad(f"call np.{name}")
    if isinstance(node, ast.Compare) and len(node.ops) == 1 and isinstance(node.ops[0], ast.Gt):
        c = node.comparators[0]
        if isinstance(c, ast.Constant) and c.value == 0:
            x, xp = tr2(node.left, leaves, where)
            return f"(if gt0 {x} then 1 else 0)", f"({xp} > 0)"
        bad("comparison")
    bad(type(node).__name__)


def tr(node, leaves, where):
    """-> Lean expression text.  `leaves` maps ast.unparse(subexpression) to a Lean name."""
    return tr2(node, leaves, where)[0]


def num(node, where):
    """Numeric literal expression (ints, floats, + - * /) -> Fraction of the DECIMAL text."""
    if isinstance(node, ast.Constant) and isinstance(node.value, (int, float)) and not isinstance(node.value, bool):
        return Fraction(repr(node.value)) if isinstance(node.value, float) else Fraction(node.value)
    if isinstance(node, ast.BinOp) and isinstance(node.op, ast.Div):
        return num(node.left, where) / num(node.right, where)
    if isinstance(node, ast.UnaryOp) and isinstance(node.op, ast.USub):
        return -num(node.operand, where)
    raise Lost(f"{where}: not a numeric literal: {plain(node)[:40]}")


def rat(q: Fraction) -> str:
    return f"({q.numerator} : Rat) / {q.denominator}" if q.denominator != 1 else f"({q.numerator} : Rat)"


# ----------------------------------------------------------------------------
# reading context
# ----------------------------------------------------------------------------
def one(items, where):
    items = list(items)
    if len(items) != 1:
        raise Lost(f"{where}: expected exactly one, found {len(items)}")
    return items[0]


def is_np_call(node, name, nargs=None):
    return (isinstance(node, ast.Call) and isinstance(node.func, ast.Attribute)
            and isinstance(node.func.value, ast.Name) and node.func.value.id == "np"
            and node.func.attr == name and (nargs is None or len(node.args) == nargs))


def is_num(node):
    try:
        num(node, "")
        return True
    except Lost:
        return False


class Ctx:
    """The functions of cp_apr.py, executed symbolically on demand."""

    def __init__(self, src):
        self.F = Flow(src, roots=ROOTS)
        self._r = {}
        self.exprs = {}       # generated definition -> {"python", "params"} (for the cross-check family)

    def py(self, name, python, params):
        self.exprs[name] = {"python": python, "params": list(params)}

    def region(self, fname):
        if fname not in self._r:
            if fname not in self.F.funcs:
                raise Lost(f"function {fname} not found")
            self._r[fname] = self.F.run(fname)
        return self._r[fname]

    def params(self, fname):
        a = self.F.funcs[fname].args
        return [p.arg for p in a.posonlyargs + a.args]


def _root_base(node):
    r = flow.root_name(node)
    return flow.base(r.id) if r is not None else None


def _receiver_base(node):
    """`X.f(...).a[i]` -> base name of X (through method calls as well)"""
    while True:
        if isinstance(node, (ast.Attribute, ast.Subscript)):
            node = node.value
        elif isinstance(node, ast.Call) and isinstance(node.func, ast.Attribute):
            node = node.func.value
        else:
            break
    return flow.base(node.id) if isinstance(node, ast.Name) else None


def _sub_n(node, attr="factor_matrices"):
    """`<X>.factor_matrices[<n>]` -> (X, n) else None"""
    if (isinstance(node, ast.Subscript) and isinstance(node.value, ast.Attribute) and node.value.attr == attr):
        return node.value.value, node.slice
    return None


# ----------------------------------------------------------------------------
# the anchors
# ----------------------------------------------------------------------------
def a_loglik_normalize(C):
    R = C.region("tt_loglikelihood")
    model = C.params("tt_loglikelihood")[1]
    calls = [e.value for e in R.entries("call") if isinstance(e.value.func, ast.Attribute)
             and e.value.func.attr == "normalize" and _root_base(e.value.func.value) == model and not e.rel_pc()]
    c = one(calls, "loglik.normalize")
    kw = {k.arg: k.value for k in c.keywords}
    if c.args or set(kw) != {"weight_factor", "normtype"}:
        raise Lost("loglik.normalize: arguments changed")
    wf, nt = num(kw["weight_factor"], "loglik.normalize"), num(kw["normtype"], "loglik.normalize")
    if wf.denominator != 1 or nt.denominator != 1:
        raise Lost("loglik.normalize: non-integer arguments")
    return [f"/-- `Model.normalize(weight_factor={wf}, normtype={nt})` at the top of `tt_loglikelihood`. -/",
            f"def llWeightFactor : Nat := {wf}", f"def llNormType : Nat := {nt}"]


def _loglik_returns(C):
    """-> (value returned for sparse data, value returned otherwise)"""
    R = C.region("tt_loglikelihood")
    data = C.params("tt_loglikelihood")[0]
    want = f"isinstance({data}, ttb.sptensor)"
    sp, other = [], []
    for pc, v in R.returns:
        ts = [plain(c) for c in pc]
        if want in ts:
            sp.append(v)
        elif f"not {want}" in ts:
            other.append(v)
    return sp, other


def _is_factor0_sum(node, model):
    return (is_np_call(node, "sum", 1) and not node.keywords
            and plain(node.args[0]) == f"{model}.factor_matrices[0]")


def a_loglik_sparse(C):
    data, model = C.params("tt_loglikelihood")[:2]
    sp, _ = _loglik_returns(C)
    r = one(sp, "loglik.sparse")
    if not (isinstance(r, ast.Call) and plain(r.func) == "float" and len(r.args) == 1 and isinstance(r.args[0], ast.BinOp)):
        raise Lost("loglik.sparse: the value is not `float(<a> - <b>)`")
    e = r.args[0]
    if not isinstance(e.op, ast.Sub) or not is_np_call(e.left, "sum", 1) or e.left.keywords:
        raise Lost("loglik.sparse: not `np.sum(..) - np.sum(..)`")
    if not _is_factor0_sum(e.right, model):
        raise Lost("loglik.sparse: second term is not the sum of factor 0")

    def pred(n):
        if plain(n) == f"{data}.vals":
            return "x"
        if is_np_call(n, "sum", 1) and [k.arg for k in n.keywords] == ["axis"] and is_num(n.keywords[0].value) \
                and num(n.keywords[0].value, "") == 1:
            return "m"
        return None
    body = fold_where(e.left.args[0], pred)
    term, py = tr2(body, {"x": "x", "m": "m"}, "loglik.sparse")
    C.py("llTermSparse", py, ["x", "m"])
    C.py("llCombine", "(terms - sumFactor0)", ["terms", "sumFactor0"])
    shown = text(fold_where(e.left, lambda n: "np.sum(A, axis=1)" if pred(n) == "m" else (f"{data}.vals" if pred(n) == "x" else None)))
    return ["/-- sparse path, one stored entry: the summand of "
            f"`{shown}` (`x` the stored value, `m = np.sum(A, axis=1)` the model there). -/",
            f"def llTermSparse [Mul α] (log : α → α) (x m : α) : α := {term}",
            "/-- `float(<sum of the terms> - np.sum(Model.factor_matrices[0]))` -/",
            "def llCombine [Sub α] (terms sumFactor0 : α) : α := terms - sumFactor0"]


def a_loglik_dense(C):
    C.region("tt_loglikelihood")
    F = C.F
    data, model = C.params("tt_loglikelihood")[:2]
    _, other = _loglik_returns(C)
    r = one(other, "loglik.dense")
    ok = (isinstance(r, ast.Call) and plain(r.func) == "float" and len(r.args) == 1 and isinstance(r.args[0], ast.BinOp)
          and isinstance(r.args[0].op, ast.Sub) and _is_factor0_sum(r.args[0].right, model))
    if not ok:
        raise Lost("loglik.dense: the value is not `float(<f> - np.sum(Model.factor_matrices[0]))`")
    acc = r.args[0].left
    s = F.sym(acc.id) if isinstance(acc, ast.Name) else None
    if not s or s["kind"] != "out":
        raise Lost("loglik.dense: the sum is not accumulated in a loop")
    outer = F.regions[s["region"]]
    var = s["var"]
    init = outer.pre_env.get(var)
    if init is None or not is_num(init) or num(init, "") != 0:
        raise Lost("loglik.dense: f does not start at 0")
    adds = [e for e in outer.entries("aug", deep=True) if e.name == var]
    every = [e for e in outer.entries(("aug", "assign"), deep=True) if e.name == var]
    a = one(adds, "loglik.dense")
    if len(every) != 1 or not isinstance(a.op, ast.Add):
        raise Lost("loglik.dense: f is changed by something else than one `f += ...`")
    pc = a.pc[outer.pc0:]
    pc = [c for c in pc]
    if len(pc) != 1:
        raise Lost("loglik.dense: branch structure changed")
    c = simplify(pc[0])
    x = None
    if isinstance(c, ast.UnaryOp) and isinstance(c.op, ast.Not) and isinstance(c.operand, ast.Compare) \
            and len(c.operand.ops) == 1 and isinstance(c.operand.ops[0], ast.Eq) and is_num(c.operand.comparators[0]) \
            and num(c.operand.comparators[0], "") == 0:
        x = c.operand.left
    elif isinstance(c, ast.Compare) and len(c.ops) == 1 and isinstance(c.ops[0], ast.NotEq) \
            and is_num(c.comparators[0]) and num(c.comparators[0], "") == 0:
        x = c.left
    if x is None or not isinstance(x, ast.Subscript) or _receiver_base(x) != data:
        raise Lost("loglik.dense: the term is not skipped exactly where the data entry is 0")
    sl = text(x.slice)

    def pred(n):
        if text(n) == text(x):
            return "x"
        if isinstance(n, ast.Subscript) and text(n.slice) == sl and _receiver_base(n) == model \
                and plain(n.value) == plain(x.value).replace(data, model):
            return "m"
        return None
    term, py = tr2(fold_where(a.value, pred), {"x": "x", "m": "m"}, "loglik.dense")
    C.py("llTermDense", f"(0.0 if x == 0 else {py})", ["x", "m"])
    shown = text(fold_where(a.value, lambda n: {"x": "dX[i, j]", "m": "dM[i, j]"}.get(pred(n))))
    return ["/-- dense path, one cell: `if dX[i, j] == 0: pass` / `else: f += "
            f"{shown}`, then `f -= np.sum(Model.factor_matrices[0])` "
            "(combined by `llCombine`). -/",
            f"def llTermDense [Mul α] [Zero α] (log : α → α) (isZero : α → Bool) (x m : α) : α :=\n"
            f"  if isZero x then 0 else {term}"]


def _kkt_chain(C, fname):
    """The entries `<kkt per mode>[n] = <value>` whose array reaches `kktViolations` of the returned dictionary.
    -> (main loop region, [effect entries])"""
    R = C.region(fname)
    ds = {text(d): d for d in flow.find_dict_with(R, ["kktViolations"])}
    d = one(ds.values(), f"kkt[{fname}]: returned dictionary with \"kktViolations\"")
    kv = _root_base(flow.dict_get(d, "kktViolations"))
    main = [L for L in R.loops() if plain(L.iter) == "range(maxiters)" and len(L.targets) == 1]
    L = one(main, f"kkt[{fname}]: main loop")
    it_sym = f"{L.targets[0]}{flow.SEP}in{L.id}"
    tops = [e for e in L.entries("effect") if e.name == kv]
    t = one(tops, f"kkt[{fname}]: assignment to {kv}[iteration]")
    if not (isinstance(t.target.slice, ast.Name) and t.target.slice.id == it_sym and is_np_call(t.value, "max", 1)
            and isinstance(t.value.args[0], ast.Name) and not t.rel_pc()):
        raise Lost(f"kkt[{fname}]: the violation of a pass is not `np.max(<violations per mode>)`")
    kmv = flow.base(t.value.args[0].id)
    effs = [e for e in L.entries(("effect", "augeffect"), deep=True) if e.name == kmv]
    if not effs or any(e.kind != "effect" for e in effs):
        raise Lost(f"kkt[{fname}]: the violations per mode are not assigned")
    return L, effs


def _mu_update(C):
    R = C.region("tt_cp_apr_mu")
    ups = [e for e in R.entries("augeffect", deep=True) if isinstance(e.op, ast.Mult)
           and _sub_n(e.target) is not None]
    return one(ups, "mu.update")


def a_mu_kkt(C):
    _, effs = _kkt_chain(C, "tt_cp_apr_mu")
    st = one(effs, "mu.kkt")
    value = C.F.unwrap(st.value)
    if not is_np_call(value, "max", 1) or value.keywords:
        raise Lost("mu.kkt: not np.max(..)")
    up = _mu_update(C)
    leaves = {text(up.target_full): "a", text(up.value): "phi"}
    e, py = tr2(value.args[0], leaves, "mu.kkt")
    C.py("kktEntry", py, ["a", "phi"])
    shown = plain(fold(value, {text(up.target_full): "M.factor_matrices[n]", text(up.value): "Phi[n]"}))
    return [f"/-- entry of the array under `np.max` in `kktModeViolations[n] = {shown[:100]}` -/",
            "def kktEntry [Sub α] [One α] (abs : α → α) (minimum : α → α → α) (a phi : α) : α := " + e]


def a_mu_update(C):
    up = _mu_update(C)
    e, py = tr2(up.value, {text(up.value): "phi"}, "mu.update")
    C.py("muUpdate", f"(a * {py})", ["a", "phi"])
    return ["/-- `M.factor_matrices[n] *= Phi[n]`, one entry -/",
            "def muUpdate [Mul α] (a phi : α) : α := a * " + e]


def _is_ones(n):
    return is_np_call(n, "ones")


def _grad_shape(v, F):
    """v (after dropping re-shapings) is `<ones> - <phi>` on every branch -> list of such BinOps, else None"""
    out = []
    for _, leaf in ifexp_leaves(v):
        leaf = _strip(F.unwrap(leaf))
        if not (isinstance(leaf, ast.BinOp) and isinstance(leaf.op, ast.Sub) and _is_ones(_strip(leaf.left))):
            return None
        out.append(leaf)
    return out


def _row_parts(C, fname):
    """-> (entries of the kkt value translated, [gradient BinOps])"""
    F = C.F
    L, effs = _kkt_chain(C, fname)
    st = one(effs, f"row.kkt[{fname}]")
    value = F.unwrap(st.value)
    if not is_np_call(value, "max", 1) or value.keywords:
        raise Lost(f"row.kkt[{fname}]: not np.max(..)")
    inner = st.region
    if inner.kind != "loop":
        raise Lost(f"row.kkt[{fname}]: not inside the inner iteration")
    # the row variable: written back to <M>.factor_matrices[n][jj, :] after the inner loop
    back = [e for e in inner.parent.entries("effect") if isinstance(e.value, ast.Name) and F.sym(e.value.id)
            and F.sym(e.value.id)["kind"] == "out" and F.sym(e.value.id)["region"] == inner.id
            and isinstance(e.target, ast.Subscript) and _sub_n(e.target.value) is not None]
    row = F.sym(one(back, f"row.kkt[{fname}]: write-back of the row").value.id)["var"]
    env = st.env
    if row not in env:
        raise Lost(f"row.kkt[{fname}]: the row variable has no value at the test")
    leaves = {text(env[row]): "m"}
    grads = []
    for k, v in env.items():
        if k == row:
            continue
        g = _grad_shape(v, F)
        if g:
            leaves[text(v)] = "g"
            # the same value with the re-shapings dropped
            leaves[text(_strip(copy.deepcopy(v)))] = "g"
            grads += g
    e, py = tr2(value.args[0], leaves, f"row.kkt[{fname}]")
    if "g" not in e or "m" not in e:
        raise Lost(f"row.kkt[{fname}]: the test does not combine the row and its gradient")
    C.py("rowKktEntry", py, ["m", "g"])
    return e, grads


def a_row_kkt(C):
    out = None
    for name in ("tt_cp_apr_pdnr", "tt_cp_apr_pqnr"):
        e, _ = _row_parts(C, name)
        if out is not None and e != out:
            raise Lost("row.kkt: pdnr and pqnr differ")
        out = e
    return ["/-- entry of the array under `np.max` in `kkt_violation = np.max(np.abs(np.minimum(m_row, grad)))` "
            "(pdnr and pqnr) -/",
            "def rowKktEntry (abs : α → α) (minimum : α → α → α) (m g : α) : α := " + out]


def a_row_grad(C):
    seen = set()
    for name in ("tt_cp_apr_pdnr", "tt_cp_apr_pqnr"):
        _, grads = _row_parts(C, name)
        if not grads:
            raise Lost(f"row.grad[{name}]: no gradient of the shape `<ones> - <phi>`")
        for g in grads:
            leaves = {text(_strip(g.left)): "1", text(_strip(g.right)): "phi"}
            lean, py = tr2(g, leaves, f"row.grad[{name}]")
            seen.add(lean)
            C.py("rowGrad", py, ["phi"])
    if len(seen) != 1:
        raise Lost("row.grad: pdnr and pqnr differ")
    return ["/-- gradient entry of the row sub-problem: `(e_vec - phi_row)` (pdnr), "
            "`np.ones(phi_row.shape) - phi_row` (calc_grad) -/",
            "def rowGrad [Sub α] [One α] (phi : α) : α := " + seen.pop()]


def _linesearch(C):
    """-> dict of the parts of tt_linesearch_prowsubprob; a part that could not be read is stored as the `Lost` under
    its name(s), so that one lost anchor does not take the others with it"""
    F = C.F
    R = C.region("tt_linesearch_prowsubprob")
    P = C.params("tt_linesearch_prowsubprob")
    if len(P) != 12:
        raise Lost("ls: the signature of tt_linesearch_prowsubprob changed")
    direction, grad, m_old, step_len, step_red, max_steps, suff, _sp, _dr, _pi, phi_row, _dw = P
    W = one(list(R.loops()), "ls: the step loop")
    out = {}

    def part(names, f):
        try:
            f()
        except Lost as e:
            for n in names:
                out.setdefault(n, e)

    st = {}

    def points():
        projs = [e for e in R.entries("aug", deep=True) if isinstance(e.op, ast.Mult) and isinstance(e.value, ast.Compare)]
        for e in projs:
            v = e.value
            if not (len(v.ops) == 1 and isinstance(v.ops[0], ast.Gt)
                    and is_num(v.comparators[0]) and num(v.comparators[0], "") == 0 and text(v.left) == text(e.old)):
                raise Lost("ls.project: a product with a comparison that is not the projection `v *= v > 0`")
        inside = [e for e in projs if e.region is W]
        after = [e for e in projs if e.region is R]
        if len(projs) != 2 or len(inside) != 1 or len(after) != 1:
            raise Lost(f"ls.project: expected the projection twice (trial point, fall-back), found {len(projs)}")
        trial, fb = inside[0], after[0]
        # the step: the loop-carried value that starts at step_len
        steps = [n.id for n in ast.walk(trial.old) if isinstance(n, ast.Name) and F.sym(n.id)
                 and F.sym(n.id)["kind"] == "in" and F.sym(n.id)["region"] == W.id]
        steps = [sid for sid in set(steps) if plain(W.pre_env.get(F.sym(sid)["var"], ast.Name(id="?"))) == step_len]
        step = one(steps, "ls.trial: the step length")
        t_trial, p_trial = tr2(trial.old, {m_old: "mOld", step: "step", direction: "d"}, "ls.trial")
        t_fb, p_fb = tr2(fb.old, {m_old: "mOld", phi_row: "phi"}, "ls.fallback")
        es = {tr2(e.value, {text(e.old): "m"}, "ls.project") for e in projs}
        t_pr, p_pr = one(es, "ls.project: the two projections")
        C.py("lsTrial", p_trial, ["mOld", "step", "d"])
        C.py("lsFallback", p_fb, ["mOld", "phi"])
        C.py("project", f"(m * {p_pr})", ["m"])
        # the result: (model_new, f_old, f_1, f_new, num_evals)
        res = R.result
        if not (isinstance(res, ast.Tuple) and len(res.elts) == 5):
            raise Lost("ls: the function does not return five values")
        st["new_trial"], new_fb = text(trial.new), text(fb.new)
        ok = False
        r0 = simplify(res.elts[0])
        if isinstance(r0, ast.IfExp):
            a, b2 = r0.body, r0.orelse
            s = F.sym(b2.id) if isinstance(b2, ast.Name) else None
            ok = text(a) == new_fb and bool(s) and s["kind"] == "out" and s["region"] == W.id \
                and text(W.end(s["var"]) or b2) == st["new_trial"]
            st["fb_test"] = r0.test
        if not ok:
            raise Lost("ls.project: the returned point is not the projected trial point / the projected fall-back")
        st["f_old"] = res.elts[1]
        out.update(trial=t_trial, fallback=t_fb, project=t_pr,
                   src={"trial": text(fold(trial.old, {m_old: "model_old", step: "stepSize", direction: "direction"})),
                        "fallback": text(fold(fb.old, {m_old: "model_old", phi_row: "phi_row"})),
                        "project": "model_new *= model_new > 0"})

    def armijo():
        if "f_old" not in st:
            raise Lost("ls.armijo: the trial point was not read")
        brk = one(W.breaks, "ls.armijo: break")
        parts = []
        for c in brk[0]:
            c = simplify(c)
            parts += c.values if isinstance(c, ast.BoolOp) and isinstance(c.op, ast.And) else [c]
        parts = [simplify(c, assume=[d for d in parts if d is not c]) for c in parts]
        les = [c for c in parts if isinstance(c, ast.Compare) and len(c.ops) == 1 and isinstance(c.ops[0], ast.LtE)]
        rest = [c for c in parts if c not in les]
        arm = one(les, "ls.armijo")
        if len(rest) != 1 or not (isinstance(rest[0], ast.UnaryOp) and isinstance(rest[0].op, ast.Not)):
            raise Lost("ls.armijo: the test is not guarded by `not <direction rejected>` alone")
        rej = rest[0].operand
        # the rejected branch sets f_new = inf
        infs = [e for e in W.entries("assign") if plain(e.value) == "np.inf" and len(e.rel_pc()) == 1
                and text(simplify(e.rel_pc()[0])) == text(rej)]
        if not infs:
            raise Lost("ls.armijo: the guard is not the test under which the objective is set to inf")
        if not (isinstance(rej, ast.BoolOp) and isinstance(rej.op, ast.Or) and len(rej.values) == 2):
            raise Lost("ls.armijo: the rejection test is not `<gDotd> > 0 or np.sum(<point>) < <tol>`")
        gpos, small = rej.values
        ok = (isinstance(gpos, ast.Compare) and len(gpos.ops) == 1 and isinstance(gpos.ops[0], ast.Gt)
              and is_num(gpos.comparators[0]) and num(gpos.comparators[0], "") == 0
              and isinstance(small, ast.Compare) and len(small.ops) == 1 and isinstance(small.ops[0], ast.Lt)
              and is_np_call(small.left, "sum", 1) and text(small.left.args[0]) == st["new_trial"])
        if not ok:
            raise Lost("ls.armijo: the rejection test is not `<gDotd> > 0 or np.sum(<point>) < <tol>`")
        gd = gpos.left
        tol = num(small.comparators[0], "const.minDescentTol")
        out["armijo"], p_arm = tr2(arm.comparators[0], {text(st["f_old"]): "fOld", suff: "c", text(gd): "gd"}, "ls.armijo")
        C.py("armijoBound", p_arm, ["fOld", "c", "gd"])
        out["minDescentTol"] = tol

    def small_step():
        # the fall-back test: (count >= max_steps and f_new > f_old) or np.sum(model_new) < smallStepTol
        ft = st.get("fb_test")
        sm = None
        if isinstance(ft, ast.BoolOp) and isinstance(ft.op, ast.Or) and len(ft.values) == 2:
            c = ft.values[1]
            if isinstance(c, ast.Compare) and len(c.ops) == 1 and isinstance(c.ops[0], ast.Lt) and is_np_call(c.left, "sum", 1):
                sm = c.comparators[0]
        if sm is None:
            raise Lost("const.smallStepTol: the fall-back test is not `(...) or np.sum(<point>) < <tol>`")
        out["smallStepTol"] = num(sm, "const.smallStepTol")

    part(["trial", "fallback", "project"], points)
    part(["armijo", "minDescentTol"], armijo)
    part(["smallStepTol"], small_step)
    return out


_LS = {}


def _ls(C, key):
    if id(C) not in _LS:
        _LS.clear()
        try:
            _LS[id(C)] = _linesearch(C)
        except Lost as e:
            _LS[id(C)] = e
    r = _LS[id(C)]
    if isinstance(r, Exception):
        raise r
    v = r.get(key)
    if v is None:
        raise Lost(f"ls.{key}: not read")
    if isinstance(v, Exception):
        raise v
    return v


def a_ls_points(C):
    src = _ls(C, "src")
    return [f"/-- `model_new = {src['trial']}`, one entry -/",
            "def lsTrial [Add α] [Mul α] (mOld step d : α) : α := " + _ls(C, "trial"),
            f"/-- `{src['project']}`, one entry (the comparison yields 1.0 / 0.0) -/",
            "def project [Mul α] [Zero α] [One α] (gt0 : α → Bool) (m : α) : α := m * " + _ls(C, "project"),
            f"/-- `model_new = {src['fallback']}`, one entry -/",
            "def lsFallback [Mul α] (mOld phi : α) : α := " + _ls(C, "fallback")]


def a_ls_armijo(C):
    return ["/-- right-hand side of the sufficient-decrease test `f_new <= (f_old + suff_decr * gDotd)` -/",
            "def armijoBound [Add α] [Mul α] (fOld c gd : α) : α := " + _ls(C, "armijo")]


def _calls_of(region, fname, F=None):
    """The distinct calls of `fname` logged in `region` (distinct as expanded expressions), also inside the
    expressions that were too large to be carried along (`x@v<k>`)."""
    out = {}

    def walk(v, seen):
        for n in ast.walk(v):
            yield n
            if F is not None and isinstance(n, ast.Name) and n.id not in seen:
                s = F.sym(n.id)
                if s and s["kind"] == "v" and s.get("value") is not None:
                    seen.add(n.id)
                    yield from walk(s["value"], seen)

    for e in region.entries(None, deep=True):
        if e.value is None:
            continue
        for n in walk(e.value, set()):
            if isinstance(n, ast.Call) and isinstance(n.func, ast.Name) and n.func.id == fname:
                out.setdefault(text(n), n)
    return list(out.values())


def a_const_min_descent(C):
    return [f"def minDescentTol : Rat := {rat(_ls(C, 'minDescentTol'))}"]


def a_const_small_step(C):
    return [f"def smallStepTol : Rat := {rat(_ls(C, 'smallStepTol'))}"]


def a_const_ls_args(C):
    """the line-search arguments at the call sites"""
    F = C.F
    sites = []
    for name in ("tt_cp_apr_pdnr", "tt_cp_apr_pqnr"):
        for node in _calls_of(C.region(name), "tt_linesearch_prowsubprob", F):
            if len(node.args) != 12 or node.keywords:
                raise Lost("const.linesearch: call signature changed")
            sites.append(tuple(num(a, "const.linesearch") for a in node.args[3:7]))
    if len(sites) != 3 or len(set(sites)) != 1:
        raise Lost(f"const.linesearch: expected three identical call sites, found {len(sites)}")
    step_len, step_red, max_steps, suff = sites[0]
    if max_steps.denominator != 1:
        raise Lost("const.linesearch: max_steps")
    return [f"def lsStepLen : Rat := {rat(step_len)}", f"def lsStepRed : Rat := {rat(step_red)}",
            f"def lsMaxSteps : Nat := {max_steps}", f"def lsSuffDecr : Rat := {rat(suff)}"]


def a_const_zero_fill(C):
    """zero-row fill: <M>.factor_matrices[n][<rows whose sum is 0>, 0] = <number>"""
    fills = set()
    for name in ("tt_cp_apr_pdnr", "tt_cp_apr_pqnr"):
        R = C.region(name)
        hits = []
        for e in R.entries("effect", deep=True):
            t = e.target_full
            if not (isinstance(t, ast.Subscript) and isinstance(t.slice, ast.Tuple) and len(t.slice.elts) == 2
                    and is_num(t.slice.elts[1]) and num(t.slice.elts[1], "") == 0 and _sub_n(t.value) is not None
                    and is_num(e.value)):
                continue
            fm = plain(t.value)
            idx = plain(t.slice.elts[0])
            if idx != f"np.where(np.sum({fm}, axis=1) == 0)[0]":
                continue
            pc = [plain(simplify(c)) for c in e.rel_pc()]
            if pc != [f"{idx}.size != 0"]:
                continue
            hits.append(e)
        st = one(hits, f"const.zeroRowFill[{name}]")
        fills.add(num(st.value, "const.zeroRowFill"))
    if len(fills) != 1:
        raise Lost("const.zeroRowFill: pdnr and pqnr differ")
    return [f"def zeroRowFill : Rat := {rat(fills.pop())}"]


def _pdnr_main(C):
    R = C.region("tt_cp_apr_pdnr")
    return one([x for x in R.loops() if plain(x.iter) == "range(maxiters)" and len(x.targets) == 1],
               "const.inexact: main loop of tt_cp_apr_pdnr")


def a_const_inexact_inner(C):
    """inexact inner limit: the bound of the inner iteration that contains the line search"""
    F = C.F
    main = _pdnr_main(C)
    it_sym = f"{main.targets[0]}{flow.SEP}in{main.id}"
    inner = [x for x in main.loops(deep=True) if _calls_of(x, "tt_linesearch_prowsubprob", F)
             and not any(_calls_of(y, "tt_linesearch_prowsubprob", F) for y in x.loops(deep=True))]
    I = one(inner, "const.inexactInner: inner iteration")
    it = I.iter
    ok = (isinstance(it, ast.Call) and plain(it.func) == "range" and len(it.args) == 1 and isinstance(it.args[0], ast.IfExp))
    if not ok:
        raise Lost("const.inexactInner: the inner limit is not chosen by a test")
    ch = it.args[0]
    t = ch.test
    ok = (isinstance(t, ast.BoolOp) and isinstance(t.op, ast.And) and len(t.values) == 2 and plain(t.values[0]) == "inexact"
          and isinstance(t.values[1], ast.Compare) and len(t.values[1].ops) == 1 and isinstance(t.values[1].ops[0], ast.Eq)
          and text(t.values[1].left) == it_sym and plain(ch.orelse) == "maxinneriters")
    if not ok:
        raise Lost("const.inexactIteration: the test is not `inexact and iteration == <int>`")
    lim, which = num(ch.body, "const.inexactInner"), num(t.values[1].comparators[0], "const.inexactIteration")
    if lim.denominator != 1 or which.denominator != 1:
        raise Lost("const.inexactInner: not an integer")
    return [f"def inexactInner : Nat := {lim}", f"def inexactIteration : Nat := {which}"]


def a_const_inexact_div(C):
    """divisor of the inexact tolerance: <tol> = np.maximum(stoptol, <kkt of the pass>) / <number> under `if inexact`"""
    main = _pdnr_main(C)
    _kkt_chain(C, "tt_cp_apr_pdnr")   # the violation of the pass must have been stored by then
    divs = []
    for e in main.entries("assign"):
        v = e.value
        if isinstance(v, ast.BinOp) and isinstance(v.op, ast.Div) and is_np_call(v.left, "maximum", 2) and is_num(v.right):
            divs.append(e)
    st = one(divs, "const.inexactDiv")
    v = st.value
    kv = plain(v.left.args[1])
    if not (plain(v.left.args[0]) == "stoptol" and kv == f"kktViolations[{main.targets[0]}]"
            and [plain(c) for c in st.rel_pc()] == ["inexact"]):
        raise Lost("const.inexactDiv: formula changed")
    return [f"def inexactDiv : Rat := {rat(num(v.right, 'const.inexactDiv'))}"]


def a_const_header(C):
    return ["/-! constants read from the source (decimal value of the literal) -/"]


#: (anchor, followed by an empty line in the generated file)
ANCHORS = [(a_loglik_normalize, True), (a_loglik_sparse, True), (a_loglik_dense, True), (a_mu_kkt, True),
           (a_mu_update, True), (a_row_kkt, True), (a_row_grad, True), (a_ls_points, False), (a_ls_armijo, True), (a_const_header, False),
           (a_const_min_descent, False), (a_const_small_step, False), (a_const_ls_args, False), (a_const_zero_fill, False),
           (a_const_inexact_inner, False), (a_const_inexact_div, False)]

HEADER = """/-
GENERATED by harness/translate/gen_cpapr.py from pyttb/cp_apr.py — do not edit.
Scalar formulas of CP-APR with the number-system services as explicit parameters
(`log`, `abs`, `minimum`, `isZero`, `gt0`), and the numeric literals of the source.
Import-free.
-/
namespace Pyttb.CpApr.Gen
variable {α : Type}
"""


def build():
    """-> (lean text | None, lost anchors, description)"""
    lost = []
    try:
        src = (Path(REPO) / "pyttb" / "cp_apr.py").read_text()
        C = Ctx(src)
    except Exception as e:  # noqa: BLE001
        return None, [f"cp_apr.py unreadable: {e}"], {}
    body = []
    for a, gap in ANCHORS:
        try:
            body += a(C) + ([""] if gap else [])
        except Lost as e:
            lost.append(str(e))
        except KeyError as e:
            lost.append(f"{a.__name__[2:]}: function {e} not found")
        except Exception as e:  # noqa: BLE001
            lost.append(f"{a.__name__[2:]}: {type(e).__name__}: {e}")
    lost = list(dict.fromkeys(lost))
    text_ = HEADER + "\n" + "\n".join(body) + "\nend Pyttb.CpApr.Gen\n"
    # an expression is offered for cross-checking only if its definition was emitted
    emitted = "\n".join(body)
    exprs = {k: v for k, v in C.exprs.items() if f"def {k} " in emitted}
    return text_, lost, {"anchors": len(ANCHORS), "inlined_helpers": list(C.F.inlined), "expressions": exprs}


def formulas():
    """Python expressions (over the parameter names, re-shapings dropped) behind the generated definitions, for the
    cross-check family: {definition: {"python", "params"}}, lost anchors."""
    _, lost, desc = build()
    return desc.get("expressions", {}), lost


def run(prop, info):
    text_, lost, desc = build()
    if text_ is None:
        # the source could not be read at all: the pinned definitions (never a stale file of another tree)
        pin = Path(__file__).parent / "pinned" / OUT.name
        text_ = pin.read_text() if pin.exists() else None
    if text_ is not None:
        OUT.parent.mkdir(parents=True, exist_ok=True)
        if not OUT.exists() or OUT.read_text() != text_:
            OUT.write_text(text_)
    info.setdefault("translators", {})["gen_cpapr"] = {"lost": list(lost), **desc}
    return lost


if __name__ == "__main__":
    t_, l_, _ = build()
    print(t_)
    print("lost:", l_)
