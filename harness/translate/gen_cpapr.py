"""Translator: pyttb/cp_apr.py -> lean/PyttbModel/Generated/CpAprFormulas.lean.

The source is parsed with `ast` on every run.  Each *anchor* is one statement of the
source found by its place (function, target) and translated with a small expression
translator; nothing is guessed: a statement that is missing, duplicated, or uses a
construct outside the accepted subset is reported as "anchor lost: <name>" and the
definition is not emitted (so the model, which uses it, no longer builds).

Anchors
  loglik.normalize   tt_loglikelihood:  Model.normalize(weight_factor=0, normtype=1)
  loglik.sparse      tt_loglikelihood:  return float(np.sum(vals * np.log(np.sum(A, axis=1))[:, None]) - np.sum(F0))
  loglik.dense       tt_loglikelihood:  if dX[i, j] == 0: pass / else: f += dX[i, j] * np.log(dM[i, j]);  f -= np.sum(F0)
  mu.kkt             tt_cp_apr_mu:      kktModeViolations[n] = np.max(np.abs(vectorize_for_mu(np.minimum(A, 1 - Phi[n]))))
  mu.update          tt_cp_apr_mu:      M.factor_matrices[n] *= Phi[n]
  row.kkt            tt_cp_apr_pdnr / tt_cp_apr_pqnr: kkt_violation = np.max(np.abs(np.minimum(m_row, grad)))
  row.grad           pdnr: gradM = (e_vec - phi_row).transpose(); pqnr (calc_grad): grad_row = (ones - phi_row).transpose()
  ls.trial           tt_linesearch_prowsubprob: model_new = model_old + stepSize * direction
  ls.project         tt_linesearch_prowsubprob: model_new *= model_new > 0   (exactly twice)
  ls.fallback        tt_linesearch_prowsubprob: model_new = model_old * phi_row
  ls.armijo          tt_linesearch_prowsubprob: if f_new <= (f_old + suff_decr * gDotd): break
  const.*            minDescentTol, smallStepTol, the line-search arguments at the three call
                     sites (1, 1/2, 10, 1.0e-4), the zero-row fill 1e-8, the inexact inner limit 2
                     and the divisor 100.0
"""
from __future__ import annotations

import ast
from fractions import Fraction
from pathlib import Path

from harness.lib import LEAN, REPO

PROPS = ["C11"]
OUT = LEAN / "PyttbModel" / "Generated" / "CpAprFormulas.lean"


class Lost(Exception):
    pass


# ----------------------------------------------------------------------------
# expression translator (entry-wise reading of the NumPy expression)
# ----------------------------------------------------------------------------
def _strip(node):
    """Drop pure re-shapings: x[:, None], x.transpose(), x.transpose()[0], vectorize_for_mu(x)."""
    while True:
        if isinstance(node, ast.Subscript):
            sl = node.slice
            elts = sl.elts if isinstance(sl, ast.Tuple) else [sl]
            if all((isinstance(e, ast.Slice) and e.lower is None and e.upper is None and e.step is None)
                   or (isinstance(e, ast.Constant) and e.value is None) for e in elts) and \
                    any(isinstance(e, ast.Constant) and e.value is None for e in elts):
                node = node.value
                continue
            # x.transpose()[0] of a column is the column as a row
            if (isinstance(sl, ast.Constant) and sl.value == 0 and isinstance(node.value, ast.Call)
                    and isinstance(node.value.func, ast.Attribute) and node.value.func.attr == "transpose"
                    and not node.value.args):
                node = node.value.func.value
                continue
        if isinstance(node, ast.Call) and isinstance(node.func, ast.Attribute) \
                and node.func.attr == "transpose" and not node.args and not node.keywords:
            node = node.func.value
            continue
        if isinstance(node, ast.Call) and isinstance(node.func, ast.Name) \
                and node.func.id == "vectorize_for_mu" and len(node.args) == 1:
            node = node.args[0]
            continue
        return node


def tr(node, leaves, where):
    """-> Lean expression text.  `leaves` maps ast.unparse(subexpression) to a Lean name."""
    node = _strip(node)
    key = ast.unparse(node)
    if key in leaves:
        return leaves[key]

    def bad(what):
        raise Lost(f"{where}: unsupported {what}: {key[:60]}")

    if isinstance(node, ast.Constant) and isinstance(node.value, int) and not isinstance(node.value, bool):
        if node.value in (0, 1):
            return str(node.value)
        bad("integer literal")
    if isinstance(node, ast.BinOp):
        ops = {ast.Add: "+", ast.Sub: "-", ast.Mult: "*", ast.Div: "/"}
        if type(node.op) in ops:
            return f"({tr(node.left, leaves, where)} {ops[type(node.op)]} {tr(node.right, leaves, where)})"
        bad("operator")
    if isinstance(node, ast.Call) and isinstance(node.func, ast.Attribute) \
            and isinstance(node.func.value, ast.Name) and node.func.value.id == "np":
        name = node.func.attr
        args = node.args
        if node.keywords:
            bad("keyword arguments")
        if name in ("abs", "absolute") and len(args) == 1:
            return f"(abs {tr(args[0], leaves, where)})"
        if name == "log" and len(args) == 1:
            return f"(log {tr(args[0], leaves, where)})"
        if name == "minimum" and len(args) == 2:
            return f"(minimum {tr(args[0], leaves, where)} {tr(args[1], leaves, where)})"
        if name == "maximum" and len(args) == 2:
            return f"(maximum {tr(args[0], leaves, where)} {tr(args[1], leaves, where)})"
        bad(f"call np.{name}")
    if isinstance(node, ast.Compare) and len(node.ops) == 1 and isinstance(node.ops[0], ast.Gt):
        c = node.comparators[0]
        if isinstance(c, ast.Constant) and c.value == 0:
            return f"(if gt0 {tr(node.left, leaves, where)} then 1 else 0)"
        bad("comparison")
    bad(type(node).__name__)


def num(node, where):
    """Numeric literal expression (ints, floats, + - * /) -> Fraction of the DECIMAL text."""
    if isinstance(node, ast.Constant) and isinstance(node.value, (int, float)) and not isinstance(node.value, bool):
        return Fraction(repr(node.value)) if isinstance(node.value, float) else Fraction(node.value)
    if isinstance(node, ast.BinOp) and isinstance(node.op, ast.Div):
        return num(node.left, where) / num(node.right, where)
    if isinstance(node, ast.UnaryOp) and isinstance(node.op, ast.USub):
        return -num(node.operand, where)
    raise Lost(f"{where}: not a numeric literal: {ast.unparse(node)[:40]}")


def rat(q: Fraction) -> str:
    return f"({q.numerator} : Rat) / {q.denominator}" if q.denominator != 1 else f"({q.numerator} : Rat)"


# ----------------------------------------------------------------------------
# statement finders
# ----------------------------------------------------------------------------
def walk_stmts(fn):
    for node in ast.walk(fn):
        if isinstance(node, ast.stmt):
            yield node


def one(items, where):
    items = list(items)
    if len(items) != 1:
        raise Lost(f"{where}: expected exactly one such statement, found {len(items)}")
    return items[0]


def assigns_to(fn, target_text):
    return [s for s in walk_stmts(fn) if isinstance(s, ast.Assign) and len(s.targets) == 1
            and ast.unparse(s.targets[0]) == target_text]


def augassigns_to(fn, target_text, op):
    return [s for s in walk_stmts(fn) if isinstance(s, ast.AugAssign)
            and ast.unparse(s.target) == target_text and isinstance(s.op, op)]


def is_np_call(node, name, nargs=None):
    return (isinstance(node, ast.Call) and isinstance(node.func, ast.Attribute)
            and isinstance(node.func.value, ast.Name) and node.func.value.id == "np"
            and node.func.attr == name and (nargs is None or len(node.args) == nargs))


# ----------------------------------------------------------------------------
# the anchors
# ----------------------------------------------------------------------------
def a_loglik_normalize(fns):
    fn = fns["tt_loglikelihood"]
    calls = [s.value for s in walk_stmts(fn) if isinstance(s, ast.Expr) and isinstance(s.value, ast.Call)
             and ast.unparse(s.value.func) == "Model.normalize"]
    c = one(calls, "loglik.normalize")
    kw = {k.arg: k.value for k in c.keywords}
    if c.args or set(kw) != {"weight_factor", "normtype"}:
        raise Lost("loglik.normalize: arguments changed")
    wf, nt = num(kw["weight_factor"], "loglik.normalize"), num(kw["normtype"], "loglik.normalize")
    if wf.denominator != 1 or nt.denominator != 1:
        raise Lost("loglik.normalize: non-integer arguments")
    return [f"/-- `Model.normalize(weight_factor={wf}, normtype={nt})` at the top of `tt_loglikelihood`. -/",
            f"def llWeightFactor : Nat := {wf}", f"def llNormType : Nat := {nt}"]


def a_loglik_sparse(fns):
    fn = fns["tt_loglikelihood"]
    rets = [s for s in walk_stmts(fn) if isinstance(s, ast.Return) and s.value is not None
            and isinstance(s.value, ast.Call) and ast.unparse(s.value.func) == "float"
            and len(s.value.args) == 1 and isinstance(s.value.args[0], ast.BinOp)]
    r = one(rets, "loglik.sparse")
    e = r.value.args[0]
    if not isinstance(e.op, ast.Sub) or not is_np_call(e.left, "sum", 1) or not is_np_call(e.right, "sum", 1):
        raise Lost("loglik.sparse: not `np.sum(..) - np.sum(..)`")
    if ast.unparse(e.right.args[0]) != "Model.factor_matrices[0]":
        raise Lost("loglik.sparse: second term is not the sum of factor 0")
    term = tr(e.left.args[0], {"Data.vals": "x", "np.sum(A, axis=1)": "m"}, "loglik.sparse")
    return ["/-- sparse path, one stored entry: the summand of "
            f"`{ast.unparse(e.left)}` (`x` the stored value, `m = np.sum(A, axis=1)` the model there). -/",
            f"def llTermSparse [Mul α] (log : α → α) (x m : α) : α := {term}",
            "/-- `float(<sum of the terms> - np.sum(Model.factor_matrices[0]))` -/",
            "def llCombine [Sub α] (terms sumFactor0 : α) : α := terms - sumFactor0"]


def a_loglik_dense(fns):
    fn = fns["tt_loglikelihood"]
    ifs = [s for s in walk_stmts(fn) if isinstance(s, ast.If) and isinstance(s.test, ast.Compare)
           and ast.unparse(s.test) == "dX[i, j] == 0"]
    st = one(ifs, "loglik.dense")
    if not (len(st.body) == 1 and isinstance(st.body[0], ast.Pass) and len(st.orelse) == 1
            and isinstance(st.orelse[0], ast.AugAssign) and isinstance(st.orelse[0].op, ast.Add)
            and ast.unparse(st.orelse[0].target) == "f"):
        raise Lost("loglik.dense: branch structure changed")
    term = tr(st.orelse[0].value, {"dX[i, j]": "x", "dM[i, j]": "m"}, "loglik.dense")
    init = one(assigns_to(fn, "f"), "loglik.dense")
    if num(init.value, "loglik.dense") != 0:
        raise Lost("loglik.dense: f does not start at 0")
    sub = one(augassigns_to(fn, "f", ast.Sub), "loglik.dense")
    if ast.unparse(sub.value) != "np.sum(Model.factor_matrices[0])":
        raise Lost("loglik.dense: second term is not the sum of factor 0")
    rets = [s for s in walk_stmts(fn) if isinstance(s, ast.Return) and ast.unparse(s.value) == "float(f)"]
    one(rets, "loglik.dense")
    return ["/-- dense path, one cell: `if dX[i, j] == 0: pass` / `else: f += "
            f"{ast.unparse(st.orelse[0].value)}`, then `f -= np.sum(Model.factor_matrices[0])` "
            "(combined by `llCombine`). -/",
            f"def llTermDense [Mul α] [Zero α] (log : α → α) (isZero : α → Bool) (x m : α) : α :=\n"
            f"  if isZero x then 0 else {term}"]


def a_mu_kkt(fns):
    fn = fns["tt_cp_apr_mu"]
    st = one(assigns_to(fn, "kktModeViolations[n]"), "mu.kkt")
    if not is_np_call(st.value, "max", 1):
        raise Lost("mu.kkt: not np.max(..)")
    v = fns.get("vectorize_for_mu")
    if v is None or not (isinstance(v.body[-1], ast.Return) and ast.unparse(v.body[-1].value) == "matrix.ravel()"):
        raise Lost("mu.kkt: vectorize_for_mu is not matrix.ravel()")
    e = tr(st.value.args[0], {"M.factor_matrices[n]": "a", "Phi[n]": "phi"}, "mu.kkt")
    return [f"/-- entry of the array under `np.max` in `{ast.unparse(st)[:100]}` -/",
            "def kktEntry [Sub α] [One α] (abs : α → α) (minimum : α → α → α) (a phi : α) : α := " + e]


def a_mu_update(fns):
    fn = fns["tt_cp_apr_mu"]
    st = one(augassigns_to(fn, "M.factor_matrices[n]", ast.Mult), "mu.update")
    e = tr(st.value, {"Phi[n]": "phi"}, "mu.update")
    return ["/-- `M.factor_matrices[n] *= Phi[n]`, one entry -/",
            "def muUpdate [Mul α] (a phi : α) : α := a * " + e]


def a_row_kkt(fns):
    out = None
    for name in ("tt_cp_apr_pdnr", "tt_cp_apr_pqnr"):
        st = one(assigns_to(fns[name], "kkt_violation"), f"row.kkt[{name}]")
        if not is_np_call(st.value, "max", 1):
            raise Lost("row.kkt: not np.max(..)")
        e = tr(st.value.args[0], {"m_row": "m", "gradM": "g"}, "row.kkt")
        if out is not None and e != out:
            raise Lost("row.kkt: pdnr and pqnr differ")
        out = e
    return ["/-- entry of the array under `np.max` in `kkt_violation = np.max(np.abs(np.minimum(m_row, grad)))` "
            "(pdnr and pqnr) -/",
            "def rowKktEntry (abs : α → α) (minimum : α → α → α) (m g : α) : α := " + out]


def a_row_grad(fns):
    st = one(assigns_to(fns["tt_cp_apr_pdnr"], "gradM"), "row.grad[pdnr]")
    e1 = tr(st.value, {"e_vec": "1", "phi_row": "phi"}, "row.grad")
    ev = one(assigns_to(fns["tt_cp_apr_pdnr"], "e_vec"), "row.grad[e_vec]")
    if ast.unparse(ev.value) != "np.ones((1, rank))":
        raise Lost("row.grad: e_vec is not a row of ones")
    st2 = one(assigns_to(fns["calc_grad"], "grad_row"), "row.grad[pqnr]")
    e2 = tr(st2.value, {"np.ones(phi_row.shape)": "1", "phi_row": "phi"}, "row.grad")
    if e1 != e2:
        raise Lost("row.grad: pdnr and pqnr differ")
    return ["/-- gradient entry of the row sub-problem: `(e_vec - phi_row)` (pdnr), "
            "`np.ones(phi_row.shape) - phi_row` (calc_grad) -/",
            "def rowGrad [Sub α] [One α] (phi : α) : α := " + e1]


def a_linesearch(fns):
    fn = fns["tt_linesearch_prowsubprob"]
    cands = assigns_to(fn, "model_new")
    trial = one([s for s in cands if isinstance(s.value, ast.BinOp) and isinstance(s.value.op, ast.Add)], "ls.trial")
    fb = one([s for s in cands if isinstance(s.value, ast.BinOp) and isinstance(s.value.op, ast.Mult)], "ls.fallback")
    if len(cands) != 2:
        raise Lost("ls.trial: model_new assigned elsewhere")
    e_trial = tr(trial.value, {"model_old": "mOld", "stepSize": "step", "direction": "d"}, "ls.trial")
    e_fb = tr(fb.value, {"model_old": "mOld", "phi_row": "phi"}, "ls.fallback")
    pr = augassigns_to(fn, "model_new", ast.Mult)
    if len(pr) != 2:
        raise Lost(f"ls.project: expected the projection twice, found {len(pr)}")
    es = {tr(s.value, {"model_new": "m"}, "ls.project") for s in pr}
    if len(es) != 1:
        raise Lost("ls.project: the two projections differ")
    e_pr = es.pop()
    # each assignment is immediately followed by its projection
    for body in [n.body for n in ast.walk(fn) if hasattr(n, "body") and isinstance(getattr(n, "body"), list)]:
        for k, s in enumerate(body):
            if s is trial or s is fb:
                if k + 1 >= len(body) or body[k + 1] not in pr:
                    raise Lost("ls.project: projection does not follow the assignment")
    ifs = [s for s in walk_stmts(fn) if isinstance(s, ast.If) and isinstance(s.test, ast.Compare)
           and len(s.test.ops) == 1 and isinstance(s.test.ops[0], ast.LtE) and ast.unparse(s.test.left) == "f_new"]
    arm = one(ifs, "ls.armijo")
    if not (len(arm.body) == 1 and isinstance(arm.body[0], ast.Break)):
        raise Lost("ls.armijo: does not break")
    e_arm = tr(arm.test.comparators[0], {"f_old": "fOld", "suff_decr": "c", "gDotd": "gd"}, "ls.armijo")
    return ["/-- `model_new = model_old + stepSize * direction`, one entry -/",
            "def lsTrial [Add α] [Mul α] (mOld step d : α) : α := " + e_trial,
            "/-- `model_new *= model_new > 0`, one entry (the comparison yields 1.0 / 0.0) -/",
            "def project [Mul α] [Zero α] [One α] (gt0 : α → Bool) (m : α) : α := m * " + e_pr,
            "/-- `model_new = model_old * phi_row`, one entry -/",
            "def lsFallback [Mul α] (mOld phi : α) : α := " + e_fb,
            "/-- right-hand side of the sufficient-decrease test `f_new <= (f_old + suff_decr * gDotd)` -/",
            "def armijoBound [Add α] [Mul α] (fOld c gd : α) : α := " + e_arm]


def a_consts(fns):
    out = []
    ls = fns["tt_linesearch_prowsubprob"]
    for nm in ("minDescentTol", "smallStepTol"):
        st = one(assigns_to(ls, nm), f"const.{nm}")
        out.append(f"def {nm} : Rat := {rat(num(st.value, 'const.' + nm))}")
    # the line-search arguments at the call sites
    sites = []
    for name in ("tt_cp_apr_pdnr", "tt_cp_apr_pqnr"):
        for node in ast.walk(fns[name]):
            if isinstance(node, ast.Call) and ast.unparse(node.func) == "tt_linesearch_prowsubprob":
                if len(node.args) != 12 or node.keywords:
                    raise Lost("const.linesearch: call signature changed")
                sites.append(tuple(num(a, "const.linesearch") for a in node.args[3:7]))
    if len(sites) != 3 or len(set(sites)) != 1:
        raise Lost(f"const.linesearch: expected three identical call sites, found {len(sites)}")
    step_len, step_red, max_steps, suff = sites[0]
    if max_steps.denominator != 1:
        raise Lost("const.linesearch: max_steps")
    out += [f"def lsStepLen : Rat := {rat(step_len)}", f"def lsStepRed : Rat := {rat(step_red)}",
            f"def lsMaxSteps : Nat := {max_steps}", f"def lsSuffDecr : Rat := {rat(suff)}"]
    # zero-row fill
    fills = set()
    for name in ("tt_cp_apr_pdnr", "tt_cp_apr_pqnr"):
        st = one(assigns_to(fns[name], "M.factor_matrices[n][tmpIdx, 0]"), f"const.zeroRowFill[{name}]")
        fills.add(num(st.value, "const.zeroRowFill"))
    if len(fills) != 1:
        raise Lost("const.zeroRowFill: pdnr and pqnr differ")
    out.append(f"def zeroRowFill : Rat := {rat(fills.pop())}")
    pd = fns["tt_cp_apr_pdnr"]
    im = [s for s in assigns_to(pd, "innerIterMaximum") if isinstance(s.value, ast.Constant)]
    st = one(im, "const.inexactInner")
    out.append(f"def inexactInner : Nat := {num(st.value, 'const.inexactInner')}")
    iff = [s for s in walk_stmts(pd) if isinstance(s, ast.If) and ast.unparse(s.test) == "inexact and iteration == 1"]
    one(iff, "const.inexactIteration")
    out.append("def inexactIteration : Nat := 1")
    st = one(assigns_to(pd, "rowsubprobStopTol")[1:], "const.inexactDiv")
    v = st.value
    if not (isinstance(v, ast.BinOp) and isinstance(v.op, ast.Div)
            and ast.unparse(v.left) == "np.maximum(stoptol, kktViolations[iteration])"):
        raise Lost("const.inexactDiv: formula changed")
    out.append(f"def inexactDiv : Rat := {rat(num(v.right, 'const.inexactDiv'))}")
    return ["/-! constants read from the source (decimal value of the literal) -/"] + out


ANCHORS = [a_loglik_normalize, a_loglik_sparse, a_loglik_dense, a_mu_kkt, a_mu_update, a_row_kkt, a_row_grad,
           a_linesearch, a_consts]

HEADER = """/-
GENERATED by harness/translate/gen_cpapr.py from pyttb/cp_apr.py — do not edit.
Scalar formulas of CP-APR with the number-system services as explicit parameters
(`log`, `abs`, `minimum`, `isZero`, `gt0`), and the numeric literals of the source.
Import-free.
-/
namespace Pyttb.CpApr.Gen
variable {α : Type}
"""


def run(prop, info):
    lost = []
    try:
        src = (Path(REPO) / "pyttb" / "cp_apr.py").read_text()
        mod = ast.parse(src)
    except Exception as e:  # noqa: BLE001
        return [f"cp_apr.py unreadable: {e}"]
    fns = {f.name: f for f in mod.body if isinstance(f, ast.FunctionDef)}
    body = []
    for a in ANCHORS:
        try:
            body += a(fns) + [""]
        except Lost as e:
            lost.append(str(e))
        except KeyError as e:
            lost.append(f"{a.__name__[2:]}: function {e} not found")
        except Exception as e:  # noqa: BLE001
            lost.append(f"{a.__name__[2:]}: {type(e).__name__}: {e}")
    text = HEADER + "\n" + "\n".join(body) + "end Pyttb.CpApr.Gen\n"
    OUT.parent.mkdir(parents=True, exist_ok=True)
    if not OUT.exists() or OUT.read_text() != text:
        OUT.write_text(text)
    info.setdefault("translators", {})["gen_cpapr"] = {"anchors": len(ANCHORS), "lost": list(lost)}
    return lost


if __name__ == "__main__":
    i = {}
    print(run("C11", i), i)
    print(OUT.read_text())
