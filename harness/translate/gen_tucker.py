"""Translator: pyttb/hosvd.py + pyttb/tucker_als.py
-> lean/PyttbModel/Generated/TuckerFormulas.lean (definitions only).

The two Python files are parsed with `ast` on every run and read through their DATA FLOW (harness/translate/flow.py:
symbolic execution, module-level helpers executed in place, locals followed to the expression that reaches them), so
the anchors are found by their role, not by a variable name or a position.  The anchored scalar expressions become
Lean definitions over any scalar type with `+ - *`, `0`, `1` and the `NumOps` record (`div sqrt abs lt ofNat`), with
the agreed inputs as parameters.  The C10 models (`Alg/Hosvd.lean`, `Alg/TuckerAls.lean`) call these definitions, and
the C10 theorems are stated about the models, so a change of a formula in the Python source changes what the theorems
are about (and breaks the proofs when the property no longer follows).

hosvd.py anchors (roles)
  mode loop       the loop that fills the factor list handed to the returned `ttb.ttensor(core, factors, ...)`
  rank_is_auto    the chosen rank is written to `<ranks>[k]` under the test `<ranks>[k] == <int>`
  rank_cut        the value written there: `np.where(<sums> <cmp> <threshold>)[0][-1] [+ <int>]`
  eigsum          <sums> = `np.cumsum(<eigenvalues>[::-1])[::-1]`
  descending      <eigenvalues> = `D[np.argsort(-D, ...)]`, `D = scipy.linalg.eigh(<Gram matrix>)[0]`  (shape only)
  eigsumthresh    <threshold>, an expression in `tol`, normxsqr and `d = input_tensor.ndims`
  normxsqr        `(ttb.tensor(input_tensor.double(), copy=False)**2).collapse()` reaches the threshold (shape only:
                  the sum of squares of the data in floating point)
  slice_bound     the value written to `<factors>[k]`: `V[:, pi[0 : <ranks>[k] [+ <int>]]]` with V the eigenvectors and
                  pi the descending order of the SAME decomposition (automatic AND given ranks)
  shrink / core   the tensor handed on by a pass is `Y.ttm(<factors>[k].transpose(), int(k)) if sequential else Y`, the
                  core is `Y if sequential else Y.ttm(<factors>, transpose=True)`            (shape only)
tucker_als.py anchors (roles)
  main loop       `for <it> in range(maxiters):`
  normresidual    the value that reaches "normresidual" of the returned dictionary: an expression in
                  normX = `input_tensor.norm()` and normCore = `<core>.norm()`
  fit             the value that reaches "fit": an expression in normresidual and normX; `fit = 0` before the loop
  stop, fitchange the path condition of the loop's only `break`; fitchange is its maximal sub-expression built from
                  the new fit and the fit at the start of the pass
  iters           `"iters": <it> [+ <int>]` in the returned dictionary
  loop            one pass = `for n in dimorder: U[n] = input_tensor.ttm(U, exclude_dims=n, transpose=True).nvecs(n,
                  rank[n])`, core = `<that product>.ttm(U, n, transpose=True)`                (shape only)

Anything outside the accepted subset is reported as "anchor lost: <name>", never guessed; the definitions that could
be read are still emitted.  Doc comments carry the expression that was translated (the source snippet with the inputs
under their parameter names), never a line number: a shifted line or a renamed local does not change the generated text.
"""
from __future__ import annotations

import ast
import copy
from pathlib import Path

from harness.lib import LEAN, REPO
from harness.translate import flow
from harness.translate.flow import Flow, fold, plain, simplify, text

PROPS = ["C10"]

OUT = LEAN / "PyttbModel" / "Generated" / "TuckerFormulas.lean"


class Lost(Exception):
    pass


# ----------------------------------------------------------------------------
# scalar expressions -> Lean terms
# ----------------------------------------------------------------------------
def _int(node):
    if isinstance(node, ast.Constant) and isinstance(node.value, int) and not isinstance(node.value, bool):
        return node.value
    return None


def _call_name(f):
    """np.sqrt -> 'sqrt', abs -> 'abs', np.abs -> 'abs'"""
    if isinstance(f, ast.Name):
        return f.id
    if isinstance(f, ast.Attribute) and isinstance(f.value, ast.Name) and f.value.id in ("np", "math"):
        return f.attr
    return None


class ExprTr:
    """Translate a scalar Python expression; collects the free names in order of appearance."""

    def __init__(self, anchor, rename=None):
        self.anchor = anchor
        self.params = []
        self.rename = rename or {}

    def param(self, name):
        if name not in self.params:
            self.params.append(name)
        return name

    def bad(self, node, what):
        raise Lost(f"{self.anchor}: unsupported {what} `{plain(node)[:80]}`")

    def tr(self, node):
        k = _int(node)
        if k is not None:
            if k == 0:
                return "(0 : α)"
            if k == 1:
                return "(1 : α)"
            if k > 1:
                return f"(ops.ofNat {k})"
            self.bad(node, "negative literal")
        if isinstance(node, ast.Name):
            return self.param(self.rename.get(node.id, node.id))
        if isinstance(node, ast.Call):
            # core.norm() : a free quantity named normCore
            f = node.func
            if (isinstance(f, ast.Attribute) and f.attr == "norm" and isinstance(f.value, ast.Name)
                    and not node.args and not node.keywords):
                return self.param("norm" + f.value.id[0].upper() + f.value.id[1:])
            name = _call_name(f)
            if name in ("sqrt",) and len(node.args) == 1 and not node.keywords:
                return f"(ops.sqrt {self.tr(node.args[0])})"
            if name in ("abs", "absolute", "fabs") and len(node.args) == 1 and not node.keywords:
                return f"(ops.abs {self.tr(node.args[0])})"
            self.bad(node, "call")
        if isinstance(node, ast.BinOp):
            if isinstance(node.op, ast.Pow):
                n = _int(node.right)
                if n is None or n < 0:
                    self.bad(node, "exponent")
                return f"(npow {self.tr(node.left)} {n})"
            a, b = self.tr(node.left), self.tr(node.right)
            if isinstance(node.op, ast.Add):
                return f"({a} + {b})"
            if isinstance(node.op, ast.Sub):
                return f"({a} - {b})"
            if isinstance(node.op, ast.Mult):
                return f"({a} * {b})"
            if isinstance(node.op, ast.Div):
                return f"(ops.div {a} {b})"
            self.bad(node, "operator")
        if isinstance(node, ast.Compare) and len(node.ops) == 1:
            a, b = self.tr(node.left), self.tr(node.comparators[0])
            return self.cmp(node.ops[0], a, b, node)
        self.bad(node, type(node).__name__)

    def cmp(self, op, a, b, node):
        if isinstance(op, ast.Lt):
            return f"(ops.lt {a} {b})"
        if isinstance(op, ast.Gt):
            return f"(ops.lt {b} {a})"
        if isinstance(op, ast.LtE):
            return f"(!(ops.lt {b} {a}))"
        if isinstance(op, ast.GtE):
            return f"(!(ops.lt {a} {b}))"
        self.bad(node, "comparison")


# ----------------------------------------------------------------------------
# AST helpers
# ----------------------------------------------------------------------------
def _plus_const(node, is_base):
    """`<base>` -> 0, `<base> + c` -> c, `<base> - c` -> -c, else None"""
    if is_base(node):
        return 0
    if isinstance(node, ast.BinOp) and is_base(node.left):
        c = _int(node.right)
        if c is not None and isinstance(node.op, ast.Add):
            return c
        if c is not None and isinstance(node.op, ast.Sub):
            return -c
    return None


def _is_reversed(node):
    """`<x>[::-1]` -> x, else None"""
    if not isinstance(node, ast.Subscript):
        return None
    s = node.slice
    if (isinstance(s, ast.Slice) and s.lower is None and s.upper is None
            and isinstance(s.step, ast.UnaryOp) and isinstance(s.step.op, ast.USub) and _int(s.step.operand) == 1):
        return node.value
    return None


def _pure_call(n):
    return _call_name(n.func) in ("abs", "absolute", "fabs", "sqrt") and len(n.args) == 1 and not n.keywords


def _is_norm_call(n):
    return (isinstance(n, ast.Call) and isinstance(n.func, ast.Attribute) and n.func.attr == "norm"
            and not n.args and not n.keywords)


def _attempt(lost, name, f):
    try:
        f()
    except Lost as e:
        lost.append(str(e))
    except Exception as e:  # noqa: BLE001
        lost.append(f"{name}: {type(e).__name__}: {e}")


def _formula(anchor, e, allowed):
    """-> {"lean", "params", "python", "doc"} of a folded scalar expression."""
    t = ExprTr(anchor)
    body = t.tr(e)
    if set(t.params) - set(allowed):
        raise Lost(f"{anchor}: unexpected free names {sorted(set(t.params) - set(allowed))}")
    # doc = the expression over the parameter names: what was translated and what the cross-check family evaluates; a
    # refactoring that keeps the formula keeps the generated text byte for byte
    return {"lean": body, "params": list(t.params), "python": text(e), "doc": text(e)}


# ----------------------------------------------------------------------------
# hosvd.py
# ----------------------------------------------------------------------------
NORMXSQR_SRC = "(ttb.tensor(input_tensor.double(), copy=False) ** 2).collapse()"


def _is_normxsqr(n):
    """the sum of the squares of the data CONVERTED TO DOUBLE (2517f75): `(input_tensor**2).collapse()` wrapped
    around for integer-typed data, which the exact-arithmetic model `normSq` does not do — only the floating point
    form is accepted"""
    ok = (isinstance(n, ast.Call) and not n.args and not n.keywords and isinstance(n.func, ast.Attribute)
          and n.func.attr == "collapse" and isinstance(n.func.value, ast.BinOp)
          and isinstance(n.func.value.op, ast.Pow) and _int(n.func.value.right) == 2)
    if ok:
        b = n.func.value.left
        ok = (isinstance(b, ast.Call) and plain(b.func) == "ttb.tensor" and len(b.args) == 1
              and plain(b.args[0]) == "input_tensor.double()" and all(k.arg == "copy" for k in b.keywords))
    return ok


def read_hosvd(src):
    """-> dict of definitions and the list of lost anchors.

    Everything is read from the data flow of `hosvd` (flow.py): the factor list is the second argument of the returned
    `ttb.ttensor(core, factors, ...)`; the mode loop is the loop that fills it; the chosen rank is the value written to
    `<ranks>[k]` under the test `<ranks>[k] == <int>`; eigenvalues, eigenvectors and the descending order are the
    expressions found inside those values, whatever the locals are called and whether or not a helper computes them."""
    out, lost = {}, []
    F = Flow(src, roots=["hosvd"])
    try:
        R = F.run("hosvd")
    except KeyError:
        return out, ["hosvd: function not found"]
    out["inlined_helpers"] = list(F.inlined)
    res = R.result
    if not (isinstance(res, ast.Call) and plain(res.func) in ("ttb.ttensor", "ttensor") and len(res.args) >= 2):
        return out, ["hosvd: the function does not return `ttb.ttensor(core, factors, ...)`"]
    G, FM = res.args[0], res.args[1]
    s = F.sym(FM.id) if isinstance(FM, ast.Name) else None
    if not s or s["kind"] != "out":
        return out, ["mode loop: the factor list of the result is not filled by a loop over the modes"]
    L = F.regions[s["region"]]
    fm_var = s["var"]
    if len(L.targets) != 1:
        return out, ["mode loop: expected one loop variable"]
    k = L.targets[0]
    k_sym = f"{k}{flow.SEP}in{L.id}"
    ren = {k: "k", fm_var: "factor_matrices"}

    def canon(e):
        return text(flow.rename(e, ren))

    def is_k(n):
        return isinstance(n, ast.Name) and n.id == k_sym

    def sub_k(n, var=None):
        """`<var>[k]`"""
        return (isinstance(n, ast.Subscript) and isinstance(n.value, ast.Name) and is_k(n.slice)
                and (var is None or flow.base(n.value.id) == var))

    st = {}

    def rank_is_auto():
        cands = []
        for e in L.entries("effect"):
            pc = [simplify(c) for c in e.rel_pc()]
            if sub_k(e.target) and not pc:
                # `ranks[k] = <cut> if ranks[k] == 0 else ranks[k]`
                v = simplify(e.value)
                if isinstance(v, ast.IfExp) and sub_k(v.orelse, e.name):
                    e = copy.copy(e)
                    e.value, pc = v.body, [v.test]
            if not (sub_k(e.target) and len(pc) == 1):
                continue
            t = pc[0]
            e.auto_test = t
            if (isinstance(t, ast.Compare) and len(t.ops) == 1 and isinstance(t.ops[0], ast.Eq)
                    and sub_k(t.left, e.name) and _int(t.comparators[0]) is not None and _int(t.comparators[0]) >= 0):
                cands.append(e)
        if len(cands) != 1:
            raise Lost(f"rank_is_auto: expected one assignment `ranks[k] = ...` under `if ranks[k] == <int>:`, found {len(cands)}")
        e = cands[0]
        st["cut"], st["ranks"] = e, e.name
        ren[e.name] = "ranks"
        t = e.auto_test
        out["auto_marker"] = {"value": _int(t.comparators[0]), "python": canon(t)}

    def eig_parts(dd, what):
        """dd must be `scipy.linalg.eigh(Z)[0]`; returns the text of the eigh call"""
        ok = (isinstance(dd, ast.Subscript) and _int(dd.slice) == 0 and isinstance(dd.value, ast.Call)
              and plain(dd.value.func) == "scipy.linalg.eigh" and len(dd.value.args) == 1)
        if not ok:
            raise Lost(f"{what}: the eigenvalues are not the first result of `scipy.linalg.eigh(Z)`: `{plain(dd)[:60]}`")
        z = canon(dd.value.args[0])
        if z != "np.dot(Y.to_tenmat(np.array([k])).double(), Y.to_tenmat(np.array([k])).double().transpose())":
            st.setdefault("gram_drift", z)
        return text(dd.value)

    def descending_parts(ev, what):
        """ev must be `D[np.argsort(-D, ...)]` -> (text of D, text of the argsort, text of the eigh call)"""
        ok = (isinstance(ev, ast.Subscript) and isinstance(ev.slice, ast.Call) and _call_name(ev.slice.func) == "argsort"
              and len(ev.slice.args) == 1 and isinstance(ev.slice.args[0], ast.UnaryOp)
              and isinstance(ev.slice.args[0].op, ast.USub)
              and text(ev.slice.args[0].operand) == text(ev.value))
        if not ok:
            raise Lost(f"{what}: expected the eigenvalues in descending order `D[np.argsort(-D, ...)]`, found `{plain(ev)[:70]}`")
        return text(ev.value), text(ev.slice), eig_parts(ev.value, what)

    def rank_cut():
        e = st.get("cut")
        if e is None:
            raise Lost("rank_cut: enclosing `if ranks[k] == ...` not found")

        def is_last_where(n):
            # np.where(<cmp>)[0][-1]
            if not (isinstance(n, ast.Subscript) and isinstance(n.slice, ast.UnaryOp)
                    and isinstance(n.slice.op, ast.USub) and _int(n.slice.operand) == 1):
                return False
            n = n.value
            if not (isinstance(n, ast.Subscript) and _int(n.slice) == 0):
                return False
            n = n.value
            return (isinstance(n, ast.Call) and _call_name(n.func) == "where" and len(n.args) == 1
                    and not n.keywords and isinstance(n.args[0], ast.Compare) and len(n.args[0].ops) == 1)

        off = _plus_const(e.value, is_last_where)
        if off is None or off < 0:
            raise Lost(f"rank_cut: expected `np.where(eigsum <cmp> eigsumthresh)[0][-1] [+ c]`, found `{plain(e.value)[:90]}`")
        basev = e.value if off == 0 else e.value.left
        cmp_node = basev.value.value.args[0]
        sides = [cmp_node.left, cmp_node.comparators[0]]
        cum = [x for x in sides if any(isinstance(c, ast.Call) and _call_name(c.func) == "cumsum" for c in ast.walk(x))]
        if len(cum) != 1:
            raise Lost(f"rank_cut: the condition must compare the reverse cumulative sums with the threshold, found `{plain(cmp_node)[:90]}`")
        cum = cum[0]
        thr = sides[1] if cum is sides[0] else sides[0]
        st["cum"], st["thr"] = cum, thr
        leaves = {text(cum): "eigsum", text(thr): "eigsumthresh"}
        t = ExprTr("rank_cut", rename={"eigsum": "e"})
        cond = t.tr(fold(cmp_node, leaves))
        if set(t.params) != {"e", "eigsumthresh"}:
            raise Lost(f"rank_cut: the condition must compare eigsum with eigsumthresh, found `{plain(cmp_node)[:90]}`")
        out["rank_cut"] = {"cond": cond, "offset": off, "python": text(fold(e.value, leaves)),
                           "doc": text(fold(e.value, leaves))}

    def eigsum():
        cum = st.get("cum")
        if cum is None:
            raise Lost("eigsum: the rank cut-off was not read")
        inner = _is_reversed(cum)
        ok = inner is not None and isinstance(inner, ast.Call) and _call_name(inner.func) == "cumsum" \
            and len(inner.args) == 1 and not inner.keywords and _is_reversed(inner.args[0]) is not None
        if not ok:
            raise Lost(f"eigsum: expected `np.cumsum(eigvec[::-1])[::-1]`, found `{plain(cum)[:80]}`")
        st["ev"] = _is_reversed(inner.args[0])
        out["eigsum"] = {"doc": "eigsum = np.cumsum(eigvec[::-1])[::-1]"}

    def descending():
        ev = st.get("ev")
        if ev is None:
            raise Lost("descending: the reverse cumulative sums were not read")
        st["D"], st["pi"], st["eigh"] = descending_parts(ev, "descending")
        out["descending"] = True

    def eigsumthresh():
        thr = st.get("thr")
        if thr is None:
            raise Lost("eigsumthresh: the rank cut-off was not read")
        seen = []

        def pred(n):
            if _is_normxsqr(n):
                seen.append(n)
                return "normxsqr"
            if plain(n) == "input_tensor.ndims":
                return "d"
            return None
        e = flow.fold_where(thr, pred)
        out["eigsumthresh"] = _formula("eigsumthresh", e, ["tol", "normxsqr", "d"])
        if seen:
            out["normxsqr"] = True

    def normxsqr():
        if "normxsqr" not in out:
            raise Lost(f"normxsqr: `{NORMXSQR_SRC}` does not reach the threshold")

    def slice_bound():
        cand = [e for e in L.entries(("effect", "augeffect")) if e.name == fm_var]
        if len(cand) != 1 or cand[0].kind != "effect" or cand[0].rel_pc() or not sub_k(cand[0].target):
            raise Lost(f"slice_bound: expected one unconditional assignment to factor_matrices[k], found {len(cand)}")
        v = cand[0].value
        # V[:, pi[lo:hi]]
        ok = (isinstance(v, ast.Subscript) and isinstance(v.slice, ast.Tuple) and len(v.slice.elts) == 2
              and isinstance(v.slice.elts[0], ast.Slice) and v.slice.elts[0].lower is None
              and v.slice.elts[0].upper is None and v.slice.elts[0].step is None)
        if ok:
            p = v.slice.elts[1]
            ok = (isinstance(p, ast.Subscript) and isinstance(p.slice, ast.Slice) and p.slice.step is None
                  and (p.slice.lower is None or _int(p.slice.lower) == 0) and p.slice.upper is not None)
        if not ok:
            raise Lost(f"slice_bound: expected `V[:, pi[0 : ranks[k] [+ c]]]`, found `{plain(v)[:90]}`")
        vv, pi = v.value, p.value
        ok = (isinstance(pi, ast.Call) and _call_name(pi.func) == "argsort" and len(pi.args) == 1
              and isinstance(pi.args[0], ast.UnaryOp) and isinstance(pi.args[0].op, ast.USub))
        if not ok:
            raise Lost(f"slice_bound: the columns are not picked in descending order of the eigenvalues: `{plain(pi)[:70]}`")
        eigh = eig_parts(pi.args[0].operand, "slice_bound")
        if not (isinstance(vv, ast.Subscript) and _int(vv.slice) == 1 and text(vv.value) == eigh):
            raise Lost("slice_bound: the factor is not cut from the eigenvectors of the same decomposition")
        if "pi" in st and (text(pi) != st["pi"] or eigh != st["eigh"]):
            raise Lost("slice_bound: rank cut-off and factor use different decompositions / orders")
        rv = st.get("ranks")
        off = _plus_const(p.slice.upper, lambda n: sub_k(n, rv))
        if off is None or off < 0:
            raise Lost(f"slice_bound: unsupported upper bound `{plain(p.slice.upper)[:60]}`")
        if rv is None:
            ren[flow.base(p.slice.upper.value.id if off == 0 else p.slice.upper.left.value.id)] = "ranks"
        py = flow.rename(fold(v, {text(vv): "V", text(pi): "pi"}), ren)
        out["slice_bound"] = {"offset": off, "python": text(py),
                              "doc": f"V[:, pi[0:ranks[k]{' + ' + str(off) if off else ''}]]"}

    def shrink_core():
        if "dimorder" not in {flow.base(i) for i in flow.names(L.iter)}:
            raise Lost("shrink/core: the mode loop does not run over dimorder")
        ys = [F.sym(n.id)["var"] for n in ast.walk(G) if isinstance(n, ast.Name) and F.sym(n.id)
              and F.sym(n.id)["kind"] == "out" and F.sym(n.id)["region"] == L.id and F.sym(n.id)["var"] != fm_var]
        if len(set(ys)) != 1:
            raise Lost("shrink/core: the core is not computed from the tensor shrunk in the mode loop")
        ren[ys[0]] = "Y"
        g = canon(simplify(G))
        if g != "Y if sequential else Y.ttm(factor_matrices, transpose=True)":
            raise Lost(f"shrink/core: core is `{g[:90]}`")
        y = L.end(ys[0])
        y = canon(simplify(y)) if y is not None else None
        if y != "Y.ttm(factor_matrices[k].transpose(), int(k)) if sequential else Y":
            raise Lost(f"shrink/core: shrink step is `{str(y)[:90]}`")
        if "gram_drift" in st:
            raise Lost(f"shrink/core: the decomposed matrix is `{st['gram_drift'][:90]}`")

    for name, f in (("rank_is_auto", rank_is_auto), ("rank_cut", rank_cut), ("eigsum", eigsum),
                    ("descending", descending), ("eigsumthresh", eigsumthresh), ("normxsqr", normxsqr),
                    ("slice_bound", slice_bound), ("shrink/core", shrink_core)):
        _attempt(lost, name, f)
    return out, lost


# ----------------------------------------------------------------------------
# tucker_als.py
# ----------------------------------------------------------------------------
def read_tucker(src):
    """The fit, the residual and the number of passes are the values that reach the returned dictionary; the stop test
    is the path condition of the main loop's only `break` (flow.py)."""
    out, lost = {}, []
    F = Flow(src, roots=["tucker_als"])
    try:
        R = F.run("tucker_als")
    except KeyError:
        return out, ["tucker_als: function not found"]
    out["inlined_helpers"] = list(F.inlined)
    main = [x for x in R.loops() if plain(x.iter) == "range(maxiters)" and len(x.targets) == 1]
    if len(main) != 1:
        return out, [f"loop: expected exactly one `for <it> in range(maxiters)`, found {len(main)}"]
    L = main[0]
    it = L.targets[0]
    st = {}

    def at_exit(var, what):
        v = L.end(var)
        if v is None:
            raise Lost(f"{what}: `{var}` is not assigned in the main loop")
        for _, env in L.breaks:
            if var in env and text(env[var]) != text(v):
                raise Lost(f"{what}: `{var}` differs between `break` and the end of the pass")
        return v

    def fold_inputs(e, extra):
        def pred(n):
            t = text(n)
            if t in extra:
                return extra[t]
            if plain(t) == "input_tensor.norm()":
                return "normX"
            if _is_norm_call(n):
                st.setdefault("cores", set()).add(text(n.func.value))
                return "normCore"
            return None
        return flow.fold_where(e, pred)

    def sinks():
        ds = {text(d): d for d in flow.find_dict_with(R, ["fit", "normresidual", "iters"])}
        if len(ds) != 1:
            raise Lost(f"fit: expected one returned dictionary with \"fit\", \"normresidual\", \"iters\", found {len(ds)}")
        d = next(iter(ds.values()))
        for key in ("fit", "normresidual"):
            var, recs = flow.split_sink(flow.dict_get(d, key), F, L.id)
            if var is None or recs:
                raise Lost(f"{key}: the reported value is not the value at the end of the main loop")
            st[key] = var
        st["iters"] = flow.dict_get(d, "iters")

    def normx():
        if not any(plain(e.value) == "input_tensor.norm()" for e in R.entries("assign")):
            raise Lost("normX: `input_tensor.norm()` is not computed")

    def normresidual():
        if "normresidual" not in st:
            raise Lost("normresidual: the reported value was not found")
        v = simplify(at_exit(st["normresidual"], "normresidual"))
        st["v_nr"] = v
        out["normresidual"] = _formula("normresidual", fold_inputs(v, {}), ["normX", "normCore"])

    def fit():
        if "fit" not in st or "v_nr" not in st:
            raise Lost("fit: the reported value was not found")
        v = simplify(at_exit(st["fit"], "fit"))
        st["v_fit"] = v
        out["fit"] = _formula("fit", fold_inputs(v, {text(st["v_nr"]): "normresidual"}), ["normresidual", "normX"])
        init = L.pre_env.get(st["fit"])
        if init is None or _int(init) != 0:
            raise Lost("fit: expected the initialisation `fit = 0` in front of the main loop")

    def stop():
        if "v_fit" not in st:
            raise Lost("stop: the fit of the pass was not read")
        if len(L.breaks) != 1:
            raise Lost(f"stop: expected exactly one `break` in the main loop, found {len(L.breaks)}")
        if L.continues:
            raise Lost("stop: the main loop skips part of a pass (`continue`)")
        c = flow.conj(L.breaks[0][0])
        if c is None:
            raise Lost("stop: unconditional break")
        leaves = {text(st["v_fit"]): "fit", f"{st['fit']}{flow.SEP}in{L.id}": "fitold"}
        c = simplify(fold(c, leaves))
        cands = flow.maximal_over(c, {"fit", "fitold"}, _pure_call)
        if len(cands) != 1:
            raise Lost(f"fitchange: expected one quantity built from the old and the new fit in the stop test, found {len(cands)}")
        out["fitchange"] = _formula("fitchange", cands[0], ["fitold", "fit"])
        s = _formula("stop", fold(c, {text(cands[0]): "fitchange"}), ["fitchange", "stoptol"])
        if set(s["params"]) != {"fitchange", "stoptol"}:
            raise Lost(f"stop: expected a comparison of fitchange and stoptol, found `{s['python']}`")
        s["params"] = ["fitchange", "stoptol"]
        out["stop"] = s

    def iters():
        v = st.get("iters")
        if v is None:
            raise Lost('iters: `"iters": iteration [+ c]` not found')

        def is_it(n):
            s = F.sym(n.id) if isinstance(n, ast.Name) else None
            return bool(s) and s["kind"] == "out" and s["region"] == L.id and s["var"] == it
        off = _plus_const(v, is_it)
        if off is None or off < 0:
            raise Lost(f"iters: unsupported value `{plain(v)}`")
        out["iters"] = {"offset": off, "python": text(flow.rename(v, {it: "iteration"}))}

    def loop():
        inner = [x for x in L.loops() if len(x.targets) == 1 and "dimorder" in {flow.base(i) for i in flow.names(x.iter)}]
        if len(inner) != 1:
            raise Lost(f"loop: expected one loop over dimorder in a pass, found {len(inner)}")
        L2 = inner[0]
        if plain(L2.node.iter) != "dimorder":
            raise Lost(f"loop: the modes are visited in the order `{plain(L2.node.iter)}`")
        eff = [e for e in L2.entries(("effect", "augeffect"))]
        if len(eff) != 1 or eff[0].kind != "effect" or eff[0].rel_pc():
            raise Lost(f"loop: expected one factor update in the mode loop, found {len(eff)}")
        ren = {L2.targets[0]: "n", eff[0].name: "U"}
        pl = flow.param_leaves(L.pre_env, R.node)
        tgt = text(flow.rename(eff[0].target, ren))
        val = text(flow.rename(fold(eff[0].value, pl), ren))
        if tgt != "U[n]" or val != "input_tensor.ttm(U, exclude_dims=n, transpose=True).nvecs(n, rank[n])":
            raise Lost(f"loop: factor update is `{tgt} = {val[:90]}`")
        cores = st.get("cores", set())
        if len(cores) != 1:
            raise Lost(f"loop: the residual uses the norms of {len(cores)} objects")
        # the receiver of `.norm()`: the core assembled after the mode loop
        recv = [n.func.value for n in ast.walk(st["v_nr"]) if _is_norm_call(n) and plain(n) != "input_tensor.norm()"]
        c = text(flow.rename(fold(F.deref(recv[0]), pl), ren))
        if c != "input_tensor.ttm(U, exclude_dims=n, transpose=True).ttm(U, n, transpose=True)":
            raise Lost(f"loop: the core is `{c[:100]}`")

    for name, f in (("fit", sinks), ("normX", normx), ("normresidual", normresidual), ("fit", fit), ("stop", stop),
                    ("iters", iters), ("loop", loop)):
        _attempt(lost, name, f)
    return out, lost


# ----------------------------------------------------------------------------
# Lean text
# ----------------------------------------------------------------------------
HEADER = """/- GENERATED by harness/translate/gen_tucker.py from pyttb/hosvd.py and pyttb/tucker_als.py
   of the current working tree.  Definitions only.  Do not edit. -/
import PyttbModel.Alg.TuckerNum
namespace Pyttb.Tk.Gen

variable {α : Type} [Add α] [Sub α] [Mul α] [Zero α] [One α]
"""


def _def(name, params, ret, body, doc, int_params=()):
    ps = " ".join(f"({p} : {'Nat' if p in int_params else 'α'})" for p in params)
    return f"/-- {doc} -/\ndef {name} (ops : NumOps α) {ps} : {ret} :=\n  {body}\n"


def render(h, t):
    """Lean text of everything that was read (missing definitions are filled in from the pinned file by
    harness/translate/__init__.py)."""
    parts = [HEADER]
    if "eigsumthresh" in h:
        e = h["eigsumthresh"]
        parts.append(_def("eigsumthresh", e["params"], "α", e["lean"], f"hosvd.py  `eigsumthresh = {e['doc']}`"))
    if "auto_marker" in h:
        e = h["auto_marker"]
        parts.append(f"/-- hosvd.py  `if {e['python']}:` — the rank of a mode is chosen automatically when the\n"
                     f"requested rank is this value. -/\ndef autoMarker : Nat := {e['value']}\n")
    if "eigsum" in h:
        parts.append("/-- hosvd.py  `eigsum = np.cumsum(eigvec[::-1])`, `eigsum = eigsum[::-1]` -/\n"
                     "def eigsum (eigvec : List α) : List α := revCumsum eigvec\n")
    if "rank_cut" in h:
        e = h["rank_cut"]
        parts.append(f"/-- hosvd.py  `ranks[k] = {e['doc']}`: the condition tested on every entry `e` of `eigsum`. -/\n"
                     f"def cutCond (ops : NumOps α) (eigsumthresh : α) (e : α) : Bool :=\n  {e['cond']}\n")
        parts.append(f"/-- hosvd.py  what is added to the last qualifying position. -/\n"
                     f"def cutOffset : Nat := {e['offset']}\n")
        parts.append(f"/-- hosvd.py  `ranks[k] = {e['doc']}`; `none` where NumPy raises. -/\n"
                     "def rankCut (ops : NumOps α) (eigsum : List α) (eigsumthresh : α) : Option Nat :=\n"
                     "  (lastIdxWhere (cutCond ops eigsumthresh) eigsum).map (· + cutOffset)\n")
    if "slice_bound" in h:
        e = h["slice_bound"]
        parts.append(f"/-- hosvd.py  `factor_matrices[k] = {e['doc']}`: number of leading entries of `pi` kept,\n"
                     f"for automatic and for user-given ranks alike. -/\ndef sliceBound (rank : Nat) : Nat := rank + {e['offset']}\n")
    for name in ("normresidual", "fit", "fitchange"):
        if name in t:
            e = t[name]
            parts.append(_def(name, e["params"], "α", e["lean"], f"tucker_als.py  `{name} = {e['doc']}`"))
    if "stop" in t:
        e = t["stop"]
        parts.append(_def("stopTest", e["params"], "Bool", e["lean"], f"tucker_als.py  `if {e['doc']}: break`"))
    if "iters" in t:
        e = t["iters"]
        parts.append(f"/-- tucker_als.py  `\"iters\": {e['python']}` with `iteration` the 0-based loop index. -/\n"
                     f"def itersReported (iteration : Nat) : Nat := iteration + {e['offset']}\n")
    parts.append("end Pyttb.Tk.Gen\n")
    return "\n".join(parts)


def _jsonable(d):
    return {k: v for k, v in d.items()}


def build():
    """-> (lean text | None, lost anchors, description)"""
    try:
        hs = (REPO / "pyttb" / "hosvd.py").read_text()
        ts = (REPO / "pyttb" / "tucker_als.py").read_text()
    except OSError as e:
        return None, [f"source file: {e}"], {}
    try:
        h, l1 = read_hosvd(hs)
    except SyntaxError as e:
        h, l1 = {}, [f"hosvd.py: syntax error {e}"]
    try:
        t, l2 = read_tucker(ts)
    except SyntaxError as e:
        t, l2 = {}, [f"tucker_als.py: syntax error {e}"]
    lost = l1 + l2
    need_h = ("eigsumthresh", "auto_marker", "eigsum", "rank_cut", "slice_bound")
    need_t = ("normresidual", "fit", "fitchange", "stop", "iters")
    desc = {"hosvd": _jsonable(h), "tucker_als": _jsonable(t)}
    missing = [k for k in need_h if k not in h] + [k for k in need_t if k not in t]
    if missing and not lost:
        lost = [f"gen_tucker: incomplete reading: {missing}"]
    return render(h, t), lost, desc


def sources():
    """What was read from the two files (for the cross-check of the translator's reading): (hosvd dict, tucker dict,
    lost anchors)."""
    h, l1 = read_hosvd((REPO / "pyttb" / "hosvd.py").read_text())
    t, l2 = read_tucker((REPO / "pyttb" / "tucker_als.py").read_text())
    return h, t, l1 + l2


def run(prop: str, info: dict):
    text_, lost, desc = build()
    info.setdefault("translators", {})["gen_tucker"] = {"lost": lost, **desc}
    if text_ is None:
        # the source could not be read at all: the pinned definitions (never a stale file of another tree)
        pin = Path(__file__).parent / "pinned" / OUT.name
        text_ = pin.read_text() if pin.exists() else None
    if text_ is not None:
        OUT.parent.mkdir(parents=True, exist_ok=True)
        if not OUT.exists() or OUT.read_text() != text_:
            OUT.write_text(text_)
    return [f"gen_tucker: {a}" for a in lost]


if __name__ == "__main__":
    t_, l_, _ = build()
    print(t_)
    print("lost:", l_)
