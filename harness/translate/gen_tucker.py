"""Translator: pyttb/hosvd.py + pyttb/tucker_als.py
-> lean/PyttbModel/Generated/TuckerFormulas.lean (definitions only).

The two Python files are parsed with `ast` on every run.  The anchored scalar assignments
become Lean definitions over any scalar type with `+ - *`, `0`, `1` and the `NumOps` record
(`div sqrt abs lt ofNat`), with the free Python names as parameters.  The C10 models
(`Alg/Hosvd.lean`, `Alg/TuckerAls.lean`) call these definitions, and the C10 theorems are
stated about the models, so a change of a formula in the Python source changes what the
theorems are about (and breaks the proofs when the property no longer follows).

hosvd.py anchors
  normxsqr        `normxsqr = (ttb.tensor(input_tensor.double(), copy=False)**2).collapse()`  (shape only:
                  the sum of squares of the data in floating point)
  eigsumthresh    `eigsumthresh = <expr in tol, normxsqr, d>`
  descending      `pi = np.argsort(-D, ...)`, `eigvec = D[pi]`              (shape only)
  rank_is_auto    `if ranks[k] == <int>:`
  eigsum          `eigsum = np.cumsum(eigvec[::-1])`; `eigsum = eigsum[::-1]`
  rank_cut        `ranks[k] = np.where(eigsum <cmp> eigsumthresh)[0][-1] [+ <int>]`
  slice_bound     `factor_matrices[k] = V[:, pi[0 : ranks[k] [+ <int>]]]`   (auto AND given ranks)
  shrink / core   `Y = Y.ttm(factor_matrices[k].transpose(), int(k))` under `if sequential`,
                  `G = Y` / `G = Y.ttm(factor_matrices, transpose=True)`    (shape only)
tucker_als.py anchors
  normX           `normX = input_tensor.norm()`                             (shape only)
  normresidual    `normresidual = <expr in normX, core.norm()>`
  fit             `fit = <expr in normresidual, normX>`
  fitchange       `fitchange = <expr in fitold, fit>`
  stop            `if <fitchange cmp stoptol>: break`
  iters           `"iters": iteration [+ <int>]` in the output dictionary
  loop            `for iteration in range(maxiters):`                        (shape only)

Anything outside the accepted subset is reported as "anchor lost: <name>", never guessed.
"""
from __future__ import annotations

import ast

from harness.lib import LEAN, REPO

PROPS = ["C10"]

OUT = LEAN / "PyttbModel" / "Generated" / "TuckerFormulas.lean"


class Lost(Exception):
    pass


# ----------------------------------------------------------------------------
# scalar expressions -> Lean terms
# ----------------------------------------------------------------------------
def _int(node):
    if isinstance(node, ast.Constant) and isinstance(node.value, int) and not isinstance(node.value, bool):
        return node.value
    return None


def _call_name(f):
    """np.sqrt -> 'sqrt', abs -> 'abs', np.abs -> 'abs'"""
    if isinstance(f, ast.Name):
        return f.id
    if isinstance(f, ast.Attribute) and isinstance(f.value, ast.Name) and f.value.id in ("np", "math"):
        return f.attr
    return None


class ExprTr:
    """Translate a scalar Python expression; collects the free names in order of appearance."""

    def __init__(self, anchor, rename=None):
        self.anchor = anchor
        self.params = []
        self.rename = rename or {}

    def param(self, name):
        if name not in self.params:
            self.params.append(name)
        return name

    def bad(self, node, what):
        raise Lost(f"{self.anchor}: unsupported {what} `{ast.unparse(node)}` at line {getattr(node, 'lineno', '?')}")

    def tr(self, node):
        k = _int(node)
        if k is not None:
            if k == 0:
                return "(0 : α)"
            if k == 1:
                return "(1 : α)"
            if k > 1:
                return f"(ops.ofNat {k})"
            self.bad(node, "negative literal")
        if isinstance(node, ast.Name):
            return self.param(self.rename.get(node.id, node.id))
        if isinstance(node, ast.Call):
            # core.norm() : a free quantity named normCore
            f = node.func
            if (isinstance(f, ast.Attribute) and f.attr == "norm" and isinstance(f.value, ast.Name)
                    and not node.args and not node.keywords):
                return self.param("norm" + f.value.id[0].upper() + f.value.id[1:])
            name = _call_name(f)
            if name in ("sqrt",) and len(node.args) == 1 and not node.keywords:
                return f"(ops.sqrt {self.tr(node.args[0])})"
            if name in ("abs", "absolute", "fabs") and len(node.args) == 1 and not node.keywords:
                return f"(ops.abs {self.tr(node.args[0])})"
            self.bad(node, "call")
        if isinstance(node, ast.BinOp):
            if isinstance(node.op, ast.Pow):
                n = _int(node.right)
                if n is None or n < 0:
                    self.bad(node, "exponent")
                return f"(npow {self.tr(node.left)} {n})"
            a, b = self.tr(node.left), self.tr(node.right)
            if isinstance(node.op, ast.Add):
                return f"({a} + {b})"
            if isinstance(node.op, ast.Sub):
                return f"({a} - {b})"
            if isinstance(node.op, ast.Mult):
                return f"({a} * {b})"
            if isinstance(node.op, ast.Div):
                return f"(ops.div {a} {b})"
            self.bad(node, "operator")
        if isinstance(node, ast.Compare) and len(node.ops) == 1:
            a, b = self.tr(node.left), self.tr(node.comparators[0])
            return self.cmp(node.ops[0], a, b, node)
        self.bad(node, type(node).__name__)

    def cmp(self, op, a, b, node):
        if isinstance(op, ast.Lt):
            return f"(ops.lt {a} {b})"
        if isinstance(op, ast.Gt):
            return f"(ops.lt {b} {a})"
        if isinstance(op, ast.LtE):
            return f"(!(ops.lt {b} {a}))"
        if isinstance(op, ast.GtE):
            return f"(!(ops.lt {a} {b}))"
        self.bad(node, "comparison")


# ----------------------------------------------------------------------------
# AST helpers
# ----------------------------------------------------------------------------
def _fn(mod, name):
    for st in mod.body:
        if isinstance(st, ast.FunctionDef) and st.name == name:
            return st
    raise Lost(f"{name}: function not found")


def _walk_stmts(body):
    """All statements, nested ones included, in source order."""
    for st in body:
        yield st
        for fld in ("body", "orelse", "finalbody"):
            sub = getattr(st, fld, None)
            if isinstance(sub, list):
                yield from _walk_stmts(sub)


def _assigns(fn, name):
    """Assignments `name = value` anywhere in the function, in source order."""
    out = []
    for st in _walk_stmts(fn.body):
        if isinstance(st, ast.Assign) and len(st.targets) == 1 and isinstance(st.targets[0], ast.Name) \
                and st.targets[0].id == name:
            out.append(st)
    return out


def _one_assign(fn, name, anchor=None):
    a = _assigns(fn, name)
    if len(a) != 1:
        raise Lost(f"{anchor or name}: expected exactly one assignment `{name} = ...`, found {len(a)}")
    return a[0]


def _is_sub(node, base, idx):
    """`base[idx]` with plain names"""
    return (isinstance(node, ast.Subscript) and isinstance(node.value, ast.Name) and node.value.id == base
            and isinstance(node.slice, ast.Name) and node.slice.id == idx)


def _plus_const(node, is_base):
    """`<base>` -> 0, `<base> + c` -> c, `<base> - c` -> -c, else None"""
    if is_base(node):
        return 0
    if isinstance(node, ast.BinOp) and is_base(node.left):
        c = _int(node.right)
        if c is not None and isinstance(node.op, ast.Add):
            return c
        if c is not None and isinstance(node.op, ast.Sub):
            return -c
    return None


def _is_reversed(node, name):
    """`name[::-1]`"""
    if not (isinstance(node, ast.Subscript) and isinstance(node.value, ast.Name) and node.value.id == name):
        return False
    s = node.slice
    return (isinstance(s, ast.Slice) and s.lower is None and s.upper is None
            and isinstance(s.step, ast.UnaryOp) and isinstance(s.step.op, ast.USub) and _int(s.step.operand) == 1)


# ----------------------------------------------------------------------------
# hosvd.py
# ----------------------------------------------------------------------------
def read_hosvd(src):
    """-> dict of definitions (strings / ints) and the list of lost anchors"""
    out, lost = {}, []
    mod = ast.parse(src)
    try:
        fn = _fn(mod, "hosvd")
    except Lost as e:
        return out, [str(e)]

    def attempt(name, f):
        try:
            f()
        except Lost as e:
            lost.append(str(e))
        except Exception as e:  # noqa: BLE001
            lost.append(f"{name}: {type(e).__name__}: {e}")

    def normxsqr():
        # the sum of the squares of the data CONVERTED TO DOUBLE (2517f75): `(input_tensor**2).collapse()` wrapped
        # around for integer-typed data, which the exact-arithmetic model `normSq` does not do — only the
        # floating point form is accepted
        st = _one_assign(fn, "normxsqr")
        v = st.value
        ok = (isinstance(v, ast.Call) and not v.args and not v.keywords and isinstance(v.func, ast.Attribute)
              and v.func.attr == "collapse" and isinstance(v.func.value, ast.BinOp)
              and isinstance(v.func.value.op, ast.Pow) and _int(v.func.value.right) == 2)
        if ok:
            base = v.func.value.left
            ok = (isinstance(base, ast.Call) and ast.unparse(base.func) == "ttb.tensor" and len(base.args) == 1
                  and ast.unparse(base.args[0]) == "input_tensor.double()"
                  and all(k.arg == "copy" for k in base.keywords))
        if not ok:
            raise Lost("normxsqr: expected `(ttb.tensor(input_tensor.double(), copy=False) ** 2).collapse()`, "
                       f"found `{ast.unparse(v)}`")
        out["normxsqr_line"] = st.lineno

    def eigsumthresh():
        st = _one_assign(fn, "eigsumthresh")
        t = ExprTr("eigsumthresh")
        body = t.tr(st.value)
        if set(t.params) - {"tol", "normxsqr", "d"}:
            raise Lost(f"eigsumthresh: unexpected free names {t.params}")
        out["eigsumthresh"] = (body, st.lineno, ast.unparse(st.value))
        out["eigsumthresh_params"] = t.params

    def descending():
        st = _one_assign(fn, "pi", "descending")
        v = st.value
        ok = (isinstance(v, ast.Call) and _call_name(v.func) == "argsort" and len(v.args) == 1
              and isinstance(v.args[0], ast.UnaryOp) and isinstance(v.args[0].op, ast.USub)
              and isinstance(v.args[0].operand, ast.Name) and v.args[0].operand.id == "D")
        if not ok:
            raise Lost(f"descending: expected `pi = np.argsort(-D, ...)`, found `{ast.unparse(v)}`")
        st2 = _one_assign(fn, "eigvec", "descending")
        if not _is_sub(st2.value, "D", "pi"):
            raise Lost(f"descending: expected `eigvec = D[pi]`, found `{ast.unparse(st2.value)}`")

    auto_if = {}

    def rank_is_auto():
        for st in _walk_stmts(fn.body):
            if isinstance(st, ast.If) and isinstance(st.test, ast.Compare) and len(st.test.ops) == 1 \
                    and isinstance(st.test.ops[0], ast.Eq) and _is_sub(st.test.left, "ranks", "k"):
                c = _int(st.test.comparators[0])
                if c is None or c < 0:
                    break
                out["auto_marker"] = (c, st.lineno, ast.unparse(st.test))
                auto_if["node"] = st
                return
        raise Lost("rank_is_auto: `if ranks[k] == <int>:` not found")

    def eigsum():
        node = auto_if.get("node")
        if node is None:
            raise Lost("eigsum: enclosing `if ranks[k] == ...` not found")
        a = [st for st in node.body if isinstance(st, ast.Assign) and len(st.targets) == 1
             and isinstance(st.targets[0], ast.Name) and st.targets[0].id == "eigsum"]
        if len(a) != 2:
            raise Lost(f"eigsum: expected two assignments to eigsum, found {len(a)}")
        v = a[0].value
        ok1 = (isinstance(v, ast.Call) and _call_name(v.func) == "cumsum" and len(v.args) == 1
               and not v.keywords and _is_reversed(v.args[0], "eigvec"))
        ok2 = _is_reversed(a[1].value, "eigsum")
        if not (ok1 and ok2):
            raise Lost("eigsum: expected `np.cumsum(eigvec[::-1])` followed by `eigsum[::-1]`")
        out["eigsum_line"] = a[0].lineno

    def rank_cut():
        node = auto_if.get("node")
        if node is None:
            raise Lost("rank_cut: enclosing `if ranks[k] == ...` not found")
        cand = [st for st in node.body if isinstance(st, ast.Assign) and len(st.targets) == 1
                and _is_sub(st.targets[0], "ranks", "k")]
        if len(cand) != 1:
            raise Lost(f"rank_cut: expected one assignment to ranks[k], found {len(cand)}")
        st = cand[0]

        def is_last_where(n):
            # np.where(<cmp>)[0][-1]
            if not (isinstance(n, ast.Subscript) and isinstance(n.slice, ast.UnaryOp)
                    and isinstance(n.slice.op, ast.USub) and _int(n.slice.operand) == 1):
                return False
            n = n.value
            if not (isinstance(n, ast.Subscript) and _int(n.slice) == 0):
                return False
            n = n.value
            return (isinstance(n, ast.Call) and _call_name(n.func) == "where" and len(n.args) == 1
                    and not n.keywords and isinstance(n.args[0], ast.Compare) and len(n.args[0].ops) == 1)

        off = _plus_const(st.value, is_last_where)
        if off is None or off < 0:
            raise Lost(f"rank_cut: expected `np.where(eigsum <cmp> eigsumthresh)[0][-1] [+ c]`, found `{ast.unparse(st.value)}`")
        base = st.value if off == 0 else st.value.left
        cmp_node = base.value.value.args[0]
        t = ExprTr("rank_cut", rename={"eigsum": "e"})
        cond = t.tr(cmp_node)
        if set(t.params) != {"e", "eigsumthresh"}:
            raise Lost(f"rank_cut: the condition must compare eigsum with eigsumthresh, found `{ast.unparse(cmp_node)}`")
        out["rank_cut"] = (cond, off, st.lineno, ast.unparse(st.value))

    def slice_bound():
        cand = [st for st in _walk_stmts(fn.body) if isinstance(st, ast.Assign) and len(st.targets) == 1
                and _is_sub(st.targets[0], "factor_matrices", "k")]
        if len(cand) != 1:
            raise Lost(f"slice_bound: expected one assignment to factor_matrices[k], found {len(cand)}")
        st = cand[0]
        v = st.value
        # V[:, pi[lo:hi]]
        ok = (isinstance(v, ast.Subscript) and isinstance(v.value, ast.Name) and v.value.id == "V"
              and isinstance(v.slice, ast.Tuple) and len(v.slice.elts) == 2
              and isinstance(v.slice.elts[0], ast.Slice) and v.slice.elts[0].lower is None
              and v.slice.elts[0].upper is None and v.slice.elts[0].step is None)
        if ok:
            p = v.slice.elts[1]
            ok = (isinstance(p, ast.Subscript) and isinstance(p.value, ast.Name) and p.value.id == "pi"
                  and isinstance(p.slice, ast.Slice) and p.slice.step is None
                  and (p.slice.lower is None or _int(p.slice.lower) == 0) and p.slice.upper is not None)
        if not ok:
            raise Lost(f"slice_bound: expected `V[:, pi[0 : ranks[k] [+ c]]]`, found `{ast.unparse(v)}`")
        off = _plus_const(p.slice.upper, lambda n: _is_sub(n, "ranks", "k"))
        if off is None or off < 0:
            raise Lost(f"slice_bound: unsupported upper bound `{ast.unparse(p.slice.upper)}`")
        out["slice_bound"] = (off, st.lineno, ast.unparse(v))

    def shrink_core():
        src_fn = ast.unparse(fn)
        for needle, what in (("Y = Y.ttm(factor_matrices[k].transpose(), int(k))", "shrink"),
                             ("G = Y.ttm(factor_matrices, transpose=True)", "core (non-sequential)"),
                             ("G = Y\n", "core (sequential)"),
                             ("if sequential:", "sequential switch"),
                             ("for k in dimorder:", "mode loop")):
            if needle not in src_fn:
                raise Lost(f"shrink/core: `{needle.strip()}` ({what}) not found")

    for name, f in (("normxsqr", normxsqr), ("eigsumthresh", eigsumthresh), ("descending", descending),
                    ("rank_is_auto", rank_is_auto), ("eigsum", eigsum), ("rank_cut", rank_cut),
                    ("slice_bound", slice_bound), ("shrink/core", shrink_core)):
        attempt(name, f)
    return out, lost


# ----------------------------------------------------------------------------
# tucker_als.py
# ----------------------------------------------------------------------------
def read_tucker(src):
    out, lost = {}, []
    mod = ast.parse(src)
    try:
        fn = _fn(mod, "tucker_als")
    except Lost as e:
        return out, [str(e)]

    def attempt(name, f):
        try:
            f()
        except Lost as e:
            lost.append(str(e))
        except Exception as e:  # noqa: BLE001
            lost.append(f"{name}: {type(e).__name__}: {e}")

    def normx():
        st = _one_assign(fn, "normX")
        if ast.unparse(st.value) != "input_tensor.norm()":
            raise Lost(f"normX: expected `input_tensor.norm()`, found `{ast.unparse(st.value)}`")

    def formula(name, allowed):
        def go():
            st = _one_assign(fn, name)
            t = ExprTr(name)
            body = t.tr(st.value)
            if set(t.params) - set(allowed):
                raise Lost(f"{name}: unexpected free names {t.params}")
            out[name] = (body, t.params, st.lineno, ast.unparse(st.value))
        return go

    def fit():
        # `fit = 0` initialises; the formula is the other assignment
        a = [st for st in _assigns(fn, "fit") if _int(st.value) is None]
        if len(a) != 1:
            raise Lost(f"fit: expected one formula assignment, found {len(a)}")
        init = [st for st in _assigns(fn, "fit") if _int(st.value) is not None]
        if len(init) != 1 or _int(init[0].value) != 0:
            raise Lost("fit: expected the initialisation `fit = 0`")
        t = ExprTr("fit")
        body = t.tr(a[0].value)
        if set(t.params) - {"normresidual", "normX"}:
            raise Lost(f"fit: unexpected free names {t.params}")
        out["fit"] = (body, t.params, a[0].lineno, ast.unparse(a[0].value))

    def stop():
        for st in _walk_stmts(fn.body):
            if isinstance(st, ast.If) and len(st.body) == 1 and isinstance(st.body[0], ast.Break) and not st.orelse:
                t = ExprTr("stop")
                body = t.tr(st.test)
                if set(t.params) != {"fitchange", "stoptol"}:
                    raise Lost(f"stop: expected a comparison of fitchange and stoptol, found `{ast.unparse(st.test)}`")
                out["stop"] = (body, ["fitchange", "stoptol"], st.lineno, ast.unparse(st.test))
                return
        raise Lost("stop: `if <test>: break` not found")

    def iters():
        for node in ast.walk(fn):
            if isinstance(node, ast.Dict):
                for k, v in zip(node.keys, node.values):
                    if isinstance(k, ast.Constant) and k.value == "iters":
                        off = _plus_const(v, lambda n: isinstance(n, ast.Name) and n.id == "iteration")
                        if off is None or off < 0:
                            raise Lost(f"iters: unsupported value `{ast.unparse(v)}`")
                        out["iters"] = (off, v.lineno, ast.unparse(v))
                        return
        raise Lost('iters: `"iters": iteration [+ c]` not found')

    def loop():
        src_fn = ast.unparse(fn)
        for needle in ("for iteration in range(maxiters):", "fitold = fit", "for n in dimorder:",
                       "Utilde = input_tensor.ttm(U, exclude_dims=n, transpose=True)",
                       "U[n] = Utilde.nvecs(n, rank[n])", "core = Utilde.ttm(U, n, transpose=True)"):
            if needle not in src_fn:
                raise Lost(f"loop: `{needle}` not found")

    for name, f in (("normX", normx),
                    ("normresidual", formula("normresidual", ["normX", "normCore"])),
                    ("fit", fit),
                    ("fitchange", formula("fitchange", ["fitold", "fit"])),
                    ("stop", stop), ("iters", iters), ("loop", loop)):
        attempt(name, f)
    return out, lost


# ----------------------------------------------------------------------------
# Lean text
# ----------------------------------------------------------------------------
HEADER = """/- GENERATED by harness/translate/gen_tucker.py from pyttb/hosvd.py and pyttb/tucker_als.py
   of the current working tree.  Definitions only.  Do not edit. -/
import PyttbModel.Alg.TuckerNum
namespace Pyttb.Tk.Gen

variable {α : Type} [Add α] [Sub α] [Mul α] [Zero α] [One α]
"""


def _def(name, params, ret, body, doc, int_params=()):
    ps = " ".join(f"({p} : {'Nat' if p in int_params else 'α'})" for p in params)
    return f"/-- {doc} -/\ndef {name} (ops : NumOps α) {ps} : {ret} :=\n  {body}\n"


def render(h, t):
    parts = [HEADER]
    body, line, srcs = h["eigsumthresh"]
    parts.append(_def("eigsumthresh", h["eigsumthresh_params"], "α", body,
                      f"hosvd.py:{line}  `eigsumthresh = {srcs}`"))
    c, line, srcs = h["auto_marker"]
    parts.append(f"/-- hosvd.py:{line}  `if {srcs}:` — the rank of a mode is chosen automatically when the\n"
                 f"requested rank is this value. -/\ndef autoMarker : Nat := {c}\n")
    parts.append(f"/-- hosvd.py:{h['eigsum_line']}  `eigsum = np.cumsum(eigvec[::-1])`, `eigsum = eigsum[::-1]` -/\n"
                 "def eigsum (eigvec : List α) : List α := revCumsum eigvec\n")
    cond, off, line, srcs = h["rank_cut"]
    parts.append(f"/-- hosvd.py:{line}  `ranks[k] = {srcs}`: the condition tested on every entry `e` of `eigsum`. -/\n"
                 f"def cutCond (ops : NumOps α) (eigsumthresh : α) (e : α) : Bool :=\n  {cond}\n")
    parts.append(f"/-- hosvd.py:{line}  what is added to the last qualifying position. -/\n"
                 f"def cutOffset : Nat := {off}\n")
    parts.append(f"/-- hosvd.py:{line}  `ranks[k] = {srcs}`; `none` where NumPy raises. -/\n"
                 "def rankCut (ops : NumOps α) (eigsum : List α) (eigsumthresh : α) : Option Nat :=\n"
                 "  (lastIdxWhere (cutCond ops eigsumthresh) eigsum).map (· + cutOffset)\n")
    off, line, srcs = h["slice_bound"]
    parts.append(f"/-- hosvd.py:{line}  `factor_matrices[k] = {srcs}`: number of leading entries of `pi` kept,\n"
                 f"for automatic and for user-given ranks alike. -/\ndef sliceBound (rank : Nat) : Nat := rank + {off}\n")
    for name in ("normresidual", "fit", "fitchange"):
        body, params, line, srcs = t[name]
        parts.append(_def(name, params, "α", body, f"tucker_als.py:{line}  `{name} = {srcs}`"))
    body, params, line, srcs = t["stop"]
    parts.append(_def("stopTest", params, "Bool", body, f"tucker_als.py:{line}  `if {srcs}: break`"))
    off, line, srcs = t["iters"]
    parts.append(f"/-- tucker_als.py:{line}  `\"iters\": {srcs}` with `iteration` the 0-based loop index. -/\n"
                 f"def itersReported (iteration : Nat) : Nat := iteration + {off}\n")
    parts.append("end Pyttb.Tk.Gen\n")
    return "\n".join(parts)


def build():
    """-> (lean text | None, lost anchors, description)"""
    lost = []
    try:
        hs = (REPO / "pyttb" / "hosvd.py").read_text()
        ts = (REPO / "pyttb" / "tucker_als.py").read_text()
    except OSError as e:
        return None, [f"source file: {e}"], {}
    try:
        h, l1 = read_hosvd(hs)
    except SyntaxError as e:
        h, l1 = {}, [f"hosvd.py: syntax error {e}"]
    try:
        t, l2 = read_tucker(ts)
    except SyntaxError as e:
        t, l2 = {}, [f"tucker_als.py: syntax error {e}"]
    lost = l1 + l2
    need_h = ("eigsumthresh", "auto_marker", "eigsum_line", "rank_cut", "slice_bound")
    need_t = ("normresidual", "fit", "fitchange", "stop", "iters")
    desc = {"hosvd": {k: (list(v) if isinstance(v, tuple) else v) for k, v in h.items()},
            "tucker_als": {k: (list(v) if isinstance(v, tuple) else v) for k, v in t.items()}}
    if any(k not in h for k in need_h) or any(k not in t for k in need_t):
        return None, lost or ["gen_tucker: incomplete reading"], desc
    return render(h, t), lost, desc


def sources():
    """The anchored Python expressions (for the cross-check of the translator's reading)."""
    h, _ = read_hosvd((REPO / "pyttb" / "hosvd.py").read_text())
    t, _ = read_tucker((REPO / "pyttb" / "tucker_als.py").read_text())
    return h, t


def run(prop: str, info: dict):
    text, lost, desc = build()
    info.setdefault("translators", {})["gen_tucker"] = {"lost": lost, **desc}
    if text is not None:
        OUT.parent.mkdir(parents=True, exist_ok=True)
        if not OUT.exists() or OUT.read_text() != text:
            OUT.write_text(text)
    return [f"gen_tucker: {a}" for a in lost]
