"""Symbolic reading of a Python function: the data flow behind the translators' anchors.

The three formula translators (gen_cpals, gen_tucker, gen_cpapr) used to find an anchor by its POSITION: "the
assignment to the variable called `fit` in the else branch of the `if` that tests `normX`".  A harmless refactoring
(a helper function, a renamed local, `a if c else b`, an early return, a boolean instead of a 0/1 flag) moves or
renames the statement and the anchor was lost.  This module reads a function SEMANTICALLY instead: it executes the
body symbolically and records, for every variable, the EXPRESSION that reaches it, in terms of

  * the function's parameters and the module's globals (plain names),
  * the results of calls it cannot look into (kept as the call expression, arguments expanded),
  * symbols for values it does not follow: `x@in3` = the value of `x` when the body of loop 3 starts, `x@out3` = the
    value of `x` after loop 3, `x@m7` = the object `x` after the 7th in-place change, `x@v9` = an expression that
    grew too large to be carried along.

So after

    normcore = core.norm()
    nr, fit = _fit_and_residual(normX, normcore)          # a module-level helper with an early return

the value of `fit` is `nr0 if normX == 0 else 1 - np.sqrt(...) / normX`, whatever the locals are called and wherever
the formula is written.  What is done:

  assignments         `x = e` binds x to e with every local replaced by its value; tuple targets are matched with
                      tuple values element by element (also through `a if c else b`); `x op= e` is `x = x op e`
  if / else           both branches are executed; a variable whose values differ becomes `a if test else b`;
                      a branch that ends in return / break / continue / raise does not take part in the merge and its
                      test (negated) becomes part of the PATH CONDITION of everything that follows
  return              the function's value is the chain `v1 if pc1 else (v2 if pc2 else ...)` of its returns
  helper calls        a call of a module-level function that is small (no `while`, at most INLINE_MAX statements) and
                      is not one of the translator's own root functions is executed in place, parameters bound to the
                      (expanded) arguments: its assignments, in-place changes and loops are logged in the caller's
                      region (so an anchored statement that moved into a helper is still found), its value is used
  loops               the body is executed once as a REGION of its own: every name the body assigns or changes in place
                      starts as `x@in<k>`; the region records the values at the end of the body (`end_env`, merged over
                      `continue`s), the path condition of every `break`, and all logged statements; after the loop the
                      names are `x@out<k>`
  in-place changes    `x[i] = e`, `x.a = e`, `x[i] op= e`, statement calls `x.method(...)`: logged as EFFECTS with the
                      target, the value and the path condition; afterwards `x` is a new symbol `x@m<k>`
  everything else     (with, try, assert, nested defs, ...) is walked conservatively; nothing is guessed: a construct the
                      module does not understand leaves an opaque symbol, and the translator that needed the value
                      reports the anchor as lost

Nothing here decides what a formula MEANS: the translators take the expressions found this way, replace the agreed
inputs by parameter names (`fold`) and translate the result with their small expression translators exactly as
before.  A harmful change therefore still changes the generated definition (or is outside the accepted subset and the
anchor is lost); it is never read as the pinned formula, because the expression that reaches the reported value IS
what the code computes.
"""
from __future__ import annotations

import ast
import copy
import re

SEP = "@"
INLINE_MAX = 24        # statements of a helper that is executed in place
MAX_NODES = 700        # an expression larger than this is replaced by an opaque symbol when it is bound to a name
MAX_DEPTH = 4          # nesting of helper calls


# ----------------------------------------------------------------------------
# small expression utilities
# ----------------------------------------------------------------------------
def base(ident: str) -> str:
    return ident.split(SEP)[0]


def text(node) -> str:
    return ast.unparse(node)


_VER = re.compile(r"@[A-Za-z0-9_]+")


def plain(node_or_text) -> str:
    """Source text with the version marks of the symbols removed."""
    s = node_or_text if isinstance(node_or_text, str) else ast.unparse(node_or_text)
    return _VER.sub("", s)


def size(node) -> int:
    return sum(1 for _ in ast.walk(node))


def src_of(node, default=None):
    """The source snippet the value came from (set when it was assigned), else `default`."""
    return getattr(node, "_src", None) or default


def mk_not(e):
    if isinstance(e, ast.UnaryOp) and isinstance(e.op, ast.Not):
        return copy.deepcopy(e.operand)
    return ast.UnaryOp(op=ast.Not(), operand=copy.deepcopy(e))


def conj(conds):
    """Conjunction of a list of conditions (None when the list is empty)."""
    flat = []
    for c in conds:
        if isinstance(c, ast.BoolOp) and isinstance(c.op, ast.And):
            flat += c.values
        elif isinstance(c, ast.Constant) and c.value is True:
            continue
        else:
            flat.append(c)
    if not flat:
        return None
    if len(flat) == 1:
        return flat[0]
    return ast.BoolOp(op=ast.And(), values=[copy.deepcopy(c) for c in flat])


def _const(node):
    return isinstance(node, ast.Constant) and isinstance(node.value, (bool, int, float)) and True


def simplify(e, assume=()):
    """Boolean / conditional simplification that does not change the value:
    `not not x`, `x if c else x`, `True if c else False`, `(k1 if c else k2) == k`, `bool(x)` where a truth value is
    wanted, a conditional whose test (or its negation) is among `assume` or is the test of an enclosing conditional
    (`(a if c else b) if c else d` is `a if c else d`); `a if not c else b` is written `b if c else a`, `a if x != y else b` is written
    `b if x == y else a`."""

    def truth(n, known):
        """n in a position where only its truth value matters"""
        n = go(n, known)
        while isinstance(n, ast.Call) and isinstance(n.func, ast.Name) and n.func.id == "bool" and len(n.args) == 1 \
                and not n.keywords:
            n = n.args[0]
        return n

    def go(n, known):
        if isinstance(n, ast.UnaryOp) and isinstance(n.op, ast.Not):
            x = truth(n.operand, known)
            if isinstance(x, ast.UnaryOp) and isinstance(x.op, ast.Not):
                return truth(x.operand, known)
            if isinstance(x, ast.Constant) and isinstance(x.value, bool):
                return ast.Constant(value=not x.value)
            return ast.UnaryOp(op=ast.Not(), operand=x)
        if isinstance(n, ast.BoolOp):
            vals = [truth(v, known) for v in n.values]
            is_and = isinstance(n.op, ast.And)
            out = []
            for v in vals:
                if isinstance(v, ast.Constant) and isinstance(v.value, bool):
                    if v.value == is_and:
                        continue          # neutral element
                    return ast.Constant(value=not is_and)
                out.append(v)
            if not out:
                return ast.Constant(value=is_and)
            if len(out) == 1:
                return out[0]
            return ast.BoolOp(op=n.op, values=out)
        if isinstance(n, ast.IfExp):
            t = truth(n.test, known)
            tt, nt = text(t), text(mk_not(t))
            if tt in known:
                return go(n.body, known)
            if nt in known:
                return go(n.orelse, known)
            if isinstance(t, ast.Constant) and isinstance(t.value, bool):
                return go(n.body, known) if t.value else go(n.orelse, known)
            a, b = go(n.body, known | {tt}), go(n.orelse, known | {nt})
            if text(a) == text(b):
                return a
            if isinstance(t, ast.UnaryOp) and isinstance(t.op, ast.Not):
                t, a, b = t.operand, b, a       # `a if not c else b` is `b if c else a`
            elif isinstance(t, ast.Compare) and len(t.ops) == 1 and isinstance(t.ops[0], ast.NotEq):
                t, a, b = ast.Compare(left=t.left, ops=[ast.Eq()], comparators=t.comparators), b, a   # x != y
            if isinstance(a, ast.Constant) and isinstance(b, ast.Constant) \
                    and isinstance(a.value, bool) and isinstance(b.value, bool):
                return t if a.value else go(ast.UnaryOp(op=ast.Not(), operand=t), known)
            r = ast.IfExp(test=t, body=a, orelse=b)
            if hasattr(n, "_src"):
                r._src = n._src
            return r
        if isinstance(n, ast.Compare) and len(n.ops) == 1 and isinstance(n.ops[0], (ast.Eq, ast.NotEq)):
            l, r = go(n.left, known), go(n.comparators[0], known)
            if isinstance(r, ast.IfExp) and isinstance(l, ast.Constant):
                l, r = r, l
            if isinstance(l, ast.IfExp) and isinstance(r, ast.Constant) and isinstance(l.body, ast.Constant) \
                    and isinstance(l.orelse, ast.Constant) and _const(r) and _const(l.body) and _const(l.orelse):
                eq = isinstance(n.ops[0], ast.Eq)
                ta = (l.body.value == r.value) == eq
                tb = (l.orelse.value == r.value) == eq
                if ta and tb:
                    return ast.Constant(value=True)
                if not ta and not tb:
                    return ast.Constant(value=False)
                return l.test if ta else go(ast.UnaryOp(op=ast.Not(), operand=l.test), known)
            return ast.Compare(left=l, ops=n.ops, comparators=[r])
        # generic descent
        n2 = copy.copy(n)
        for f, v in ast.iter_fields(n):
            if isinstance(v, ast.expr):
                setattr(n2, f, go(v, known))
            elif isinstance(v, list) and v and all(isinstance(x, ast.expr) for x in v):
                setattr(n2, f, [go(x, known) for x in v])
        return n2

    return truth(copy.deepcopy(e), frozenset(text(a) for a in assume))


def fold(e, leaves):
    """Replace every sub-expression whose text is a key of `leaves` by the name it maps to (outermost first)."""
    class F(ast.NodeTransformer):
        def visit(self, n):
            if isinstance(n, ast.expr):
                t = text(n)
                if t in leaves:
                    r = ast.Name(id=leaves[t], ctx=ast.Load())
                    return r
            return self.generic_visit(n)
    out = F().visit(copy.deepcopy(e))
    if hasattr(e, "_src") and not hasattr(out, "_src"):
        out._src = e._src
    return out


def fold_where(e, pred):
    """Replace every outermost sub-expression `n` for which `pred(n)` returns a name by that name."""
    class F(ast.NodeTransformer):
        def visit(self, n):
            if isinstance(n, ast.expr):
                r = pred(n)
                if r:
                    return ast.Name(id=r, ctx=ast.Load())
            return self.generic_visit(n)
    out = F().visit(copy.deepcopy(e))
    if hasattr(e, "_src") and not hasattr(out, "_src"):
        out._src = e._src
    return out


def names(e):
    return {n.id for n in ast.walk(e) if isinstance(n, ast.Name)}


def root_name(node):
    """`a.b[c].d` -> the Name node `a` (None when the chain does not start at a name)."""
    while isinstance(node, (ast.Attribute, ast.Subscript)):
        node = node.value
    return node if isinstance(node, ast.Name) else None


def proj(val, i, n=None):
    """The i-th component of a tuple-valued expression."""
    if isinstance(val, (ast.Tuple, ast.List)) and (n is None or len(val.elts) == n) and i < len(val.elts) \
            and not any(isinstance(x, ast.Starred) for x in val.elts):
        return copy.deepcopy(val.elts[i])
    if isinstance(val, ast.IfExp):
        r = ast.IfExp(test=copy.deepcopy(val.test), body=proj(val.body, i, n), orelse=proj(val.orelse, i, n))
        return r
    return ast.Subscript(value=copy.deepcopy(val), slice=ast.Constant(value=i), ctx=ast.Load())


def maximal_over(e, allowed, pure_call):
    """The maximal sub-expressions of `e` built from the names in `allowed` (at least one), numeric literals,
    arithmetic and the calls accepted by `pure_call(node)`; as a list without duplicates (by text)."""
    found = []

    def pure(n):
        """(is pure, contains an allowed name)"""
        if isinstance(n, ast.Name):
            return (n.id in allowed, n.id in allowed)
        if isinstance(n, ast.Constant):
            return (isinstance(n.value, (int, float)) and not isinstance(n.value, bool), False)
        if isinstance(n, ast.BinOp):
            a, b = pure(n.left), pure(n.right)
            ok = a[0] and b[0] and isinstance(n.op, (ast.Add, ast.Sub, ast.Mult, ast.Div, ast.Pow))
            if not ok:
                for sub, r in ((n.left, a), (n.right, b)):
                    if r[0] and r[1]:
                        found.append(sub)
            return (ok, a[1] or b[1])
        if isinstance(n, ast.UnaryOp) and isinstance(n.op, (ast.USub, ast.UAdd)):
            return pure(n.operand)
        if isinstance(n, ast.Call) and pure_call(n):
            rs = [pure(a) for a in n.args]
            ok = all(r[0] for r in rs)
            if not ok:
                for sub, r in zip(n.args, rs):
                    if r[0] and r[1]:
                        found.append(sub)
            return (ok, any(r[1] for r in rs))
        # not part of a pure expression: look inside
        descend(n)
        return (False, False)

    def descend(n):
        for c in ast.iter_child_nodes(n):
            if isinstance(c, ast.expr):
                r = pure(c)
                if r[0] and r[1]:
                    found.append(c)
            elif isinstance(c, (ast.keyword, ast.comprehension, ast.Slice)):
                descend(c)

    r = pure(e)
    if r[0] and r[1]:
        found.append(e)
    out, seen = [], set()
    for f in found:
        t = text(f)
        if t not in seen:
            seen.add(t)
            out.append(f)
    return out


# ----------------------------------------------------------------------------
# regions and log entries
# ----------------------------------------------------------------------------
class Entry:
    """One logged statement.
    kind    'assign' (name = value) | 'aug' (name op= operand) | 'effect' (target = value, target not a name) |
            'augeffect' (target op= value) | 'call' (statement call) | 'loop' (sub-region) | 'return'
    name    the variable (assign / aug) or the root variable of the target (effects; None if it has none)
    target  effects: the target with its ROOT left as the plain variable name and the rest expanded
    value   expanded value (aug: the operand; call: the call)
    pc      path condition (list of expanded tests) relative to the start of the ROOT function
    stmt    the ast statement;  via: names of the helpers through which the statement was reached
    env     the values of the variables right after the statement (shared, do not modify)
    """

    def __init__(self, kind, region, **kw):
        self.kind, self.region = kind, region
        self.name = self.target = self.value = self.op = self.stmt = self.sub = self.root_value = None
        self.pc, self.via = [], ()
        self.__dict__.update(kw)

    def rel_pc(self):
        return self.pc[self.region.pc0:]

    def __repr__(self):
        t = text(self.target) if self.target is not None else self.name
        v = text(self.value)[:70] if self.value is not None else ""
        return f"<{self.kind} {t} := {v} | pc={[text(c)[:30] for c in self.rel_pc()]} via={self.via}>"


class Region:
    def __init__(self, rid, kind, node, parent, pc0):
        self.id, self.kind, self.node, self.parent, self.pc0 = rid, kind, node, parent, pc0
        self.log = []
        self.pre_env = {}
        self.end_env = None       # values at the end of the body (None: the body never reaches its end)
        self.breaks = []          # [(relative pc, env)]
        self.continues = []
        self.returns = []         # function regions: [(relative pc, value)]
        self.targets = []         # loops: names bound by the `for` target
        self.iter = None          # loops: expanded iterable / test
        self.killed = set()
        self.result = None        # function regions: the value of the function

    # -- queries -------------------------------------------------------------
    def entries(self, kind=None, deep=False):
        """Logged entries of this region (in execution order); `deep` descends into the nested loops."""
        for e in self.log:
            if kind is None or e.kind == kind or (isinstance(kind, tuple) and e.kind in kind):
                yield e
            if deep and e.kind == "loop":
                yield from e.sub.entries(kind, True)

    def loops(self, deep=False):
        for e in self.entries("loop", deep):
            yield e.sub

    def end(self, name):
        if self.end_env is None:
            return None
        return self.end_env.get(name)


class _Frame:
    def __init__(self, fdef, pc0):
        self.fdef, self.pc0 = fdef, pc0
        a = fdef.args
        self.params = {p.arg for p in a.posonlyargs + a.args + a.kwonlyargs}
        self.returns = []
        self.locals = set(self.params)
        self.touched = []         # names bound or changed in place, in order (loops look at what their body touched)
        self.mutated_roots = set()  # root symbols of the objects changed in place (helpers: reported to the caller)


class _Cx:
    def __init__(self, region, loop, frame, via, depth):
        self.region, self.loop, self.frame, self.via, self.depth = region, loop, frame, via, depth

    def at(self, **kw):
        c = _Cx(self.region, self.loop, self.frame, self.via, self.depth)
        c.__dict__.update(kw)
        return c


class _State:
    def __init__(self, env, pc):
        self.env, self.pc = env, pc

    def fork(self, extra=None):
        return _State(dict(self.env), list(self.pc) + ([extra] if extra is not None else []))


def _assigned_names(stmts):
    """Names a block may bind or change in place (static over-approximation for the loop entry)."""
    out = set()

    def tgt(t):
        if isinstance(t, ast.Name):
            out.add(t.id)
        elif isinstance(t, (ast.Tuple, ast.List)):
            for x in t.elts:
                tgt(x)
        elif isinstance(t, ast.Starred):
            tgt(t.value)
        elif isinstance(t, (ast.Subscript, ast.Attribute)):
            r = root_name(t)
            if r is not None:
                out.add(r.id)

    for s in stmts:
        for n in ast.walk(s):
            if isinstance(n, ast.Assign):
                for t in n.targets:
                    tgt(t)
            elif isinstance(n, (ast.AugAssign, ast.AnnAssign)):
                tgt(n.target)
            elif isinstance(n, (ast.For, ast.AsyncFor)):
                tgt(n.target)
            elif isinstance(n, ast.NamedExpr):
                tgt(n.target)
            elif isinstance(n, ast.withitem) and n.optional_vars is not None:
                tgt(n.optional_vars)
            elif isinstance(n, ast.Expr) and isinstance(n.value, ast.Call) and isinstance(n.value.func, ast.Attribute):
                r = root_name(n.value.func.value)
                if r is not None:
                    out.add(r.id)
            elif isinstance(n, (ast.FunctionDef, ast.ClassDef)):
                out.add(n.name)
    return out


class Flow:
    """Symbolic execution of the module-level functions of one source file."""

    def __init__(self, source_or_tree, roots=(), inline_max=INLINE_MAX, max_nodes=MAX_NODES):
        self.tree = ast.parse(source_or_tree) if isinstance(source_or_tree, str) else source_or_tree
        self.funcs = {}
        for s in self.tree.body:
            if isinstance(s, ast.FunctionDef):
                if any(ast.unparse(d).endswith("overload") for d in s.decorator_list):
                    continue
                self.funcs[s.name] = s
        self.roots = set(roots)
        self.inline_max, self.max_nodes = inline_max, max_nodes
        self._n = 0
        self.syms = {}        # symbol id -> {"kind", "var", "region", "value"}
        self.regions = {}
        self.inlined = []     # names of the helpers executed in place (for the evidence)

    # -- symbols ---------------------------------------------------------------
    def _fresh(self):
        self._n += 1
        return self._n

    def _sym(self, var, kind, region=None, value=None, tag=None):
        ident = f"{base(var)}{SEP}{kind}{tag if tag is not None else self._fresh()}"
        self.syms[ident] = {"kind": kind, "var": base(var), "region": region, "value": value}
        return ast.Name(id=ident, ctx=ast.Load())

    def sym(self, ident):
        return self.syms.get(ident)

    def region_of(self, ident):
        """The loop region an `x@in<k>` / `x@out<k>` symbol belongs to."""
        s = self.syms.get(ident)
        return self.regions.get(s["region"]) if s and s.get("region") is not None else None

    def deref(self, e, depth=3):
        """Replace `x@out<k>` by the value of `x` at the end of the body of loop k, `x@v<k>` by the expression it
        stands for, `x@m<k>` by the object before the change (for shape comparisons)."""
        if depth <= 0:
            return e
        me = self

        class D(ast.NodeTransformer):
            def visit_Name(self, n):
                s = me.syms.get(n.id)
                if not s:
                    return n
                if s["kind"] == "out":
                    r = me.regions.get(s["region"])
                    v = r.end(s["var"]) if r is not None else None
                    if v is not None and text(v) != n.id:
                        return me.deref(copy.deepcopy(v), depth - 1)
                elif s["kind"] in ("v", "m") and s.get("value") is not None:
                    return me.deref(copy.deepcopy(s["value"]), depth - 1)
                return n
        return D().visit(copy.deepcopy(e))

    def unwrap(self, e):
        """An expression that is just an `x@v<k>` symbol -> the expression it stands for (outermost level only, so
        that sub-expressions keep the form in which they appear everywhere else)."""
        seen = 0
        while isinstance(e, ast.Name) and seen < 8:
            s = self.syms.get(e.id)
            if not (s and s["kind"] == "v" and s.get("value") is not None):
                break
            e = s["value"]
            seen += 1
        return e

    def uncap(self, e, budget=6000):
        """Replace the `x@v<k>` symbols (expressions that were too large to be carried along) by what they stand
        for, as long as the result stays below `budget` nodes."""
        me = self
        left = [budget - size(e)]

        class U(ast.NodeTransformer):
            def visit_Name(self, n):
                s = me.syms.get(n.id)
                if s and s["kind"] == "v" and s.get("value") is not None:
                    v = s["value"]
                    sz = size(v)
                    if sz <= left[0]:
                        left[0] -= sz
                        r = self.visit(copy.deepcopy(v))
                        return r
                return n
        return U().visit(copy.deepcopy(e))

    # -- entry point -------------------------------------------------------------
    def run(self, fname):
        """Execute function `fname`; returns its Region (KeyError when the function does not exist)."""
        fdef = self.funcs[fname]
        rid = self._fresh()
        region = Region(rid, "function", fdef, None, 0)
        self.regions[rid] = region
        frame = _Frame(fdef, 0)
        cx = _Cx(region, None, frame, (fname,), 0)
        st = _State({}, [])
        st = self._block(fdef.body, st, cx)
        if st is not None:
            frame.returns.append((list(st.pc), ast.Constant(value=None)))
            region.end_env = st.env
        region.returns = frame.returns
        region.result = self._result(frame.returns, 0)
        return region

    @staticmethod
    def _result(returns, pc0):
        if not returns:
            return None
        val = copy.deepcopy(returns[-1][1])
        for pc, v in reversed(returns[:-1]):
            c = conj(pc[pc0:])
            if c is None:
                val = copy.deepcopy(v)
            else:
                val = ast.IfExp(test=copy.deepcopy(c), body=copy.deepcopy(v), orelse=val)
        return val

    # -- expressions ---------------------------------------------------------------
    def expand(self, node, st, cx):
        me = self
        env = st.env

        class X(ast.NodeTransformer):
            def __init__(self):
                self.shadow = []

            def visit_Name(self, n):
                if isinstance(n.ctx, ast.Load) and n.id in env and not any(n.id in s for s in self.shadow):
                    return copy.deepcopy(env[n.id])
                return n

            def _scoped(self, n, gens):
                bound = set()
                for g in gens:
                    bound |= {x.id for x in ast.walk(g.target) if isinstance(x, ast.Name)}
                # the first iterable is evaluated outside the new scope; keep it simple: shadow everywhere
                self.shadow.append(bound)
                try:
                    return self.generic_visit(n)
                finally:
                    self.shadow.pop()

            def visit_ListComp(self, n):
                return self._scoped(n, n.generators)

            visit_SetComp = visit_GeneratorExp = visit_ListComp

            def visit_DictComp(self, n):
                return self._scoped(n, n.generators)

            def visit_Lambda(self, n):
                a = n.args
                bound = {p.arg for p in a.posonlyargs + a.args + a.kwonlyargs}
                if a.vararg:
                    bound.add(a.vararg.arg)
                if a.kwarg:
                    bound.add(a.kwarg.arg)
                self.shadow.append(bound)
                try:
                    return self.generic_visit(n)
                finally:
                    self.shadow.pop()

            def visit_JoinedStr(self, n):
                return n        # text for humans: not followed

            def visit_Call(self, n):
                raw_args = list(n.args)
                n = self.generic_visit(n)
                if isinstance(n.func, ast.Name) and n.func.id in me.funcs and not self.shadow \
                        and n.func.id not in env:
                    r = me._inline(me.funcs[n.func.id], n, raw_args, st, cx)
                    if r is not None:
                        return r
                return n

        return X().visit(copy.deepcopy(node))

    def _inlinable(self, fdef, cx):
        if fdef.name in self.roots or fdef.name in cx.via or cx.depth >= MAX_DEPTH:
            return False
        a = fdef.args
        if a.vararg or a.kwarg:
            return False
        n = 0
        for x in ast.walk(fdef):
            if isinstance(x, ast.stmt):
                n += 1
            if isinstance(x, (ast.While, ast.Try, ast.With, ast.Yield, ast.YieldFrom, ast.Global, ast.Nonlocal,
                              ast.AsyncFor, ast.Await)):
                return False
            if isinstance(x, (ast.FunctionDef, ast.ClassDef, ast.Lambda)) and x is not fdef:
                return False
        if n - 1 > self.inline_max:
            return False
        # returns only at the end of a branch of the body, never inside a loop
        for x in ast.walk(fdef):
            if isinstance(x, (ast.For,)):
                if any(isinstance(y, ast.Return) for y in ast.walk(x)):
                    return False
        return True

    def _inline(self, fdef, call, raw_args, st, cx):
        """Execute helper `fdef` in place.  `call` has its arguments expanded already.  Returns the value (an
        expression) or None when the helper is not executed in place."""
        if not self._inlinable(fdef, cx):
            return None
        a = fdef.args
        params = [p.arg for p in a.posonlyargs + a.args]
        if len(call.args) > len(params) or any(isinstance(x, ast.Starred) for x in call.args) \
                or any(k.arg is None for k in call.keywords):
            return None
        henv = {}
        frame = _Frame(fdef, len(st.pc))
        for p, v in zip(params, call.args):
            henv[p] = v
        kwonly = [p.arg for p in a.kwonlyargs]
        for k in call.keywords:
            if k.arg in henv or k.arg not in params + kwonly:
                return None
            henv[k.arg] = k.value
        defaults = dict(zip(params[len(params) - len(a.defaults):], a.defaults))
        for p, d in zip(kwonly, a.kw_defaults):
            if d is not None:
                defaults[p] = d
        for p in params + kwonly:
            if p not in henv:
                if p not in defaults:
                    return None
                henv[p] = copy.deepcopy(defaults[p])
        hcx = _Cx(cx.region, None, frame, cx.via + (fdef.name,), cx.depth + 1)
        hst = _State(henv, list(st.pc))
        end = self._block(fdef.body, hst, hcx)
        if end is not None:
            frame.returns.append((list(end.pc), ast.Constant(value=None)))
        if fdef.name not in self.inlined:
            self.inlined.append(fdef.name)
        # objects of the caller that the helper changed in place
        for ident in frame.mutated_roots:
            self._mutated(ident, st, cx)
        val = self._result(frame.returns, frame.pc0)
        return val if val is not None else ast.Constant(value=None)

    # -- statements ------------------------------------------------------------------
    def _block(self, stmts, st, cx):
        for s in stmts:
            if st is None:
                return None
            st = self._stmt(s, st, cx)
        return st

    def _log(self, cx, kind, st, **kw):
        e = Entry(kind, cx.region, pc=list(st.pc), via=cx.via, env=dict(st.env), **kw)
        cx.region.log.append(e)
        return e

    def _bump(self, var, st, cx):
        """`var` names an object that was changed in place: from now on it is a new symbol."""
        old = st.env.get(var)
        if old is None:
            old = ast.Name(id=var, ctx=ast.Load())
        st.env[var] = self._sym(var, "m", value=old)
        cx.frame.locals.add(var)
        cx.frame.touched.append(var)

    def _mutated(self, ident, st, cx):
        """The object denoted by the symbol / plain name `ident` was changed in place: every variable of this frame
        that holds it gets a new symbol; the symbol is reported to the caller of this frame."""
        cx.frame.mutated_roots.add(ident)
        for v, val in list(st.env.items()):
            if isinstance(val, ast.Name) and val.id == ident:
                self._bump(v, st, cx)
        if SEP not in ident and ident not in st.env and ident in cx.frame.locals:
            self._bump(ident, st, cx)

    def _bind(self, target, val, st, cx, stmt):
        if isinstance(target, ast.Name):
            v = val
            if size(v) > self.max_nodes:
                s = self._sym(target.id, "v", value=v)
                if hasattr(v, "_src"):
                    s._src = v._src
                v = s
            st.env[target.id] = v
            cx.frame.locals.add(target.id)
            cx.frame.touched.append(target.id)
            self._log(cx, "assign", st, name=target.id, value=v, stmt=stmt)
        elif isinstance(target, (ast.Tuple, ast.List)):
            n = len(target.elts)
            for i, t in enumerate(target.elts):
                if isinstance(t, ast.Starred):
                    self._bind(t.value, self._sym("star", "u"), st, cx, stmt)
                else:
                    p = proj(val, i, n)
                    if hasattr(val, "_src") and not hasattr(p, "_src"):
                        pass
                    self._bind(t, p, st, cx, stmt)
        elif isinstance(target, (ast.Subscript, ast.Attribute)):
            self._effect("effect", target, val, None, st, cx, stmt)

    def _effect(self, kind, target, val, op, st, cx, stmt):
        r = root_name(target)
        full = self.expand(target, st, cx)
        if r is not None:
            # root left as the plain variable, everything else expanded
            marker = "__root__"
            t2 = copy.deepcopy(target)
            root_name(t2).id = marker
            env2 = dict(st.env)
            env2.pop(marker, None)
            shown = self.expand(t2, _State(env2, st.pc), cx)
            root_name(shown).id = r.id
            root_val = st.env.get(r.id, ast.Name(id=r.id, ctx=ast.Load()))
        else:
            shown, root_val = full, None
        self._log(cx, kind, st, name=r.id if r is not None else None, target=shown, value=val, op=op, stmt=stmt,
                  root_value=copy.deepcopy(root_val) if root_val is not None else None, target_full=full)
        self._changed_in_place(r, full, st, cx)

    def _changed_in_place(self, r, full, st, cx):
        """`r` = root Name of the written target / the receiver as written, `full` = the same fully expanded."""
        fr = root_name(full)
        ident = fr.id if fr is not None else None
        if r is not None:
            cur = st.env.get(r.id)
            if not (isinstance(cur, ast.Name) and cur.id == ident):
                # the variable holds an expression (or nothing yet): it becomes a symbol of its own
                self._bump(r.id, st, cx)
        if ident is not None:
            self._mutated(ident, st, cx)

    def _stmt(self, s, st, cx):
        if isinstance(s, ast.Assign):
            val = self.expand(s.value, st, cx)
            val._src = ast.unparse(s.value)
            for t in s.targets:
                self._bind(t, val, st, cx, s)
            return st
        if isinstance(s, ast.AnnAssign):
            if s.value is not None:
                val = self.expand(s.value, st, cx)
                val._src = ast.unparse(s.value)
                self._bind(s.target, val, st, cx, s)
            return st
        if isinstance(s, ast.AugAssign):
            operand = self.expand(s.value, st, cx)
            operand._src = ast.unparse(s.value)
            if isinstance(s.target, ast.Name):
                old = self.expand(ast.Name(id=s.target.id, ctx=ast.Load()), st, cx)
                new = ast.BinOp(left=old, op=s.op, right=copy.deepcopy(operand))
                new._src = ast.unparse(s)
                if size(new) > self.max_nodes:
                    new = self._sym(s.target.id, "v", value=new)
                st.env[s.target.id] = new
                cx.frame.locals.add(s.target.id)
                cx.frame.touched.append(s.target.id)
                self._log(cx, "aug", st, name=s.target.id, value=operand, op=s.op, stmt=s, old=old, new=new)
            else:
                self._effect("augeffect", s.target, operand, s.op, st, cx, s)
            return st
        if isinstance(s, ast.Expr):
            if isinstance(s.value, ast.Call):
                val = self.expand(s.value, st, cx)
                self._log(cx, "call", st, value=val, stmt=s)
                f = s.value.func
                if isinstance(f, ast.Attribute):
                    r = root_name(f.value)
                    if r is not None and (r.id in st.env or r.id in cx.frame.locals):
                        self._changed_in_place(r, self.expand(f.value, st, cx), st, cx)
            return st
        if isinstance(s, ast.If):
            return self._if(s, st, cx)
        if isinstance(s, (ast.For, ast.While)):
            return self._loop(s, st, cx)
        if isinstance(s, ast.Return):
            val = self.expand(s.value, st, cx) if s.value is not None else ast.Constant(value=None)
            cx.frame.returns.append((list(st.pc), val))
            self._log(cx, "return", st, value=val, stmt=s)
            return None
        if isinstance(s, ast.Break):
            if cx.loop is not None:
                cx.loop.breaks.append((list(st.pc[cx.loop.pc0:]), dict(st.env)))
            return None
        if isinstance(s, ast.Continue):
            if cx.loop is not None:
                cx.loop.continues.append((list(st.pc[cx.loop.pc0:]), dict(st.env)))
            return None
        if isinstance(s, ast.Raise):
            return None
        if isinstance(s, ast.Assert):
            if isinstance(s.test, ast.Constant) and not s.test.value:
                return None
            return st
        if isinstance(s, ast.With):
            for it in s.items:
                if it.optional_vars is not None:
                    self._bind(it.optional_vars, self.expand(it.context_expr, st, cx), st, cx, s)
            return self._block(s.body, st, cx)
        if isinstance(s, ast.Try):
            before = dict(st.env)
            st = self._block(s.body, st, cx)
            touched = _assigned_names(s.body) | _assigned_names([h for h in s.handlers]) | _assigned_names(s.orelse)
            if st is None:
                st = _State(before, [])
            for v in touched:           # an exception may have interrupted the body anywhere
                st.env[v] = self._sym(v, "u")
            st = self._block(s.orelse, st, cx) if s.orelse else st
            if st is not None and s.finalbody:
                st = self._block(s.finalbody, st, cx)
            return st
        if isinstance(s, (ast.FunctionDef, ast.ClassDef)):
            st.env[s.name] = self._sym(s.name, "u")
            return st
        if isinstance(s, ast.Delete):
            for t in s.targets:
                if isinstance(t, ast.Name):
                    st.env[t.id] = self._sym(t.id, "u")
            return st
        # pass, import, global, nonlocal, match, ...: names bound there become unknown
        for v in _assigned_names([s]):
            st.env[v] = self._sym(v, "u")
        return st

    def _if(self, s, st, cx):
        test = self.expand(s.test, st, cx)
        test._src = ast.unparse(s.test)
        neg = mk_not(test)
        n0 = len(st.pc)
        sa = self._block(s.body, st.fork(test), cx)
        sb = self._block(s.orelse, st.fork(neg), cx)
        if sa is None and sb is None:
            return None
        if sa is None:
            return sb
        if sb is None:
            return sa
        # both continue: merge
        extra_a, extra_b = sa.pc[n0 + 1:], sb.pc[n0 + 1:]
        pc = list(st.pc)
        if extra_a or extra_b:
            # part of a branch ended early: what follows runs under (test and extra_a) or (not test and extra_b)
            ca, cb = conj([test] + extra_a), conj([neg] + extra_b)
            pc.append(ast.BoolOp(op=ast.Or(), values=[copy.deepcopy(ca), copy.deepcopy(cb)]))
        env = {}
        for k in list(sa.env) + [k for k in sb.env if k not in sa.env]:
            va, vb = sa.env.get(k), sb.env.get(k)
            if va is None:
                va = ast.Name(id=k, ctx=ast.Load()) if k in cx.frame.params else self._sym(k, "undef", tag="")
            if vb is None:
                vb = ast.Name(id=k, ctx=ast.Load()) if k in cx.frame.params else self._sym(k, "undef", tag="")
            if va is vb or text(va) == text(vb):
                env[k] = va
            elif isinstance(va, ast.Name) and isinstance(vb, ast.Name) and base(va.id) == base(vb.id) == k \
                    and "m" in (self.syms.get(va.id, {}).get("kind"), self.syms.get(vb.id, {}).get("kind")):
                # the same object, changed in place on one side only: still that object, changed
                env[k] = self._sym(k, "m", value=ast.IfExp(test=copy.deepcopy(test), body=va, orelse=vb))
            else:
                m = ast.IfExp(test=copy.deepcopy(test), body=copy.deepcopy(va), orelse=copy.deepcopy(vb))
                if size(m) > self.max_nodes:
                    m = self._sym(k, "v", value=m)
                env[k] = m
        return _State(env, pc)

    def _loop(self, s, st, cx):
        is_for = isinstance(s, ast.For)
        it = self.expand(s.iter, st, cx) if is_for else None
        kill = set(_assigned_names(s.body))
        if is_for:
            kill |= {n.id for n in ast.walk(s.target) if isinstance(n, ast.Name)}
        for attempt in range(3):
            rid = self._fresh()
            region = Region(rid, "loop", s, cx.region, len(st.pc))
            region.iter = it
            region.pre_env = dict(st.env)
            region.killed = set(kill)
            self.regions[rid] = region
            body = st.fork()
            for v in kill:
                body.env[v] = self._sym(v, "in", region=rid, tag=rid)
            if is_for:
                region.targets = [n.id for n in ast.walk(s.target) if isinstance(n, ast.Name)]
            else:
                region.iter = self.expand(s.test, body, cx)     # the test sees the values of the current pass
            lcx = cx.at(region=region, loop=region)
            mark = (len(cx.frame.touched), len(cx.frame.returns), set(cx.frame.locals), set(cx.frame.mutated_roots))
            end = self._block(s.body, body, lcx)
            # names the body changed that the static scan did not see (helpers changing their arguments in place)
            extra = set(cx.frame.touched[mark[0]:]) - kill
            if extra and attempt < 2:
                kill |= extra
                del self.regions[rid]
                del cx.frame.touched[mark[0]:]
                del cx.frame.returns[mark[1]:]
                cx.frame.locals, cx.frame.mutated_roots = mark[2], mark[3]
                continue
            break
        ends = ([(end.pc[region.pc0:], end.env)] if end is not None else []) + list(region.continues)
        region.end_env = self._merge(ends, cx)
        cx.region.log.append(Entry("loop", cx.region, sub=region, stmt=s, pc=list(st.pc), via=cx.via))
        for v in kill:
            st.env[v] = self._sym(v, "out", region=rid, tag=rid)
            cx.frame.locals.add(v)
            cx.frame.touched.append(v)
        if s.orelse:
            st = self._block(s.orelse, st, cx)
        return st

    def _merge(self, ends, cx):
        if not ends:
            return None
        env = dict(ends[0][1])
        for pc, e2 in reversed(ends[1:]):
            c = conj(pc)
            for k in set(env) | set(e2):
                a = e2.get(k, ast.Name(id=k, ctx=ast.Load()))
                b = env.get(k, ast.Name(id=k, ctx=ast.Load()))
                if text(a) != text(b):
                    if c is None:
                        env[k] = a
                    else:
                        m = ast.IfExp(test=copy.deepcopy(c), body=copy.deepcopy(a), orelse=copy.deepcopy(b))
                        env[k] = m if size(m) <= self.max_nodes else self._sym(k, "v", value=m)
        return env


# ----------------------------------------------------------------------------
# helpers for the translators
# ----------------------------------------------------------------------------
def find_dict_with(region, keys):
    """The (expanded) dict displays logged in `region` that have all the string keys `keys`."""
    out = []
    for e in region.entries(("assign", "return", "effect")):
        for n in ast.walk(e.value):
            if isinstance(n, ast.Dict):
                ks = {k.value for k in n.keys if isinstance(k, ast.Constant) and isinstance(k.value, str)}
                if set(keys) <= ks:
                    out.append(n)
    return out


def dict_get(d, key):
    for k, v in zip(d.keys, d.values):
        if isinstance(k, ast.Constant) and k.value == key:
            return v
    return None


def ifexp_leaves(e):
    """Leaves of a tree of conditionals: [(list of (test, taken?) pairs, leaf)]."""
    if isinstance(e, ast.IfExp):
        return ([([(e.test, True)] + p, l) for p, l in ifexp_leaves(e.body)]
                + [([(e.test, False)] + p, l) for p, l in ifexp_leaves(e.orelse)])
    return [([], e)]


def split_sink(sink, F, rid):
    """A reported value `recomputed if <printing> else <value after loop rid>` -> (variable of the loop, [recomputed
    values]); (None, ...) when the reported value does not come from the loop."""
    def is_out(n):
        s = F.sym(n.id) if isinstance(n, ast.Name) else None
        return bool(s) and s["kind"] == "out" and s["region"] == rid

    def has_out(n):
        return any(is_out(leaf) for _, leaf in ifexp_leaves(n))

    recs = []
    while isinstance(sink, ast.IfExp):
        a, b = has_out(sink.body), has_out(sink.orelse)
        if a == b:
            return None, recs
        recs.append(sink.orelse if a else sink.body)
        sink = sink.body if a else sink.orelse
    if not is_out(sink):
        return None, recs
    return F.sym(sink.id)["var"], recs


def rename(e, mapping):
    """Copy of `e` with the version marks removed and the variables (by base name) renamed through `mapping`."""
    class Rn(ast.NodeTransformer):
        def visit_Name(self, n):
            b = base(n.id)
            return ast.Name(id=mapping.get(b, b), ctx=n.ctx)
    return Rn().visit(copy.deepcopy(e))


def param_leaves(env, fdef):
    """{text of the value a (re-assigned) parameter has in `env`: parameter name} — to show normalised arguments
    (`rank = parse_one_d(rank)`) under their own name again."""
    a = fdef.args
    out = {}
    for p in a.posonlyargs + a.args + a.kwonlyargs:
        v = env.get(p.arg)
        if v is not None and not isinstance(v, ast.Name):
            out[text(v)] = p.arg
    return out
