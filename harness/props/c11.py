"""C11 — CP-APR (MU, PDNR, PQNR): correspondence families.

Observation without touching /repo: the module-level name `tt_linesearch_prowsubprob` of
`pyttb.cp_apr` is replaced (and restored in `finally`) by a wrapper that records the search
direction each line search is given, keyed by the caller's loop variables (`iteration`, `n`,
`jj`, `i`, read from the caller's frame).  The model is then run at Float with those recorded
directions as its direction service, for iteration limits 1..k from one start, and compared
with what the implementation returned: decision fields exactly, numbers to 1e-9.
The helpers of cp_apr.py (`calculate_pi`, `calculate_phi`, `calc_partials`,
`tt_loglikelihood_row`, `tt_linesearch_prowsubprob`, `tt_loglikelihood`) and the ktensor
methods are also compared with the model one step at a time on generated inputs.
The property itself is recomputed on every run with numpy only.
Family `formulas` cross-checks the translator's reading of cp_apr.py: the generated Lean definitions at Float (driver
op `c11_formula`) against `eval` of the Python expressions the translator hands out.
"""
from __future__ import annotations

import contextlib
import io
import logging
import math
import struct
import sys
import warnings

import numpy as np
import pyttb as ttb

from harness.lib import Family, Verdict, call, drive

RULE = ("cases come from random.Random(VERIF_SEED). runs: count tensors of order 2..3 (4 in thorough) with extents "
        "1..4 drawn as Poisson variates of a planted non-negative Kruskal model (rates 0.3..6), plus hand-made "
        "ones with an empty slice, an all-zero fibre, a single non-zero; stored dense and sparse (sorted / "
        "shuffled); ranks 1..3; guesses uniform in [0.1,1] with exact zeros, all-zero rows, zero and non-unit "
        "weights; the three algorithms; iteration limits 1..3 from one start; inner limits 1..10; stoptol 1e-2 / "
        "1e-4 / 1e-6; precompinds and inexact on/off; lbfgsMem 1..5; epsActive 1e-8 (default) .. 10 and mu0 1e-5 (default) .. 10 "
        "(options of the direction services); every run is made with printitn 0 (reference, replayed by the "
        "model) and again with printitn 1 (the default), 2 and 3 with stdout / logging captured. steps: the helpers of cp_apr.py "
        "and the ktensor normalisations on random non-negative models with zeros. validation: valid and malformed "
        "requests with small exact values, every kind under every printing interval; guesses with one or two surplus rows or "
        "a missing row in the first / a middle / the last mode ENUMERATED over algorithm x dense / sparse, silent, 1 or 3 outer "
        "iterations; whatever is returned must have the data's shape and the requested rank. longruns: Poisson counts "
        "(constant rate 0.5 / 3 / 15 or planted) of order 2..3 with extents 2..5, rank 1..3, strictly positive guesses (3 of 4) "
        "or guesses with zero rows / entries / weights, 5 / 10 / 25 outer iterations, inner limits 5 / 10 / 20, stoptol 1e-4 / "
        "1e-6 / 1e-7 and the option space above; each on the dense and on the shuffled sparse storage of the same counts, sparse "
        "with precompinds on AND off (pdnr / pqnr); no model run. formulas: every generated scalar definition of Generated/CpAprFormulas.lean "
        "on points mixing 0, +-1, 1/2, quarters, tiny and random values (counts and positive model values for the "
        "log-likelihood terms), against the Python expression the translator read. A case is non-trivial when the implementation returns a model after at "
        "least one outer iteration (runs), the compared arrays are non-empty (steps), or the request is accepted "
        "(validation); distinct = distinct case hash")
ASSUMPTIONS = [
    "IEEE rounding is not modelled: the model is executed at Float with its own summation order; whole runs of "
    "<= 3 outer iterations are compared to relative 1e-9 (absolute 1e-12; KKT values, which are cancelled "
    "differences, additionally to absolute 1e-7), single steps likewise, decision fields (iterations, "
    "nInnerIters, nViolations) exactly. A Newton-variant run in which some line search made a comparison at "
    "rounding level (relative margin < 1e-9, recomputed from the recorded call with the implementation's own "
    "row objective) -- or which agrees with the model only to 1e-5 with identical decision fields -- is instead "
    "validated one line search at a time, each from the implementation's own recorded state (tags "
    "rounding-tie / amplified-rounding); the implementation itself changes its answer by up to 1e-5 under a "
    "1-ulp change of the guess in such runs. A MU run in which some KKT value the implementation compared with "
    "stoptol lies within relative 1e-9 of it (recorded at vectorize_for_mu; systematic when stoptol equals kappa, "
    "the amount the fix-up adds to an entry) and which then disagrees with the model is accepted on the property "
    "recomputed with numpy alone (tag rounding-tie)",
    "the search direction of PDNR / PQNR (get_search_dir_pdnr with its damping parameter, the L-BFGS bookkeeping "
    "and get_search_dir_pqnr) is a service: the theorems hold for every vector, the harness feeds the model the "
    "vectors the implementation used",
    "np.argsort of the final weights is a service returning a permutation; ties are compared up to the order of "
    "the tied components",
    "wall-clock stoptime, fnEvals / fnVals / nZeros / times and init='random' are not modelled; "
    "precompinds only selects how the same index sets are computed -- CHECKED on the implementation by the family "
    "longruns: on sparse data the runs with precompinds on and off return bitwise the same",
    "a call that RAISES is judged by the argument checks alone (driver op c11_validate_float on the very request): the "
    "model's run is scripted with the directions the implementation used before it raised and cannot return when the "
    "script ends early, so its not returning says nothing. A request the checks accept must be answered with a model "
    "(runs, validation, longruns); the only listed exception is the fatal L-BFGS assertion of pqnr, and only where "
    "the slot bookkeeping of the L-BFGS memory, replayed in the harness on the iterates the implementation itself "
    "produced for that row (pairs from the recorded line searches, gradients recomputed with numpy), is fatal at the "
    "same pair; raised elsewhere it is reported as a violation of its own",
    "epsActive and mu0 enter only the direction services (get_search_dir_pdnr / _pqnr and the damping update); they "
    "are passed to the implementation and do not appear in the model's configuration",
    "the model has no printing branch: what cp_apr returns (model, obj, kktViolations, nInnerIters, nViolations, "
    "iteration count) must not depend on printitn. This is CHECKED on the implementation for every run: the "
    "call is repeated with printitn 1, 2, 3 (output captured), must return / raise alike, satisfy the property "
    "recomputed with numpy (obj == Poisson log-likelihood of the returned model, ...) and agree with the "
    "printitn=0 run in the decision fields exactly and in every number to 1e-12. The helpers compared by the "
    "steps family take no printing option",
    "zero extents, 0-way tensors, maxiters = 0 and (pdnr/pqnr) maxinneriters = 0 are rejected by the model and "
    "not generated as valid inputs; a 1-way dense tensor and a sparse tensor without stored entry are rejections "
    "of the implementation (recorded D3/D4) and of the model",
    "C11_likelihood_monotone_* / C11_likelihood_not_worse assume the safeguards of the code inactive on the run; "
    "the harness records for every implementation run which safeguards were active (epsDivZero clamp met a "
    "denominator below eps or not positive; inadmissible-zero bump; zero-row patch; a zero column norm in "
    "ktensor.normalize) and checks on the runs where none was that the recomputed likelihood does not "
    "decrease from the guess to iteration 1 and from iteration k-1 to k; 'not less likely than the start' is "
    "checked on EVERY run regardless",
    "log is a parameter of the theorems: C11_objective_* say which sums the reported number is made of; that "
    "np.log is the natural logarithm is exercised only by the independent numpy recomputation",
]
EXHAUSTIVE = {"quick": False, "thorough": False}

C = sys.modules["pyttb.cp_apr"]
ALGS = ("mu", "pdnr", "pqnr")
REL, ABS = 1e-9, 1e-12
LBFGS_MSG = "L-BFGS first iterate is bad"


# ----------------------------------------------------------------------------
# floats across the pipe
# ----------------------------------------------------------------------------
def bits(x):
    return str(struct.unpack("<Q", struct.pack("<d", float(x)))[0])


def unbits(s):
    return struct.unpack("<d", struct.pack("<Q", int(s)))[0]


def bd(x):
    if isinstance(x, (list, tuple)):
        return [bd(v) for v in x]
    return bits(x)


def ub(x):
    if isinstance(x, list):
        return [ub(v) for v in x]
    return unbits(x)


def close(a, b, rel=REL):
    a, b = float(a), float(b)
    if a == b:
        return True
    if math.isnan(a) or math.isnan(b):
        return math.isnan(a) and math.isnan(b)
    if math.isinf(a) or math.isinf(b):
        return False
    return abs(a - b) <= rel * max(abs(a), abs(b)) + ABS


def close_deep(a, b, rel=REL):
    if isinstance(a, list) and isinstance(b, list):
        return len(a) == len(b) and all(close_deep(x, y, rel) for x, y in zip(a, b))
    if isinstance(a, list) or isinstance(b, list):
        return False
    return close(a, b, rel)


@contextlib.contextmanager
def quiet():
    """Everything the code prints or logs is captured and dropped (stdout, warnings, logging)."""
    prev = logging.root.manager.disable
    logging.disable(logging.CRITICAL)
    try:
        with warnings.catch_warnings(), np.errstate(all="ignore"), contextlib.redirect_stdout(io.StringIO()), \
                contextlib.redirect_stderr(io.StringIO()):
            warnings.simplefilter("ignore")
            yield
    finally:
        logging.disable(prev)


# ----------------------------------------------------------------------------
# building objects from a case
# ----------------------------------------------------------------------------
def mk_data(d):
    shape = tuple(d["shape"])
    if "subs" in d:
        if not d["subs"]:
            return ttb.sptensor(shape=shape)
        return ttb.sptensor(np.array(d["subs"], dtype=int), np.array(ub(d["vals"]), dtype=float).reshape(-1, 1),
                            shape)
    return ttb.tensor(np.array(ub(d["data"]), dtype=float).reshape(shape, order="F"), copy=True)


def mk_kt(k):
    R = len(k["weights"])
    return ttb.ktensor([np.array(ub(f), dtype=float).reshape(len(f), R) for f in k["factors"]],
                       np.array(ub(k["weights"]), dtype=float))


def kt_j(K):
    return {"weights": bd(np.asarray(K.weights, dtype=float).reshape(-1).tolist()),
            "factors": [bd(np.asarray(f, dtype=float).tolist()) for f in K.factor_matrices]}


def data_dense(d):
    shape = tuple(d["shape"])
    if "subs" in d:
        X = np.zeros(shape)
        for s, v in zip(d["subs"], ub(d["vals"])):
            X[tuple(s)] += v
        return X
    return np.array(ub(d["data"]), dtype=float).reshape(shape, order="F")


def full_np(weights, factors):
    """Dense array of a Kruskal model, by broadcasting (independent of ktensor.full)."""
    acc = np.asarray(weights, dtype=float).reshape(-1)
    for f in factors:
        acc = acc[..., None, :] * np.asarray(f, dtype=float)
    return acc.sum(axis=-1)


def loglik_np(X, weights, factors):
    """Sum_{x>0} x log m - Sum m."""
    m = full_np(weights, factors)
    pos = X != 0
    with np.errstate(all="ignore"):
        t = float(np.sum(X[pos] * np.log(m[pos]))) if pos.any() else 0.0
    return t - float(np.sum(m))


def snapshot(obj):
    if isinstance(obj, ttb.ktensor):
        return [np.asarray(obj.weights).tobytes()] + [np.asarray(f).tobytes() for f in obj.factor_matrices]
    if isinstance(obj, ttb.sptensor):
        return [np.asarray(obj.subs).tobytes(), np.asarray(obj.vals).tobytes(), tuple(obj.shape)]
    return [np.asarray(obj.data).tobytes(), tuple(obj.shape)]


def cfg_j(case, maxiters):
    o = case["opts"]
    return {"rank": case["rank"], "stoptol": bits(o["stoptol"]), "maxiters": maxiters,
            "maxinneriters": o["maxinneriters"], "epsDivZero": bits(o["epsDivZero"]), "kappa": bits(o["kappa"]),
            "kappatol": bits(o["kappatol"]), "inexact": bool(o["inexact"])}


PRINTITNS = (1, 2, 3)  # 1 is the default of cp_apr; 0 (silent) is the reference run


def kwargs_of(case, printitn=0):
    o = case["opts"]
    alg = case["alg"]
    kw = dict(stoptol=o["stoptol"], maxinneriters=o["maxinneriters"], epsDivZero=o["epsDivZero"],
              printitn=printitn, printinneritn=0)
    if alg == "mu":
        kw.update(kappa=o["kappa"], kappatol=o["kappatol"])
    elif alg == "pdnr":
        kw.update(precompinds=o["precompinds"], inexact=o["inexact"], epsActive=o.get("epsActive", 1e-8),
                  mu0=o.get("mu0", 1e-5))
    else:
        kw.update(precompinds=o["precompinds"], lbfgsMem=o["lbfgsMem"], epsActive=o.get("epsActive", 1e-8))
    return kw


# ----------------------------------------------------------------------------
# running the implementation with the direction recorder
# ----------------------------------------------------------------------------
def ls_margin(direction, grad, m_old, sparse, x, Pi):
    """Smallest relative margin of the comparisons `tt_linesearch_prowsubprob` makes on these inputs
    (descent test, small-sum tests, sufficient decrease, final `f_new > f_old`), recomputed with the
    implementation's own row objective.  A margin at rounding level means the outcome of the call is
    decided by rounding noise.  Exact zeros of `gDotd` (no movement) are not ties."""
    best = math.inf
    with np.errstate(all="ignore"):
        g = np.asarray(grad, dtype=float).reshape(-1)
        f_old = -C.tt_loglikelihood_row(sparse, x, m_old, Pi)
        step, count, f_new = 1.0, 1, math.inf
        while count <= 10:
            mn = m_old + step * direction
            mn = mn * (mn > 0)
            terms = g * (mn - m_old)
            gd = float(np.sum(terms))
            sm = float(np.sum(mn))
            if gd != 0:
                best = min(best, abs(gd) / (float(np.sum(np.abs(terms))) + 1e-300))
            best = min(best, abs(sm - 1e-7) / 1e-7)
            if gd > 0 or sm < 1e-7:
                f_new = math.inf
            else:
                f_new = float(-C.tt_loglikelihood_row(sparse, x, mn, Pi))
                rhs = f_old + 1e-4 * gd
                if math.isfinite(f_new) and math.isfinite(rhs):
                    best = min(best, abs(f_new - rhs) / max(1.0, abs(f_old)))
                if f_new <= rhs:
                    break
            step *= 0.5
            count += 1
        if count >= 10 and math.isfinite(f_new) and math.isfinite(f_old):
            best = min(best, abs(f_new - f_old) / max(1.0, abs(f_old)))
    return best


TIE = 1e-9


@contextlib.contextmanager
def recording(alg, rec, calls=None, margins=True, stoptol=None):
    orig = C.tt_linesearch_prowsubprob
    orig_vec = C.vectorize_for_mu
    primed = set()

    def wrap_vec(matrix):
        # MU compares `max |min(A, 1 - Phi)|` with stoptol after every update: the relative distance of that value
        # from stoptol is the margin of the decision (the bump adds kappa to an entry, so stoptol == kappa puts KKT
        # values within an ulp of the threshold by construction)
        r = orig_vec(matrix)
        if calls is not None and stoptol:
            with np.errstate(all="ignore"):
                v = float(np.max(np.abs(r))) if np.size(r) else 0.0
            calls.append({"key": None, "mu": True, "margin": abs(v - stoptol) / stoptol if math.isfinite(v) else math.inf,
                          "fallback": False, "evals": 0, "bcast": False})
        return r

    def wrap(direction, grad, model_old, step_len, step_red, max_steps, suff_decr, isSparse, data_row, Pi,
             phi_row, display_warning):
        f = sys._getframe(1).f_locals
        key = (int(f["iteration"]), int(f["n"]), int(f["jj"]), int(f["i"]))
        m_old = np.array(model_old, dtype=float).reshape(-1)
        R = int(m_old.shape[0])
        d = np.asarray(direction, dtype=float)
        d = np.full(R, float(d)) if d.ndim == 0 else np.array(np.broadcast_to(d.reshape(-1), (R,)))
        prime = alg == "pqnr" and key[3] == 0 and key not in primed
        if prime:
            primed.add(key)  # the gradient step that primes L-BFGS: the model computes it itself
        else:
            rec.append({"it": key[0], "n": key[1], "jj": key[2], "i": key[3], "d": bd(d.tolist())})
        if calls is not None:
            # noted BEFORE the call returns: a call that raises is still the last one of its row
            calls.append({"key": key, "prime": prime, "sparse": bool(isSparse),
                          "bcast": bool(np.asarray(direction).size != R),
                          "x": np.array(data_row, dtype=float).reshape(-1).tolist(),
                          "Pi": np.array(Pi, dtype=float).tolist(), "m": m_old.tolist(), "d": d.tolist(),
                          "grad": np.array(grad, dtype=float).reshape(-1).tolist(),
                          "phi": np.array(phi_row, dtype=float).reshape(-1).tolist(), "out": None,
                          "margin": math.inf, "evals": 0, "fallback": False})
        res = orig(direction, grad, model_old, step_len, step_red, max_steps, suff_decr, isSparse, data_row, Pi,
                   phi_row, display_warning)
        if calls is not None:
            calls[-1].update({"margin": ls_margin(d, grad, m_old, isSparse, data_row, Pi) if margins else math.inf,
                              "out": np.array(res[0], dtype=float).reshape(-1).tolist(),
                              "evals": int(res[4]),
                              "fallback": bool(np.array_equal(
                                  np.array(res[0], dtype=float).reshape(-1),
                                  (lambda t: t * (t > 0))(m_old * np.array(phi_row, dtype=float).reshape(-1))))})
        return res

    orig_phi = C.calculate_phi

    def wrap_phi(Data, Model, rank, factorIndex, Pi, epsilon):
        # the same margin observed one level up (the convergence test may be written without vectorize_for_mu): the
        # value MU compares with stoptol is max |min(A_n, 1 - Phi)| of the factor and the Phi just computed
        Phi = orig_phi(Data, Model, rank, factorIndex, Pi, epsilon)
        if calls is not None and stoptol:
            try:
                with np.errstate(all="ignore"):
                    A = np.asarray(Model.factor_matrices[factorIndex], dtype=float)
                    v = float(np.max(np.abs(np.minimum(A, 1 - np.asarray(Phi, dtype=float))))) if A.size else 0.0
                calls.append({"key": None, "mu": True, "margin": abs(v - stoptol) / stoptol if math.isfinite(v) else math.inf,
                              "fallback": False, "evals": 0, "bcast": False})
            except Exception:  # noqa: BLE001
                pass
        return Phi

    C.tt_linesearch_prowsubprob = wrap
    if alg == "mu":
        C.vectorize_for_mu = wrap_vec
        C.calculate_phi = wrap_phi
    try:
        yield
    finally:
        C.tt_linesearch_prowsubprob = orig
        C.vectorize_for_mu = orig_vec
        C.calculate_phi = orig_phi


@contextlib.contextmanager
def safeguard_watch(flags):
    """Record whether a safeguard of cp_apr was ACTIVE during the call (the hypotheses of
    C11_likelihood_monotone_* / C11_likelihood_not_worse are that none is): `clamp` -- some
    denominator `v` handed to np.maximum(v, epsDivZero) is below epsDivZero or not positive
    (calculate_phi, calc_partials, calc_grad); `zero_norm` -- ktensor.normalize met a column of norm
    zero.  (The inadmissible-zero bump and the zero-row patch are read off nViolations / the guess.)"""
    o_phi, o_par, o_grad, o_norm = C.calculate_phi, C.calc_partials, C.calc_grad, ttb.ktensor.normalize

    def note_v(v, eps):
        v = np.asarray(v, dtype=float)
        if v.size and (np.any(v < eps) or np.any(~(v > 0))):
            flags["clamp"] = True

    def w_phi(Data, Model, rank, factorIndex, Pi, epsilon):
        with np.errstate(all="ignore"):
            A = Model.factor_matrices[factorIndex]
            if isinstance(Data, ttb.sptensor):
                note_v(np.sum(A[Data.subs[:, factorIndex], :] * Pi, axis=1), epsilon)
            else:
                note_v(A.dot(Pi.transpose()), epsilon)
        return o_phi(Data, Model, rank, factorIndex, Pi, epsilon)

    def w_par(isSparse, Pi, epsilon, data_row, model_row):
        with np.errstate(all="ignore"):
            note_v(np.asarray(model_row).dot(Pi.transpose()), epsilon)
        return o_par(isSparse, Pi, epsilon, data_row, model_row)

    def w_grad(isSparse, Pi, eps_div_zero, data_row, model_row):
        with np.errstate(all="ignore"):
            note_v(np.asarray(model_row).dot(Pi.transpose()), eps_div_zero)
        return o_grad(isSparse, Pi, eps_div_zero, data_row, model_row)

    def w_norm(self, weight_factor=None, sort=False, normtype=2, mode=None):
        fms = [self.factor_matrices[mode]] if mode is not None and mode in range(self.ndims) \
            else list(self.factor_matrices)
        for f in fms:
            if np.any(np.linalg.norm(np.asarray(f, dtype=float), ord=normtype, axis=0) == 0):
                flags["zero_norm"] = True
        return o_norm(self, weight_factor=weight_factor, sort=sort, normtype=normtype, mode=mode)

    C.calculate_phi, C.calc_partials, C.calc_grad, ttb.ktensor.normalize = w_phi, w_par, w_grad, w_norm
    try:
        yield
    finally:
        C.calculate_phi, C.calc_partials, C.calc_grad, ttb.ktensor.normalize = o_phi, o_par, o_grad, o_norm


def row_grad_np(x, Pi, m, eps):
    """Gradient of the row objective `sum(m) - sum_j x_j log (m . Pi_j)` with the code's clamp of the
    denominators: `1 - (x / max(m Pi^T, eps)) Pi`, plain numpy."""
    x = np.asarray(x, dtype=float).reshape(-1)
    Pi = np.asarray(Pi, dtype=float).reshape(len(x), -1)
    m = np.asarray(m, dtype=float).reshape(-1)
    with np.errstate(all="ignore"):
        return 1.0 - (x / np.maximum(m.dot(Pi.T), eps)).dot(Pi)


def lbfgs_reference(row_calls, mem, eps):
    """The slot bookkeeping of PQNR's L-BFGS memory as the finding F11-pqnr-lbfgs-assert describes it,
    replayed on the iterates the implementation itself produced for ONE row (`row_calls`: the recorded line
    searches of the row in order -- the priming gradient step, then one per inner iteration): pair `i` is
    `(m_{i+1} - m_i, g(m_{i+1}) - g(m_i))`; a pair with a non-zero inner product is stored at the current
    slot, a degenerate one rolls the slot back (to the last slot if that holds a positive curvature, and
    is FATAL at slot 0 otherwise); then the slot advances by one modulo the memory size.
    -> index of the pair at which the bookkeeping is fatal, or None."""
    pos, rho = 0, [0.0] * mem
    for idx, c in enumerate(row_calls):
        if c["out"] is None:
            return None
        m_new, m_old = np.array(c["out"], dtype=float), np.array(c["m"], dtype=float)
        with np.errstate(all="ignore"):
            dot = float((m_new - m_old).dot(row_grad_np(c["x"], c["Pi"], m_new, eps)
                                            - np.array(c["grad"], dtype=float)))
        if dot != 0:
            with np.errstate(all="ignore"):
                rho[pos] = 1.0 / dot
        elif pos == 0:
            if rho[mem - 1] > 0:
                pos = mem - 1
            else:
                return idx
        else:
            pos -= 1
        pos = (pos + 1) % mem
    return None


def raised_verdict(case, res, calls, tags, where=""):
    """Verdict for a call of cp_apr that RAISED on an admissible request (non-negative data with a stored
    entry and >= 2 modes if dense, a non-negative guess of the data's shape and the requested rank, positive
    limits): the property promises a model, so this is a violation whatever the exception.  The fatal
    L-BFGS assertion of pqnr is the recorded finding F11-pqnr-lbfgs-assert ONLY where the reference
    bookkeeping, run on the iterates of the row in which it was raised, is fatal at the same pair; raised
    anywhere else it is reported under a different text (which the matcher of the finding does not accept)."""
    msg = res.get("msg", "")
    if case.get("alg") == "pqnr" and LBFGS_MSG in msg:
        row = []
        if calls:
            k3 = calls[-1]["key"][:3]
            row = [c for c in calls if c["key"][:3] == k3]
        mem = int(case.get("opts", {}).get("lbfgsMem", 3))
        eps = float(case.get("opts", {}).get("epsDivZero", 1e-10))
        at = lbfgs_reference(row, mem, eps) if row else None
        if row and at == len(row) - 1:
            return Verdict("violation", f"pqnr raised instead of returning: {msg}{where}", res, None, None,
                           list(tags) + ["lbfgs-assert"], False)
        said = "is never fatal" if at is None else f"is fatal at pair {at}"
        return Verdict("violation", f"pqnr hit its fatal L-BFGS assertion ({msg}){where} at pair {len(row) - 1} of row "
                       f"{list(calls[-1]['key'][:3]) if calls else '?'} (outer iteration, mode, row), where the slot "
                       f"bookkeeping replayed on the row's own iterates (memory {mem}) {said}", res, None,
                       {"pairs": len(row), "reference_fatal_at": at}, list(tags) + ["lbfgs-assert-unjustified"], False)
    return Verdict("violation", f"implementation raised {res.get('exc')}: {msg} on an admissible request (the "
                   f"argument checks accept it){where}", res, None, None, list(tags) + ["raised"], False)


def run_impl(case, maxiters, printitn=0, record=True, flags=None, margins=True):
    data = mk_data(case["data"])
    guess = mk_kt(case["init"])
    before = (snapshot(data), snapshot(guess))
    rec, calls = [], []
    if flags is not None and case["alg"] != "mu" and \
            any(np.any(np.sum(np.asarray(f), axis=1) == 0) for f in guess.factor_matrices):
        flags["zero_row"] = True
    with (recording(case["alg"], rec, calls, margins, case["opts"]["stoptol"]) if record
          else contextlib.nullcontext()), \
            (safeguard_watch(flags) if flags is not None else contextlib.nullcontext()), quiet():
        res = call(lambda: ttb.cp_apr(data, case["rank"], algorithm=case["alg"], init=guess, maxiters=maxiters,
                                      **kwargs_of(case, printitn)))
    if flags is not None and "ok" in res and np.any(np.asarray(res["ok"][2].get("nViolations", [0])) > 0):
        flags["bump"] = True
    untouched = (snapshot(data) == before[0], snapshot(guess) == before[1])
    if "ok" in res:
        M, init_back, out = res["ok"]
        res = {"ok": {
            "weights": np.asarray(M.weights, dtype=float).reshape(-1).tolist(),
            "factors": [np.asarray(f, dtype=float).tolist() for f in M.factor_matrices],
            "obj": float(out["obj"]),
            "kkt": np.asarray(out["kktViolations"], dtype=float).reshape(-1).tolist(),
            "nInner": [int(v) for v in np.asarray(out["nInnerIters"]).reshape(-1)],
            "nViol": [int(v) for v in np.asarray(out.get("nViolations", [])).reshape(-1)],
            "nTotal": None if "nTotalIters" not in out else float(out["nTotalIters"]),
            "init_is_guess": init_back is guess,
        }}
    return res, rec, untouched, calls


PRINT_REL = 1e-12


def max_rel_diff(a, b):
    """Largest |x - y| / max(1, |y|) over two equally shaped nested lists (inf if shapes differ)."""
    if isinstance(a, list) and isinstance(b, list):
        if len(a) != len(b):
            return math.inf
        return max([max_rel_diff(x, y) for x, y in zip(a, b)] + [0.0])
    if isinstance(a, list) or isinstance(b, list):
        return math.inf
    a, b = float(a), float(b)
    if a == b or (math.isnan(a) and math.isnan(b)):
        return 0.0
    if not (math.isfinite(a) and math.isfinite(b)):
        return math.inf
    return abs(a - b) / max(1.0, abs(b))


def printing_difference(r0, rp):
    """'' if the run with printing returned what the silent run returned (decision fields exactly,
    numbers to 1e-12); otherwise what differs."""
    if len(rp["kkt"]) != len(r0["kkt"]) or rp["nInner"] != r0["nInner"] or rp["nViol"] != r0["nViol"]:
        return (f"printing changes the decision fields: iterations {len(r0['kkt'])} -> {len(rp['kkt'])}, "
                f"nInnerIters {r0['nInner']} -> {rp['nInner']}")
    d = max(max_rel_diff(rp["obj"], r0["obj"]), max_rel_diff(rp["kkt"], r0["kkt"]),
            max_rel_diff(rp["weights"], r0["weights"]), max_rel_diff(rp["factors"], r0["factors"]))
    if d > PRINT_REL:
        return f"printing changes the returned numbers by {d:.3e} (obj {r0['obj']!r} -> {rp['obj']!r})"
    return ""


# ----------------------------------------------------------------------------
# the property, recomputed with numpy only
# ----------------------------------------------------------------------------
def property_violation(case, maxiters, r, untouched):
    X = data_dense(case["data"])
    W = np.array(r["weights"])
    F = [np.array(f).reshape(len(f), -1) for f in r["factors"]]
    R = case["rank"]
    if W.shape != (R,) or [f.shape for f in F] != [(s, R) for s in case["data"]["shape"]]:
        return f"returned model has weights {W.shape} and factors {[f.shape for f in F]}, rank {R} and shape " \
               f"{case['data']['shape']} were requested"
    if not np.all(W >= 0) or any(not np.all(f >= 0) for f in F):
        return "returned model has a negative (or NaN) weight or factor entry"
    ll = loglik_np(X, W, F)
    obj = r["obj"]
    if not (obj == ll or (math.isfinite(ll) and math.isfinite(obj) and abs(obj - ll) <= REL * max(1.0, abs(ll)))):
        return f"reported objective {obj!r} but the Poisson log-likelihood of the returned model is {ll!r}"
    kkt = r["kkt"]
    if any(not (v >= 0) for v in kkt):
        return f"negative (or NaN) KKT violation in {kkt}"
    iters = len(kkt)
    if not (1 <= iters <= maxiters):
        return f"{iters} KKT entries for an iteration limit of {maxiters}"
    if len(r["nInner"]) != iters:
        return f"{len(r['nInner'])} inner-iteration counts for {iters} outer iterations"
    if case["alg"] == "mu":
        if len(r["nViol"]) != iters:
            return f"{len(r['nViol'])} violation counts for {iters} outer iterations"
        if r["nTotal"] is not None and r["nTotal"] != sum(r["nInner"]):
            return f"nTotalIters {r['nTotal']} is not the sum of nInnerIters {r['nInner']}"
        lim = len(case["data"]["shape"]) * case["opts"]["maxinneriters"]
        if any(v > lim for v in r["nInner"]):
            return f"inner iterations {r['nInner']} exceed modes x maxinneriters = {lim}"
    g = case["init"]
    ll0 = loglik_np(X, np.array(ub(g["weights"])), [np.array(ub(f)).reshape(len(f), -1) for f in g["factors"]])
    if not math.isnan(ll0) and not (ll >= ll0 - REL * max(1.0, abs(ll0)) if math.isfinite(ll0) else
                                    (ll0 == -math.inf or ll >= ll0)):
        return f"result is less likely than the starting guess: {ll!r} < {ll0!r}"
    if not untouched[0]:
        return "the data tensor was modified"
    if not untouched[1]:
        return "the caller's initial guess was modified"
    if not r["init_is_guess"]:
        return "the second return value is not the caller's guess"
    return ""


# ----------------------------------------------------------------------------
# comparing a run with the model
# ----------------------------------------------------------------------------
def canon_components(weights, factors):
    """Order-free form for tied weights: components sorted by (column sum of factor 0, entries)."""
    R = len(weights)
    cols = []
    for r in range(R):
        flat = [f[i][r] for f in factors for i in range(len(f))]
        cols.append((weights[r], flat))
    order = sorted(range(R), key=lambda r: (cols[r][0], cols[r][1]))
    return [weights[r] for r in order], [[[row[r] for r in order] for row in f] for f in factors]


def close_deep_abs(a, b, atol):
    if isinstance(a, list) and isinstance(b, list):
        return len(a) == len(b) and all(close_deep_abs(x, y, atol) for x, y in zip(a, b))
    if isinstance(a, list) or isinstance(b, list):
        return False
    return close(a, b) or abs(float(a) - float(b)) <= atol * max(1.0, abs(float(a)), abs(float(b)))


def compare_run(r, m, alg, rel=REL):
    """'' if the model's run `m` (bit strings) agrees with the implementation's `r`."""
    if len(r["kkt"]) != m["iters"]:
        return f"iterations: implementation {len(r['kkt'])}, model {m['iters']}"
    if r["nInner"] != m["nInner"]:
        return f"nInnerIters: implementation {r['nInner']}, model {m['nInner']}"
    if r["nViol"] and r["nViol"] != m["nViol"]:
        return f"nViolations: implementation {r['nViol']}, model {m['nViol']}"
    # a KKT value is |min(m, 1 - phi)| with phi of order one: near convergence it is a cancelled
    # difference, so it is compared absolutely (1e-7) on top of the relative tolerance
    if not all(close(a, b, rel) or abs(a - b) <= 1e-7 for a, b in zip(r["kkt"], ub(m["kkt"]))):
        return f"kktViolations: implementation {r['kkt']}, model {ub(m['kkt'])}"
    if not close(r["obj"], unbits(m["obj"]), rel):
        return f"obj: implementation {r['obj']!r}, model {unbits(m['obj'])!r}"
    mw, mf = ub(m["model"]["weights"]), ub(m["model"]["factors"])
    if close_deep(r["weights"], mw, rel) and close_deep(r["factors"], mf, rel):
        return ""
    a = canon_components(r["weights"], r["factors"])
    b = canon_components(mw, mf)
    if close_deep(a[0], b[0], rel) and close_deep(a[1], b[1], rel):
        return ""
    return f"returned model differs from the model's beyond {rel:g}"


# ----------------------------------------------------------------------------
# generators
# ----------------------------------------------------------------------------
def np_rng(rng):
    return np.random.RandomState(rng.getrandbits(31))


def gen_shape(rng, tier):
    n = rng.choice([2, 2, 3, 3, 3, 4] if tier == "thorough" else [2, 3, 3])
    sizes = [1, 2, 3, 4]
    s = [rng.choice(sizes) for _ in range(n)]
    if rng.random() < 0.6 and n <= 4:
        s = rng.sample(sizes, n)  # distinct extents
    while int(np.prod(s)) > 36:
        s[rng.randrange(n)] = 1
    if int(np.prod(s)) < 2:
        s[rng.randrange(n)] = 3
    return s


def gen_data(rng, tier):
    shape = gen_shape(rng, tier)
    rs = np_rng(rng)
    R0 = rng.randint(1, 3)
    rate = rng.choice([0.3, 1.0, 2.0, 6.0])
    fm = [rs.uniform(0.05, 1.0, (s, R0)) for s in shape]
    lam = full_np(np.full(R0, rate), fm)
    X = rs.poisson(lam).astype(float)
    kind = rng.choice(["planted", "planted", "planted", "empty-slice", "zero-fibre", "single", "ones"])
    if kind == "empty-slice":
        n = rng.randrange(len(shape))
        idx = [slice(None)] * len(shape)
        idx[n] = rng.randrange(shape[n])
        X[tuple(idx)] = 0
    elif kind == "zero-fibre":
        n = rng.randrange(len(shape))
        idx = [rng.randrange(s) for s in shape]
        idx[n] = slice(None)
        X[tuple(idx)] = 0
    elif kind == "single":
        X[...] = 0
        X[tuple(rng.randrange(s) for s in shape)] = rng.randint(1, 5)
    elif kind == "ones":
        X[...] = 1
    if not X.any():
        X[tuple(rng.randrange(s) for s in shape)] = rng.randint(1, 4)
    tags = [kind]
    if any(not X.take(i, axis=n).any() for n in range(len(shape)) for i in range(shape[n])):
        tags.append("has-empty-slice")
    if rng.random() < 0.5:
        subs = [list(map(int, s)) for s in np.argwhere(X != 0)]
        order = rng.choice(["sorted", "shuffled"])
        if order == "shuffled":
            rng.shuffle(subs)
        vals = [float(X[tuple(s)]) for s in subs]
        return {"shape": shape, "subs": subs, "vals": bd(vals)}, tags + ["sparse", order]
    return {"shape": shape, "data": bd(X.flatten(order="F").tolist())}, tags + ["dense"]


def gen_guess(rng, shape, R):
    rs = np_rng(rng)
    fm = [rs.uniform(0.1, 1.0, (s, R)) for s in shape]
    w = np.ones(R)
    tags = []
    if rng.random() < 0.3:
        n = rng.randrange(len(shape))
        fm[n][rng.randrange(shape[n]), :] = 0.0
        tags.append("zero-row")
    if rng.random() < 0.3:
        for _ in range(rng.randint(1, 3)):
            n = rng.randrange(len(shape))
            fm[n][rng.randrange(shape[n]), rng.randrange(R)] = 0.0
        tags.append("zero-entries")
    if rng.random() < 0.25:
        w = rs.uniform(0.5, 4.0, R)
        tags.append("weights")
    if rng.random() < 0.15 and R > 1:
        w[rng.randrange(R)] = 0.0
        tags.append("zero-weight")
    if rng.random() < 0.1:
        n = rng.randrange(len(shape))
        fm[n][:, rng.randrange(R)] = 0.0
        tags.append("zero-column")
    return {"weights": bd(w.tolist()), "factors": [bd(f.tolist()) for f in fm]}, tags


EPS_ACTIVE = [1e-8, 1e-8, 1e-3, 1e-2, 1.0, 10.0]   # 1e-8 is the default; large values make almost every variable "active"
MU0 = [1e-5, 1e-5, 1e-2, 1.0, 10.0]                  # 1e-5 is the default


def gen_opts(rng):
    o = {"stoptol": rng.choice([1e-4, 1e-4, 1e-2, 1e-6]), "maxinneriters": rng.randint(1, 10),
         "epsDivZero": 1e-10, "kappa": rng.choice([0.01, 0.01, 0.1]), "kappatol": 1e-10,
         "precompinds": rng.random() < 0.5, "inexact": rng.random() < 0.5, "lbfgsMem": rng.randint(1, 5)}
    # options of the direction services only (the model takes the directions as given): the active-set
    # tolerance of pdnr / pqnr and the initial damping of pdnr
    o["epsActive"] = rng.choice(EPS_ACTIVE)
    o["mu0"] = rng.choice(MU0)
    return o


class Runs(Family):
    name = "runs"
    theorems = ("C11_nonneg_invariant", "C11_nonneg_returned", "C11_shape_rank", "C11_kkt_nonneg",
                "C11_kkt_length", "C11_iters_le", "C11_objective_dense", "C11_objective_sparse",
                "C11_returned_model_denote", "C11_likelihood_not_worse_partial", "C11_likelihood_monotone_mu",
                "C11_likelihood_monotone_pdnr", "C11_likelihood_monotone_pqnr", "C11_likelihood_not_worse",
                "C11_objective_eq_negLL")

    def gen(self, rng, tier):
        n = 240 if tier == "quick" else 3000
        out = []
        for k in range(n):
            data, tags = gen_data(rng, tier)
            R = rng.randint(1, 3)
            init, gtags = gen_guess(rng, data["shape"], R)
            out.append({"alg": ALGS[k % 3], "data": data, "rank": R, "init": init, "opts": gen_opts(rng),
                        "kmax": rng.choice([1, 2, 3, 3]), "tags": tags + gtags})
        return out

    def evaluate(self, cases):
        impl, reqs, where = [], [], []
        for ci, c in enumerate(cases):
            runs = []
            for k in range(1, c["kmax"] + 1):
                flags = {}
                res, rec, untouched, calls = run_impl(c, k, flags=flags)
                if "ok" in res:
                    res["ok"]["safeguards"] = sorted(flags)
                # the same request with the progress lines on (captured): printitn 1 (default), 2, 3
                printed = [(p,) + run_impl(c, k, p, record=False)[0:3:2] for p in PRINTITNS]
                runs.append((k, res, rec, untouched, calls, printed))
                reqs.append({"op": "c11_run_float", "alg": c["alg"], "data": c["data"], "init": c["init"],
                             "cfg": cfg_j(c, k), "dirs": rec})
                where.append((ci, len(runs) - 1))
            impl.append(runs)
        raised = [q for q, (ci, ri) in zip(reqs, where) if "ok" not in impl[ci][ri][1]]
        models = drive(reqs + [{**q, "op": "c11_validate_float"} for q in raised])
        admissible = iter(models[len(reqs):])
        per_case = [[] for _ in cases]
        for (ci, ri), m in zip(where, models[:len(reqs)]):
            if "ok" not in impl[ci][ri][1]:
                m = {**m, "admissible": bool(next(admissible).get("accept"))}
            per_case[ci].append(m)
        out = [self.judge(c, runs, ms) for c, runs, ms in zip(cases, impl, per_case)]
        # second phase: runs whose line searches were decided at rounding level are validated one
        # line search at a time, each from the implementation's own state
        reqs2, owner = [], []
        for ci, v in enumerate(out):
            if isinstance(v, tuple):
                for call_ in v[1]:
                    reqs2.append({"op": "c11_linesearch_float", "sparse": call_["sparse"], "x": bd(call_["x"]),
                                  "Pi": bd(call_["Pi"]), "m": bd(call_["m"]), "d": bd(call_["d"]),
                                  "grad": bd(call_["grad"]), "phi": bd(call_["phi"])})
                    owner.append((ci, call_))
        bad = {}
        if reqs2:
            for (ci, call_), m in zip(owner, drive(reqs2)):
                if not close_deep(call_["out"], ub(m)) and ci not in bad:
                    bad[ci] = f"line search from the implementation's own state differs: {call_['out']} vs {ub(m)}"
        for ci, v in enumerate(out):
            if isinstance(v, tuple):
                pend, _calls, tags = v[0], v[1], v[2]
                if ci in bad:
                    out[ci] = Verdict("corr", bad[ci], pend.impl, pend.model, None, tags)
                else:
                    out[ci] = Verdict("ok", "", pend.impl, None, None, tags + [v[3]], True)
        return out

    def judge(self, c, runs, ms):
        tags = [c["alg"], f"N{len(c['data']['shape'])}", f"R{c['rank']}", f"k{c['kmax']}"] + list(c.get("tags", []))
        if c["alg"] == "pdnr":
            tags.append("inexact" if c["opts"]["inexact"] else "exact")
        if c["alg"] != "mu":
            tags.append("precomp" if c["opts"]["precompinds"] else "noprecomp")
        last_ok = None
        prev = None
        pending = None
        for (k, res, rec, untouched, calls, printed), m in zip(runs, ms):
            # printing must not change what is returned, and what is returned must be truthful
            for p, pres, puntouched in printed:
                if ("ok" in pres) != ("ok" in res):
                    return Verdict("violation", f"maxiters={k} printitn={p}: the call "
                                   f"{'returns' if 'ok' in pres else 'raises ' + str(pres.get('msg'))} "
                                   f"but {'raises' if 'ok' in pres else 'returns'} with printitn=0", pres, None, None,
                                   tags + [f"printitn{p}"], False)
                if "ok" not in pres:
                    continue
                what = property_violation(c, k, pres["ok"], puntouched)
                if what:
                    return Verdict("violation", f"maxiters={k} printitn={p}: {what}", pres["ok"], None, None,
                                   tags + [f"printitn{p}"])
                what = printing_difference(res["ok"], pres["ok"])
                if what:
                    return Verdict("violation", f"maxiters={k} printitn={p}: {what}", pres["ok"], None, res["ok"],
                                   tags + [f"printitn{p}"])
            if "ok" not in res:
                # NOT decided by whether the model's run returns: its direction service is scripted with what the
                # implementation used before it raised, so the model's run stops where the script ends.  Decided by
                # the argument checks alone: an admissible request must be answered with a model
                if "ok" in m or m.get("admissible"):
                    return raised_verdict(c, res, calls, tags, f" (maxiters={k})")
                return Verdict("ok", "", res, m, None, tags + ["reject"], False)
            r = res["ok"]
            what = property_violation(c, k, r, untouched)
            if what:
                return Verdict("violation", f"maxiters={k}: {what}", r, None, None, tags)
            tie = any(cl["margin"] < TIE for cl in calls)
            what = ""
            if "ok" not in m:
                what = "the model rejects a request the implementation answers"
            else:
                what = compare_run(r, m["ok"], c["alg"])
            if what:
                mm = None if "ok" not in m else {"iters": m["ok"]["iters"], "nInner": m["ok"]["nInner"],
                                                 "kkt": ub(m["ok"]["kkt"])}
                v = Verdict("corr", f"maxiters={k}: {what}", r, mm, None, tags)
                # not a tie: rounding differences amplified by an ill-conditioned row problem are accepted
                # when the run still agrees to 1e-5 with identical decision fields -- and, like the tie
                # case, only if every line search agrees one step at a time (second phase)
                amplified = (not tie) and c["alg"] != "mu" and "ok" in m and \
                    compare_run(r, m["ok"], c["alg"], 1e-5) == ""
                if not tie and not amplified:
                    return v
                if pending is None:
                    # (a MU run with a KKT value within 1e-9 of stoptol has no line searches to validate: accepted
                    # on the strength of the property recomputed above and tagged)
                    firm = [cl for cl in calls if cl["margin"] >= TIE and not cl.get("mu")]
                    pending = (v, firm[:80], tags, "rounding-tie" if tie else "amplified-rounding")
            # likelihood never decreases from one outer iteration to the next (and from the guess to the
            # first) on runs whose safeguards were all inactive: C11_likelihood_monotone_mu / _pdnr / _pqnr
            if not r["safeguards"]:
                X = data_dense(c["data"])
                ll_k = loglik_np(X, np.array(r["weights"]), [np.array(f).reshape(len(f), -1) for f in r["factors"]])
                if prev is None:
                    g = c["init"]
                    ll_prev = loglik_np(X, np.array(ub(g["weights"])),
                                        [np.array(ub(f)).reshape(len(f), -1) for f in g["factors"]])
                    frm = "the starting guess"
                else:
                    ll_prev = loglik_np(X, np.array(prev["weights"]),
                                        [np.array(f).reshape(len(f), -1) for f in prev["factors"]])
                    frm = f"the state after {len(prev['kkt'])} outer iterations"
                if math.isfinite(ll_prev) and not (ll_k >= ll_prev - REL * max(1.0, abs(ll_prev))):
                    return Verdict("violation", f"maxiters={k}: safeguards inactive, yet the likelihood fell from "
                                   f"{ll_prev!r} ({frm}) to {ll_k!r}", r, None, None, tags + ["safeguards-inactive"])
            # runs from one start are prefixes of one another until one of them stops early
            if prev is not None and len(prev["kkt"]) == k - 1:
                if prev["kkt"] != r["kkt"][:k - 1] or prev["nInner"] != r["nInner"][:k - 1]:
                    return Verdict("violation", f"the run with maxiters={k} does not extend the run with "
                                   f"maxiters={k - 1} from the same start", r, None, None, tags)
            prev = r
            last_ok = r
        tags.append("converged" if len(last_ok["kkt"]) < c["kmax"] else "limit")
        tags.append(f"ndirs{min(len(runs[-1][2]) // 50, 5)}")
        allcalls = [cl for run in runs for cl in run[4]]
        tags.append("printitn0123")
        if any(cl["margin"] < TIE for cl in allcalls):
            tags.append("has-tie-call")
        if any(cl["fallback"] for cl in allcalls):
            tags.append("ls-fallback")
        if any(cl.get("bcast") for cl in allcalls):
            # the line search was handed fewer numbers than the row has unknowns and numpy broadcast them (the model is
            # fed the broadcast vector: the property holds for every direction); shown in the input distribution only
            tags.append("broadcast-direction")
        if any(cl["evals"] > 2 for cl in allcalls):
            tags.append("ls-backtracked")
        if any(v > 0 for v in last_ok["nViol"]):
            tags.append("mu-bump")
        tags += [f"safeguard:{f}" for f in last_ok["safeguards"]] or ["safeguards-inactive"]
        if pending is not None:
            return (pending[0], pending[1], tags, pending[3])
        return Verdict("ok", "", {"iters": len(last_ok["kkt"]), "obj": last_ok["obj"], "nInner": last_ok["nInner"]},
                       None, None, tags, True)

    def shrink(self, case):
        if case["kmax"] > 1:
            yield {**case, "kmax": case["kmax"] - 1}
        o = case["opts"]
        if o["maxinneriters"] > 1:
            yield {**case, "opts": {**o, "maxinneriters": o["maxinneriters"] // 2}}
            yield {**case, "opts": {**o, "maxinneriters": o["maxinneriters"] - 1}}
        if case["rank"] > 1:
            R = case["rank"] - 1
            yield {**case, "rank": R, "init": {"weights": case["init"]["weights"][:R],
                                               "factors": [[row[:R] for row in f] for f in case["init"]["factors"]]}}


# ----------------------------------------------------------------------------
# one-step comparisons with the helpers of cp_apr.py
# ----------------------------------------------------------------------------
def rand_model(rng, shape, R):
    rs = np_rng(rng)
    fm = [rs.uniform(0.0, 1.0, (s, R)) for s in shape]
    for f in fm:
        f[rs.uniform(size=f.shape) < 0.15] = 0.0
    w = rs.uniform(0.2, 3.0, R)
    if rng.random() < 0.2:
        w[rng.randrange(R)] = 0.0
    if rng.random() < 0.2:
        n = rng.randrange(len(shape))
        fm[n][:, rng.randrange(R)] = 0.0
    return {"weights": bd(w.tolist()), "factors": [bd(f.tolist()) for f in fm]}


class Steps(Family):
    name = "steps"
    theorems = ("C11_nonneg_mu_mode", "C11_nonneg_mu_inner", "C11_nonneg_linesearch", "C11_nonneg_row",
                "C11_sum_all_eq_sum_factor0", "C11_initial_normalize_denote")

    def gen(self, rng, tier):
        n = 320 if tier == "quick" else 3000
        kinds = ["mu_mode", "mu_mode", "ktensor", "ktensor", "row", "linesearch", "linesearch", "project", "loglik",
                 "loglik"]
        out = []
        for k in range(n):
            kind = kinds[k % len(kinds)]
            data, tags = gen_data(rng, tier)
            R = rng.randint(1, 3)
            c = {"k": kind, "data": data, "rank": R, "model": rand_model(rng, data["shape"], R),
                 "n": rng.randrange(len(data["shape"])), "tags": tags}
            if kind == "ktensor":
                c["what"] = rng.choice(["redistribute", "normalize_mode", "normalize", "normalize_sort",
                                        "normalize_absorb0"])
            if kind in ("row", "linesearch", "project"):
                rs = np_rng(rng)
                J = rng.randint(1, 6)
                c["sparse"] = rng.random() < 0.5
                x = rs.poisson(1.5, J).astype(float)
                if c["sparse"]:
                    x = np.maximum(x, 1.0)
                Pi = rs.uniform(0.0, 1.0, (J, R))
                Pi[rs.uniform(size=Pi.shape) < 0.1] = 0.0
                m = rs.uniform(0.0, 2.0, R)
                if rng.random() < 0.3:
                    m[rng.randrange(R)] = 0.0
                d = rs.normal(0.0, rng.choice([0.01, 1.0, 100.0]), R)
                if rng.random() < 0.15:
                    d[:] = 0.0
                c.update(x=bd(x.tolist()), Pi=bd(Pi.tolist()), m=bd(m.tolist()), d=bd(d.tolist()),
                         step=bits(rng.choice([1.0, 0.5, 0.25, 2.0 ** -9])))
            out.append(c)
        return out

    def evaluate(self, cases):
        impls, reqs = [], []
        for c in cases:
            i, q = self.one(c)
            impls.append(i)
            reqs.append(q)
        models = drive(reqs)
        out = []
        for c, i, m in zip(cases, impls, models):
            tags = [c["k"]] + list(c.get("tags", []))[:1] + ([c["what"]] if "what" in c else [])
            if "reject" in i:
                ok = isinstance(m, dict) and m.get("reject")
                out.append(Verdict("ok" if ok else "corr", "" if ok else "implementation raised, the model answers",
                                   i, m, None, tags + ["reject"], False))
                continue
            if isinstance(m, dict) and m.get("reject"):
                out.append(Verdict("corr", "the model rejects, the implementation answers", i, m, None, tags))
                continue
            what = self.compare(c, i["ok"], m)
            out.append(Verdict("corr" if what else "ok", what, i["ok"] if what else None, m if what else None, None, tags))
        return out

    def one(self, c):
        eps = 1e-10
        k = c["k"]
        if k == "mu_mode":
            def f():
                data, K, n = mk_data(c["data"]), mk_kt(c["model"]), c["n"]
                N, R = data.ndims, c["rank"]
                Pi = C.calculate_pi(data, K, R, n, N)
                Phi = C.calculate_phi(data, K, R, n, Pi, eps)
                A = K.factor_matrices[n]
                kkt = float(np.max(np.abs(C.vectorize_for_mu(np.minimum(A, 1 - Phi)))))
                return {"Pi": Pi.tolist(), "Phi": Phi.tolist(), "kkt": kkt, "A": (A * Phi).tolist()}
            req = {"op": "c11_mu_mode_float", "data": c["data"], "model": c["model"], "n": c["n"],
                   "epsDivZero": bits(eps)}
        elif k == "ktensor":
            def f():
                K = mk_kt(c["model"])
                w = c["what"]
                if w == "redistribute":
                    K.redistribute(mode=c["n"])
                elif w == "normalize_mode":
                    K.normalize(mode=c["n"], normtype=1)
                elif w == "normalize":
                    K.normalize(normtype=1)
                elif w == "normalize_sort":
                    K.normalize(sort=True, normtype=1)
                else:
                    K.normalize(weight_factor=0, normtype=1)
                return {"weights": np.asarray(K.weights).reshape(-1).tolist(),
                        "factors": [np.asarray(x).tolist() for x in K.factor_matrices]}
            req = {"op": "c11_ktensor_float", "model": c["model"], "what": c["what"], "n": c["n"]}
        elif k in ("row", "linesearch", "project"):
            x = np.array(ub(c["x"]))
            xr = x.reshape(-1, 1) if c["sparse"] else x
            Pi = np.array(ub(c["Pi"])).reshape(len(c["Pi"]), -1)
            m = np.array(ub(c["m"]))
            d = np.array(ub(c["d"]))
            if k == "row":
                def f():
                    phi, _ = C.calc_partials(c["sparse"], Pi, eps, xr, m)
                    g = 1 - phi
                    return {"phi": np.asarray(phi).reshape(-1).tolist(),
                            "kkt": float(np.max(np.abs(np.minimum(m, g)))),
                            "f": float(-C.tt_loglikelihood_row(c["sparse"], xr, m, Pi))}
                req = {"op": "c11_row_float", "sparse": c["sparse"], "x": c["x"], "Pi": c["Pi"], "m": c["m"],
                       "epsDivZero": bits(eps)}
            elif k == "project":
                def f():
                    mn = m + unbits(c["step"]) * d
                    mn *= mn > 0
                    return mn.tolist()
                req = {"op": "c11_project_float", "m": c["m"], "d": c["d"], "step": c["step"]}
            else:
                def f():
                    phi, _ = C.calc_partials(c["sparse"], Pi, eps, xr, m)
                    g = (1 - phi)
                    r = C.tt_linesearch_prowsubprob(d, g.transpose(), m, 1, 1 / 2, 10, 1.0e-4, c["sparse"], xr, Pi,
                                                    phi, False)
                    return {"m": np.asarray(r[0]).reshape(-1).tolist(), "phi": np.asarray(phi).reshape(-1).tolist()}
                with quiet():
                    phi, _ = C.calc_partials(c["sparse"], Pi, eps, xr, m)
                phi = np.asarray(phi).reshape(-1)
                req = {"op": "c11_linesearch_float", "sparse": c["sparse"], "x": c["x"], "Pi": c["Pi"], "m": c["m"],
                       "d": c["d"], "grad": bd((1 - phi).tolist()), "phi": bd(phi.tolist())}
        else:  # loglik
            def f():
                K = mk_kt(c["model"])
                obj = C.tt_loglikelihood(mk_data(c["data"]), K)
                return {"obj": float(obj), "weights": np.asarray(K.weights).reshape(-1).tolist(),
                        "factors": [np.asarray(x).tolist() for x in K.factor_matrices]}
            req = {"op": "c11_loglik_float", "data": c["data"], "model": c["model"]}
        with quiet():
            res = call(f)
        return res, req

    def compare(self, c, i, m):
        k = c["k"]
        if k == "mu_mode":
            m = m["ok"]
            for key in ("Pi", "Phi", "A"):
                if not close_deep(i[key], ub(m[key])):
                    return f"{key} differs"
            return "" if close(i["kkt"], unbits(m["kkt"])) else "KKT value differs"
        if k == "ktensor":
            mw, mf = ub(m["weights"]), ub(m["factors"])
            if close_deep(i["weights"], mw) and close_deep(i["factors"], mf):
                return ""
            a, b = canon_components(i["weights"], i["factors"]), canon_components(mw, mf)
            return "" if close_deep(a[0], b[0]) and close_deep(a[1], b[1]) else f"{c['what']} differs"
        if k == "row":
            if not close_deep(i["phi"], ub(m["phi"])):
                return "phi_row differs"
            if not close(i["kkt"], unbits(m["kkt"])):
                return "row KKT differs"
            return "" if close(i["f"], unbits(m["f"])) else f"row objective differs: {i['f']} vs {unbits(m['f'])}"
        if k == "project":
            return "" if close_deep(i, ub(m)) else "projected step differs"
        if k == "linesearch":
            return "" if close_deep(i["m"], ub(m)) else f"line search result differs: {i['m']} vs {ub(m)}"
        if not close(i["obj"], unbits(m["obj"])):
            return f"tt_loglikelihood differs: {i['obj']} vs {unbits(m['obj'])}"
        mw, mf = ub(m["model"]["weights"]), ub(m["model"]["factors"])
        return "" if close_deep(i["weights"], mw) and close_deep(i["factors"], mf) else \
            "model after tt_loglikelihood differs"


# ----------------------------------------------------------------------------
# argument checks (exact values)
# ----------------------------------------------------------------------------
def rat_kt(k):
    return {"weights": k["weights"], "factors": k["factors"]}


class Validation(Family):
    name = "validation"
    theorems = ("C11_rejects_invalid", "C11_rejects_negative_data", "C11_rejects_negative_guess")

    MUTS = ["valid", "valid", "valid", "neg-data", "rank0", "rank-mismatch", "ndims-mismatch", "size-mismatch",
            "neg-entry", "neg-weight", "one-way-dense", "one-way-sparse", "empty-sparse", "maxiters0",
            "maxinner0", "bad-alg"]

    def gen(self, rng, tier):
        n = 112 if tier == "quick" else 640
        # every kind of request meets every printing interval (the final report of a printing run does work of its
        # own -- norm, innerprod -- that can refuse what the solver let through)
        out = [self.one(rng, self.MUTS[k % len(self.MUTS)], (k + k // len(self.MUTS)) % 4) for k in range(n)]
        # guesses whose extent differs from the data's in one mode, ENUMERATED over algorithm x representation x
        # larger / smaller x first / last mode, silent (so nothing but the argument check and the solver decide), with
        # one and with several outer iterations: the solvers index the guess by the data (a guess with surplus rows
        # fits every subscript of sparse data), so only the argument check stands between such a request and a model
        # of the wrong shape
        for rep in range(1 if tier == "quick" else 4):
            for alg in ALGS:
                for sparse in (False, True):
                    for how in ("larger", "smaller", "larger2"):
                        for mode in ("first", "last", "mid"):
                            c = self.one(rng, "size-mismatch", 0, alg=alg, sparse=sparse, how=how, mode=mode,
                                         lo=2, N=3 if mode == "mid" else None)
                            c["maxiters"] = rng.choice([1, 3])
                            out.append(c)
        return out

    def one(self, rng, mut, printitn, alg=None, sparse=None, how=None, mode=None, lo=1, N=None):
        N = N or rng.choice([2, 3])
        shape = [rng.randint(lo, 3) for _ in range(N)]
        if mut.startswith("one-way"):
            shape = [rng.randint(2, 4)]
        R = rng.randint(1, 2)
        numel = int(np.prod(shape))
        vals = [rng.choice([0, 1, 1, 2, 3]) for _ in range(numel)]
        if not any(vals):
            vals[rng.randrange(numel)] = 2
        if sparse is None:
            sparse = rng.random() < 0.5
        if mut == "one-way-dense":
            sparse = False
        if mut in ("one-way-sparse", "empty-sparse"):
            sparse = True
        if mut == "neg-data":
            vals[rng.randrange(numel)] = -rng.randint(1, 3)
        w = [rng.choice([1, 1, 2]) for _ in range(R)]
        fm = [[[rng.choice([0, 1, 1, 2]) for _ in range(R)] for _ in range(s)] for s in shape]
        c = {"mut": mut, "alg": alg or rng.choice(ALGS), "shape": shape, "vals": vals, "sparse": sparse, "rank": R,
             "weights": w, "factors": fm, "maxiters": 1, "maxinner": rng.randint(1, 3),
             "printitn": printitn}
        if mut == "rank0":
            c["rank"] = 0
        elif mut == "rank-mismatch":
            c["rank"] = R + 1
        elif mut == "ndims-mismatch":
            c["factors"] = fm[:-1] if rng.random() < 0.5 else fm + [[[1] * R]]
        elif mut == "size-mismatch":
            j = {"first": 0, "last": N - 1, "mid": N // 2}.get(mode, rng.randrange(N))
            how = how or rng.choice(["larger", "larger", "larger2", "smaller"])
            if how == "smaller" and shape[j] < 2:
                how = "larger"
            if how == "smaller":
                c["factors"][j] = fm[j][:-1]
            else:
                c["factors"][j] = fm[j] + [[rng.choice([1, 2]) for _ in range(R)] for _ in range(1 if how == "larger" else 2)]
            c["how"] = how
        elif mut == "neg-entry":
            j = rng.randrange(N)
            c["factors"][j][rng.randrange(shape[j])][rng.randrange(R)] = -1
        elif mut == "neg-weight":
            c["weights"][rng.randrange(R)] = -1
        elif mut == "empty-sparse":
            c["vals"] = [0] * numel
        elif mut == "maxiters0":
            c["maxiters"] = 0
        elif mut == "maxinner0":
            c["maxinner"] = 0
        elif mut == "bad-alg":
            c["alg"] = rng.choice(["als", "MU2", ""])
        return c

    @staticmethod
    def build(c):
        shape = tuple(c["shape"])
        X = np.array(c["vals"], dtype=float).reshape(shape, order="F")
        if c["sparse"]:
            subs = [list(map(int, s)) for s in np.argwhere(X != 0)]
            dj = {"shape": list(shape), "subs": subs, "vals": [int(X[tuple(s)]) for s in subs]}
            data = ttb.sptensor(np.array(subs, dtype=int), np.array([X[tuple(s)] for s in subs]).reshape(-1, 1),
                                shape) if subs else ttb.sptensor(shape=shape)
        else:
            dj = {"shape": list(shape), "data": [int(v) for v in X.flatten(order="F")]}
            data = ttb.tensor(X, copy=True)
        return data, dj

    def evaluate(self, cases):
        impls, reqs, recs = [], [], []
        for c in cases:
            def f(c=c):
                data, _ = self.build(c)
                R = len(c["weights"])
                g = ttb.ktensor([np.array(x, dtype=float).reshape(len(x), R) for x in c["factors"]],
                                np.array(c["weights"], dtype=float))
                M, _, _ = ttb.cp_apr(data, c["rank"], algorithm=c["alg"], init=g, maxiters=c["maxiters"],
                                     maxinneriters=c["maxinner"], printitn=c.get("printitn", 0))
                return {"shape": [int(np.asarray(x).shape[0]) for x in M.factor_matrices],
                        "ranks": sorted({int(np.asarray(x).shape[1]) for x in M.factor_matrices}
                                        | {int(np.asarray(M.weights).size)}),
                        "nonneg": bool(np.all(np.asarray(M.weights) >= 0)
                                       and all(np.all(np.asarray(x) >= 0) for x in M.factor_matrices))}
            calls = []
            with (recording("pqnr", [], calls, margins=False) if c["alg"] == "pqnr" else contextlib.nullcontext()), \
                    quiet():
                impls.append(call(f))
            recs.append(calls)
            _, dj = self.build(c)
            reqs.append({"op": "c11_validate", "alg": c["alg"], "data": dj,
                         "init": {"weights": c["weights"], "factors": c["factors"]},
                         "cfg": {"rank": c["rank"], "stoptol": "1/10000", "maxiters": c["maxiters"],
                                 "maxinneriters": c["maxinner"], "epsDivZero": "1/10000000000", "kappa": "1/100",
                                 "kappatol": "1/10000000000", "inexact": True}})
        models = drive(reqs)
        out = []
        for c, i, m, calls in zip(cases, impls, models, recs):
            tags = [c["mut"], c["alg"] if c["alg"] in ALGS else "bad-alg", "sparse" if c["sparse"] else "dense",
                    f"printitn{c.get('printitn', 0)}"] + ([c["how"]] if "how" in c else [])
            acc_i = "ok" in i
            acc_m = bool(m["accept"])
            valid_but = c["mut"] in ("one-way-dense", "empty-sparse") and not acc_i and not acc_m
            # the property's own clause on whatever is returned: a model of the DATA's shape and the requested rank,
            # non-negative (independent of the model's verdict on the request)
            wrong = ""
            if acc_i:
                r = i["ok"]
                if r["shape"] != list(c["shape"]) or r["ranks"] != [c["rank"]]:
                    wrong = (f"cp_apr returned a model of shape {r['shape']} with {r['ranks']} components for data of "
                             f"shape {c['shape']} and requested rank {c['rank']} (guess of shape "
                             f"{[len(x) for x in c['factors']]}, {len(c['weights'])} components)")
                elif not r["nonneg"]:
                    wrong = "cp_apr returned a model with a negative (or NaN) weight or factor entry"
            if wrong:
                out.append(Verdict("violation", wrong, i, m, None, tags + ["wrong-shape"], False))
            elif valid_but:
                # a count tensor the property covers; implementation (and the model that mirrors it) refuse it
                kind = "a 1-way dense count tensor" if c["mut"] == "one-way-dense" else \
                    "a sparse count tensor without stored entry"
                out.append(Verdict("violation", f"cp_apr raised {i.get('exc')} on {kind}: {i.get('msg')}", i, m, None,
                                   tags + ["reject"], False))
            elif not acc_i and acc_m:
                out.append(raised_verdict({"alg": c["alg"], "opts": {}}, i, calls, tags))
            elif acc_i and not acc_m:
                out.append(Verdict("corr", "the implementation answers a request the model's checks reject",
                                   i, m, None, tags, False))
            else:
                out.append(Verdict("ok", "", None, None, None, tags + (["accept"] if acc_i else ["reject"]), acc_i))
        return out


# ----------------------------------------------------------------------------
# long runs over the whole option space, against the property recomputed with numpy (no model run)
# ----------------------------------------------------------------------------
def both_representations(X, rng):
    """The same counts as a dense request and as a sparse one (stored order shuffled)."""
    subs = [list(map(int, s)) for s in np.argwhere(X != 0)]
    rng.shuffle(subs)
    shape = [int(v) for v in X.shape]
    return ({"shape": shape, "data": bd(X.flatten(order="F").tolist())},
            {"shape": shape, "subs": subs, "vals": bd([float(X[tuple(q)]) for q in subs])})


class LongRuns(Family):
    """cp_apr run for 5..25 outer iterations (where the row sub-problems stall, the L-BFGS memory wraps and the
    damping parameter has a history) on the same counts stored dense and sparse, over the whole option space; no
    model run.  Checked: the call RETURNS (an admissible request is never answered with an exception; the fatal
    L-BFGS assertion only where the reference bookkeeping on the row's own iterates is fatal too), everything the
    property says about what is returned, recomputed with numpy, and that `precompinds` does not change a single bit
    of the answer on sparse data (it selects how the same index sets are obtained)."""
    name = "longruns"
    theorems = ("C11_nonneg_returned", "C11_shape_rank", "C11_kkt_nonneg", "C11_kkt_length", "C11_iters_le",
                "C11_objective_dense", "C11_objective_sparse", "C11_likelihood_not_worse")

    def gen(self, rng, tier):
        n = 54 if tier == "quick" else 300
        out = []
        for k in range(n):
            N = rng.choice([2, 3, 3])
            shape = [rng.randint(2, 5) for _ in range(N)]
            R = rng.randint(1, 3)
            rs = np_rng(rng)
            lam = rng.choice([0.5, 3.0, 15.0])
            if rng.random() < 0.5:
                X = rs.poisson(lam, shape).astype(float)
            else:
                X = rs.poisson(full_np(np.full(R, lam * 2 ** N), [rs.uniform(0.05, 1.0, (q, R)) for q in shape])).astype(float)
            if not X.any():
                X[tuple(rng.randrange(q) for q in shape)] = rng.randint(1, 4)
            tags = [f"rate{lam}"]
            if rng.random() < 0.75:
                init = {"weights": bd([1.0] * R), "factors": [bd(rs.uniform(0.1, 1.0, (q, R)).tolist()) for q in shape]}
                tags.append("positive-guess")
            else:
                init, gt = gen_guess(rng, shape, R)
                tags += gt
            o = gen_opts(rng)
            o["maxinneriters"] = rng.choice([10, 10, 20, 5])
            o["stoptol"] = rng.choice([1e-4, 1e-4, 1e-6, 1e-7])
            dense, sparse = both_representations(X, rng)
            out.append({"alg": ("pqnr", "pdnr", "pqnr", "mu", "pqnr", "pdnr")[k % 6], "data": dense, "sdata": sparse, "rank": R,
                        "init": init, "opts": o, "maxiters": rng.choice([5, 10, 10, 25]), "tags": tags})
        return out

    def evaluate(self, cases):
        return [self.one(c) for c in cases]

    def one(self, c):
        alg, K = c["alg"], c["maxiters"]
        o = c["opts"]
        tags = [alg, f"N{len(c['data']['shape'])}", f"R{c['rank']}", f"maxiters{K}", f"inner{o['maxinneriters']}",
                f"stoptol{o['stoptol']:g}"] + list(c.get("tags", []))
        if alg != "mu":
            tags.append(f"epsActive{o['epsActive']:g}")
        if alg == "pdnr":
            tags += [f"mu0{o['mu0']:g}", "inexact" if o["inexact"] else "exact"]
        if alg == "pqnr":
            tags.append(f"mem{o['lbfgsMem']}")
        variants = [("dense", c["data"], o["precompinds"])]
        variants += [("sparse", c["sdata"], True), ("sparse", c["sdata"], False)] if alg != "mu" else \
            [("sparse", c["sdata"], o["precompinds"])]
        got = {}
        for rep, d, pre in variants:
            cc = {**c, "data": d, "opts": {**o, "precompinds": pre}}
            res, _, untouched, calls = run_impl(cc, K, record=(alg == "pqnr"), margins=False)
            label = f" ({rep} data" + ("" if alg == "mu" else f", precompinds={pre}") + f", maxiters={K})"
            if "ok" not in res:
                return raised_verdict(cc, res, calls, tags + [rep], label)
            what = property_violation(cc, K, res["ok"], untouched)
            if what:
                return Verdict("violation", what + label, res["ok"], None, None, tags + [rep])
            got[(rep, pre)] = res["ok"]
        if alg != "mu":
            a, b = got[("sparse", True)], got[("sparse", False)]
            for key in ("weights", "factors", "obj", "kkt", "nInner"):
                if not (a[key] == b[key] or max_rel_diff(a[key], b[key]) == 0.0):
                    return Verdict("violation", f"sparse data: precompinds=False changes what is returned ({key}: "
                                   f"{b[key]!r} instead of {a[key]!r}), though it only selects how the index sets of "
                                   "the rows are obtained", a, None, b, tags + ["precompinds"])
        r = got[("dense", o["precompinds"])]
        tags.append("converged" if len(r["kkt"]) < K else "limit")
        return Verdict("ok", "", {"iters": len(r["kkt"]), "obj": r["obj"]}, None, None, tags, True)

    def shrink(self, case):
        if case["maxiters"] > 1:
            yield {**case, "maxiters": case["maxiters"] // 2}
            yield {**case, "maxiters": case["maxiters"] - 1}
        o = case["opts"]
        if o["maxinneriters"] > 1:
            yield {**case, "opts": {**o, "maxinneriters": o["maxinneriters"] // 2}}


class Formulas(Family):
    """Cross-check of the translator (harness/translate/gen_cpapr.py): every generated scalar definition, evaluated by
    the driver at Float with the services the model hands to it, against `eval` of the Python expression the
    translator read (over the parameter names, re-shapings dropped) on the same points.  A definition whose anchor was
    lost has nothing to be compared with (the pinned definition is in use; the proof side reports the lost anchor);
    the others still are."""
    name = "formulas"
    theorems = ("C11_objective_sparse", "C11_objective_dense")
    NAMES = ("llTermSparse", "llTermDense", "llCombine", "kktEntry", "muUpdate", "rowKktEntry", "rowGrad", "lsTrial",
             "project", "lsFallback", "armijoBound")

    def gen(self, rng, tier):
        out = []
        for i in range(66 if tier == "quick" else 330):
            name = self.NAMES[i % len(self.NAMES)]
            vals = [rng.choice([0.0, 1.0, -1.0, 0.5, rng.uniform(-4, 4), rng.uniform(0, 1e-6), rng.randint(-6, 6) / 4])
                    for _ in range(3)]
            if name in ("llTermSparse", "llTermDense"):
                vals[0] = float(rng.choice([0, 0, 1, 2, 7]))          # a count
                vals[1] = rng.choice([rng.uniform(1e-9, 5), 1.0, 0.25])    # a positive model value
            out.append({"name": name, "vals": vals})
        return out

    def evaluate(self, cases):
        from harness.translate import gen_cpapr
        try:
            exprs, lost = gen_cpapr.formulas()
        except Exception as e:  # noqa: BLE001
            exprs, lost = {}, [f"{type(e).__name__}: {e}"]
        reqs, impls, skipped = [], [], set()
        for k, c in enumerate(cases):
            e = exprs.get(c["name"])
            if e is None:
                skipped.add(k)
                continue
            args = list(c["vals"])[:len(e["params"])]
            env = {"np": np}
            env.update({q: np.float64(v) for q, v in zip(e["params"], args)})
            with np.errstate(all="ignore"):
                impls.append(float(eval(compile(e["python"], "<cp_apr formula>", "eval"), env)))  # noqa: S307
            reqs.append({"op": "c11_formula", "name": c["name"], "args": [bits(v) for v in args]})
        reps = iter(drive(reqs) if reqs else [])
        impls = iter(impls)
        out = []
        for k, c in enumerate(cases):
            if k in skipped:
                out.append(Verdict("ok", f"translator lost anchors: {lost}", None, None, None, ["anchor-lost"], False))
                continue
            v, m = next(impls), next(reps)
            mv = unbits(m["float"]) if isinstance(m, dict) and "float" in m else None
            ok = mv is not None and ((math.isnan(mv) and math.isnan(v)) or mv == v
                                     or abs(mv - v) <= 1e-15 * max(abs(mv), abs(v)))
            out.append(Verdict("ok" if ok else "corr",
                               "" if ok else f"generated {c['name']} differs from the Python expression", v, mv, None,
                               [c["name"]]))
        return out


def families():
    return [Runs(), Steps(), Validation(), LongRuns(), Formulas()]
