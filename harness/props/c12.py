"""C12 — GCP losses, gradients and their tensor-level evaluation: correspondence families.

Part A (scalar handles): the Lean side proves that the expressions *generated from the
current handles.py / fg_setup.py* are (loss, derivative) pairs.  Here the translator is
cross-checked (generated expression evaluated in doubles by the driver == Python handle)
and the derivative relation is searched for a failing point directly on the Python
handles (verified symbolic derivative of the loss evaluated in doubles, and 5-point
finite differences of the Python loss, against the Python gradient handle).
Part B (tensor level): exact comparison of fg.evaluate / fg_est.estimate /
estimate_helper / mttkrps with the model at integer / dyadic inputs and polynomial
stand-in handles, plus the properties themselves evaluated on the implementation.
"""
from __future__ import annotations

import functools
import inspect
import itertools
import math
import struct
import warnings
from fractions import Fraction

import numpy as np
import pyttb as ttb
from pyttb.gcp import fg, fg_est, fg_setup, handles
from pyttb.gcp.handles import Objectives

from harness import gen
from harness.lib import Family, Verdict, call, deep_eq, drive, jnum, jval, strip_exc

RULE = ("cases are drawn from random.Random(VERIF_SEED). Scalar handles: every one of the 20 built-in handles / 10 "
        "objectives at fixed and random points of its domain (model value from the table's lower bound upwards incl. "
        "the bound itself, data values typical for the loss and arbitrary reals, every listed parameter choice incl. "
        "both Huber regions and the kink). Tensor level: Kruskal models of order 2..4 (order 1 for the rejected "
        "cases), mode sizes 1..3 (4 in thorough), ranks 1..3, integer entries of both signs with zeros, unit and "
        "non-unit model weights (negative, zero and fractional ones too), weight arrays none / ones / 0-1 masks / integers / halves, sparse and dense data, "
        "sample sets of 0..8 (12) subscripts with repeats, correction ranges with repeats, three polynomial stand-in "
        "handle pairs, every combination of requested outputs; every array-valued argument (weights / mask, data, factor "
        "matrices, subscript matrix, value / weight / correction vectors) in Fortran-contiguous, C-contiguous, permuted-axes-view "
        "and strided-view layouts (1-d: contiguous, strided, negative stride) with non-constant, non-symmetric values and 0/1 "
        "masks on the non-cubical shapes (2,3), (3,1,2), (2,3,2), all layout combinations enumerated, also through "
        "gcp_opt(LBFGSB, mask = ndarray | tensor) with an optimiser stand-in that evaluates once; the sampled estimator with sample "
        "weights ones / integers of both signs / halves / 0-1 / all zero / all negative, repeated subscripts (adjacent and far apart), "
        "correction ranges none / empty / partial / full / with repeated positions, models with unit and non-unit weights, every "
        "gradient entry of every mode against the defining sums and the specification executed in Lean; 0/1 masks keeping all / "
        "some / one / no entries as float / int / bool arrays in every layout, models with non-unit weights, dense and sparse data, "
        "also with five real built-in pairs in doubles; and a malformed stream (mismatched shapes, no handle, "
        "out-of-range subscripts). A case is non-trivial when the implementation accepts it and at least one data / "
        "model entry is non-zero; distinct = distinct case hash")
ASSUMPTIONS = [
    "doubles: the generated expressions are compared with the NumPy handles up to 1e-12 relative to the magnitude of "
    "the added terms (NumPy's vectorised log/exp/pow may differ from libm in the last bits); the theorems are over the reals",
    "evaluate/estimate are modelled where NumPy combines arrays entry by entry: data, weights and model of one shape "
    "(broadcastable mismatches are not generated); ktensor.full enters as the denotation of the Kruskal tensor (C01) and "
    "tensor.mttkrps as the defining sum (C02) — both are nevertheless exercised here on the real code",
    "estimate is modelled on the path without re-normalisation (lambda_check False or unit model weights); there it never reads "
    "the model's weight vector (C12_estimate_ignores_model_weights), so its theorems are stated for unit model weights",
    "at a switching point of a loss as it is written (|·| / sign / sqrt at 0, a comparison at equality) the symbolic derivative "
    "of the generated expression is not compared; the gradient handle is compared with both one-sided difference quotients of "
    "the Python loss there (the theorems cover these points: Huber kink, closed form of a stabilised softplus)",
    "finite differences (5-point, relative step 1e-3) are only an independent second opinion; the decisive comparison is "
    "gradient handle vs the verified symbolic derivative of the translated loss",
]
TRUSTED_EXTRA = ["harness/translate/gen_handles.py: reading of ~25 Python AST node kinds / NumPy functions and the symbolic "
                 "execution of fg_setup.setup (cross-checked on a grid each run: generated table cells vs the callables setup "
                 "returns; tools/handles_rewrites_selftest.py)"]
EXHAUSTIVE = {"quick": False, "thorough": False}


# ----------------------------------------------------------------------------
# doubles across the pipe
# ----------------------------------------------------------------------------
def fbits(v) -> str:
    return str(struct.unpack("<Q", struct.pack("<d", float(v)))[0])


def unbits(s) -> float:
    return struct.unpack("<d", struct.pack("<Q", int(s)))[0]


# ----------------------------------------------------------------------------
# specification side of the ten objectives
# ----------------------------------------------------------------------------
# objective -> (lower bound of the model value, parameter choices, typical data values)
SPEC = {
    "GAUSSIAN": (None, [None], [-2.5, 0.0, 1.0, 3.75]),
    "BERNOULLI_ODDS": (0.0, [None], [0.0, 1.0]),
    "BERNOULLI_LOGIT": (None, [None], [0.0, 1.0]),
    "POISSON": (0.0, [None], [0.0, 1.0, 2.0, 7.0]),
    "POISSON_LOG": (None, [None], [0.0, 1.0, 3.0]),
    "RAYLEIGH": (0.0, [None], [0.0, 0.5, 2.0, 6.5]),
    "GAMMA": (0.0, [None], [0.0, 0.25, 1.0, 4.5]),
    "HUBER": (None, [0.5, 1.0, 2.5], [-1.0, 0.0, 0.75, 3.0]),
    "NEGATIVE_BINOMIAL": (0.0, [1.0, 2.0, 7.5], [0.0, 1.0, 3.0, 6.0]),
    "BETA": (0.0, [0.5, 1.5, 2.0, 3.0, -1.0], [0.0, 0.5, 1.0, 4.0]),
}
OBJS = list(SPEC)


def loss_name(obj):
    return obj.lower()


def grad_name(obj):
    return obj.lower() + "_grad"


def handle_param(fn):
    """name and kind of the extra parameter of a handle (third argument, positional or keyword-only), or None"""
    ps = list(inspect.signature(fn).parameters.values())
    if len(ps) == 3:
        return ps[2]
    return None


def has_param(fn) -> bool:
    return handle_param(fn) is not None


def call_handle(fn, xs, ms, p):
    """handle(data, model[, parameter]) whatever the spelling of the parameter in the signature"""
    hp = handle_param(fn)
    if hp is None:
        return fn(xs, ms)
    if hp.kind is inspect.Parameter.KEYWORD_ONLY:
        return fn(xs, ms, **{hp.name: p})
    return fn(xs, ms, p)


def py_handle(name, x, p, m):
    fn = getattr(handles, name)
    xs, ms = np.array([float(x)]), np.array([float(m)])
    with np.errstate(all="ignore"):
        out = call_handle(fn, xs, ms, float(p))
    return float(np.asarray(out, dtype=float).reshape(-1)[0])


def m_points(rng, lower, n_rand):
    if lower is None:
        pts = [-3.0, -0.5, 0.0, 0.25, 1.0, 2.0, 4.5]
        pts += [rng.uniform(-5, 5) for _ in range(n_rand)]
    else:
        pts = [lower, lower + 1e-12, lower + 1e-6, lower + 1e-3, lower + 0.05, lower + 0.5, lower + 1.0,
               lower + 2.0, lower + 10.0, lower + 100.0]
        pts += [lower + math.exp(rng.uniform(math.log(1e-4), math.log(50))) for _ in range(n_rand)]
    return pts


def x_points(rng, obj, n_rand):
    xs = list(SPEC[obj][2])
    for _ in range(n_rand):
        xs.append(round(rng.uniform(-3, 8), 3))
    return xs


def expr_requests(items):
    """items: (name, deriv, x, p, m) -> one gcp_expr request each; `name` is a Python handle name or a cell of
    the selection table ("@fn:OBJECTIVE" / "@grad:OBJECTIVE": what fg_setup.setup returns, however wrapped)"""
    out = []
    for (n, d, x, p, m) in items:
        r = {"op": "gcp_expr", "deriv": d, "pts": [[fbits(x), fbits(0.0 if p is None else p), fbits(m)]]}
        if n.startswith("@"):
            which, obj = n[1:].split(":")
            r["obj"], r["which"] = obj, which
        else:
            r["name"] = n
        out.append(r)
    return out


def same_double(a, b, tol):
    if math.isnan(a) or math.isnan(b):
        return math.isnan(a) and math.isnan(b)
    if math.isinf(a) or math.isinf(b):
        return a == b
    return abs(a - b) <= tol


# ----------------------------------------------------------------------------
# Part A families
# ----------------------------------------------------------------------------
class HandleFidelity(Family):
    """translator fidelity: generated expression (doubles, driver) == Python handle"""
    name = "handle_vs_generated_expr"
    theorems = ("C12_table_pairs",)

    def gen(self, rng, tier):
        out = []
        nr = 2 if tier == "quick" else 12
        for obj in OBJS:
            lower, params, _ = SPEC[obj]
            for name in (loss_name(obj), grad_name(obj)):
                for p in params:
                    xs = x_points(rng, obj, 1 if tier == "quick" else 4)
                    ms = m_points(rng, lower, nr)
                    if obj == "HUBER":
                        ms += [x + s * p for x in xs[:3] for s in (-1, 1)]  # the kink
                    pts = list(itertools.product(xs, ms))
                    if tier == "quick":
                        pts = rng.sample(pts, min(len(pts), 14))
                    for x, m in pts:
                        out.append({"name": name, "x": x, "p": p, "m": m})
        return out

    def evaluate(self, cases):
        impls = [call(py_handle, c["name"], c["x"], 0.0 if c["p"] is None else c["p"], c["m"]) for c in cases]
        models = drive(expr_requests([(c["name"], False, c["x"], c["p"], c["m"]) for c in cases]))
        out = []
        for c, impl, mo in zip(cases, impls, models):
            tags = [c["name"]]
            if mo is None:
                out.append(Verdict("corr", f"handles.{c['name']} is not among the generated expressions", impl, None,
                                   None, tags, False))
                continue
            val, mag = unbits(mo[0][0]), unbits(mo[0][1])
            if "ok" not in impl:
                out.append(Verdict("corr", f"Python handle {c['name']} raised", impl, val, None, tags, False))
                continue
            py = impl["ok"]
            tol = 1e-12 * (abs(mag) if math.isfinite(mag) else abs(py)) + 1e-300
            if same_double(py, val, tol):
                out.append(Verdict("ok", "", jnum(py), jnum(val), None, tags, py != 0.0))
            else:
                out.append(Verdict("corr", f"translated expression of handles.{c['name']} evaluates to {val!r}, "
                                           f"the Python handle to {py!r} at x={c['x']} p={c['p']} m={c['m']}",
                                   repr(py), repr(val), None, tags))
        return out


class DerivativeGrid(Family):
    """the property on the implementation: gradient handle == d(loss handle)/d(model value)"""
    name = "derivative_grid"
    theorems = tuple(f"C12_deriv_{o.lower()}" for o in OBJS) + ("C12_deriv_table", "C12_deriv_huber_kink")

    def gen(self, rng, tier):
        out = []
        nr = 2 if tier == "quick" else 14
        for obj in OBJS:
            lower, params, _ = SPEC[obj]
            for p in params:
                xs = x_points(rng, obj, 1 if tier == "quick" else 5)
                ms = m_points(rng, lower, nr)
                pts = list(itertools.product(xs, ms))
                if obj == "HUBER":
                    pts += [(x, x + s * p) for x in xs for s in (-1, 1)]        # the kink
                    pts += [(x, x) for x in xs]                                  # centre of the quadratic part
                if tier == "quick":
                    keep = [q for q in pts if obj == "HUBER" and abs(abs(q[0] - q[1]) - p) == 0][:2]
                    pts = keep + rng.sample(pts, min(len(pts), 12))
                for x, m in pts:
                    out.append({"obj": obj, "x": x, "p": p, "m": m})
        return out

    @staticmethod
    def _setup(obj, p):
        with warnings.catch_warnings():
            warnings.simplefilter("ignore")
            return fg_setup.setup(Objectives[obj], None, p)

    def evaluate(self, cases):
        # the pair under test is whatever fg_setup.setup returns for the objective (the generated selection table
        # has one cell per returned handle, whether the source wraps it in partial, a lambda or nothing)
        setups = {}
        for c in cases:
            key = (c["obj"], c["p"])
            if key not in setups:
                setups[key] = call(self._setup, c["obj"], c["p"])
        table = {r["objective"]: r for r in drive([{"op": "gcp_table"}])[0]}
        reqs, names = [], []
        for c in cases:
            row = table.get(c["obj"], {})
            names.append((row.get("fn") or loss_name(c["obj"]), row.get("grad") or grad_name(c["obj"])))
            reqs += expr_requests([("@fn:" + c["obj"], True, c["x"], c["p"], c["m"]),
                                   ("@grad:" + c["obj"], False, c["x"], c["p"], c["m"]),
                                   ("@fn:" + c["obj"], False, c["x"], c["p"], c["m"])])
        models3 = drive(reqs)
        models = [mo for j, mo in enumerate(models3) if j % 3 != 2]
        cells = models3[2::3]
        out = []
        for i, c in enumerate(cases):
            obj, x, p, m = c["obj"], c["x"], c["p"], c["m"]
            lower = SPEC[obj][0]
            tags = [obj]
            st = setups[(obj, p)]
            ln, gn = names[i]
            if "ok" not in st:
                out.append(Verdict("violation", f"{obj}: fg_setup.setup raised {st.get('exc')}: {st.get('msg')}",
                                   strip_exc(st), None, None, tags))
                continue
            if models[2 * i] is None or models[2 * i + 1] is None:
                out.append(Verdict("corr", f"{obj}: handles {ln} / {gn} are not among the generated expressions",
                                   None, None, None, tags, False))
                continue
            d, magd = unbits(models[2 * i][0][0]), unbits(models[2 * i][0][1])
            magg = unbits(models[2 * i + 1][0][1])
            # a switching point of the generated loss (|·| / sign at 0, a comparison at equality): the symbolic
            # derivative need not be the derivative there; one-sided difference quotients decide instead
            on_kink = len(cells[i][0]) > 2 and bool(cells[i][0][2])
            fn, gr, lb = st["ok"]

            def run():
                xs = np.array([float(x)])
                with np.errstate(all="ignore"):
                    g = float(np.asarray(gr(xs, np.array([float(m)])), dtype=float).reshape(-1)[0])
                    f0 = float(np.asarray(fn(xs, np.array([float(m)])), dtype=float).reshape(-1)[0])

                    def f(mm):
                        return float(np.asarray(fn(xs, np.array([float(mm)])), dtype=float).reshape(-1)[0])
                    # 5-point central difference where the stencil stays inside one smooth piece
                    h = 1e-3 * (max(1.0, abs(m)) if lower is None else (m - lower))
                    fd = None
                    ok_fd = h > 0 and (lower is None or m - lower >= 0.04)
                    if obj == "HUBER" and abs(abs(x - m) - p) <= 2.5 * h:
                        ok_fd = False
                    if ok_fd:
                        vals = [f(m + 2 * h), f(m + h), f(m - h), f(m - 2 * h)]
                        fd = (-vals[0] + 8 * vals[1] - 8 * vals[2] + vals[3]) / (12 * h)
                        fd_tol = 1e-6 * (1 + abs(g)) + 1e-14 * max(abs(v) for v in vals) / h
                    else:
                        fd_tol = None
                    sides = []
                    if on_kink:
                        hk = 1e-4 * max(1.0, abs(m))
                        if lower is None or m - lower > 2 * hk:
                            vl = [f0, f(m - hk), f(m - 2 * hk)]
                            sides.append(("left", (3 * vl[0] - 4 * vl[1] + vl[2]) / (2 * hk), vl))
                        vr = [f0, f(m + hk), f(m + 2 * hk)]
                        sides.append(("right", (-3 * vr[0] + 4 * vr[1] - vr[2]) / (2 * hk), vr))
                        sides = [(nm, q, 1e-5 * (1 + abs(g)) + 1e-13 * max(abs(v) for v in vs) / hk) for nm, q, vs in sides]
                return {"g": g, "f": f0, "fd": fd, "fd_tol": fd_tol, "lb": float(lb), "sides": sides}

            impl = call(run)
            if "ok" not in impl:
                out.append(Verdict("violation", f"{obj}: handle raised {impl.get('exc')}: {impl.get('msg')}",
                                   impl, repr(d), None, tags))
                continue
            r = impl["ok"]
            g = r["g"]
            if r["lb"] != (-math.inf if lower is None else lower):
                out.append(Verdict("violation", f"{obj}: lower bound {r['lb']} is not the bound of the loss's domain",
                                   r["lb"], lower, lower, tags))
                continue
            tol = 1e-9 * ((magd if math.isfinite(magd) else abs(d)) + (magg if math.isfinite(magg) else abs(g))) + 1e-300
            # the generated table cells are the functions setup returned (translator fidelity, wrappers included)
            cf, magf = unbits(cells[i][0][0]), unbits(cells[i][0][1])
            cg = unbits(models[2 * i + 1][0][0])
            if not same_double(r["f"], cf, 1e-12 * (abs(magf) if math.isfinite(magf) else abs(cf)) + 1e-300) or \
                    not same_double(g, cg, 1e-12 * (abs(magg) if math.isfinite(magg) else abs(cg)) + 1e-300):
                out.append(Verdict("corr", f"{obj}: what fg_setup.setup returns evaluates to loss {r['f']!r} / gradient "
                                           f"{g!r}, the generated table cells {ln} / {gn} to {cf!r} / {cg!r} at data={x} "
                                           f"param={p} model={m}", [repr(r["f"]), repr(g)], [repr(cf), repr(cg)], None, tags))
                continue
            kind = "fd" if r["fd"] is not None else "nofd"
            if obj == "HUBER":
                kind += ":kink" if abs(x - m) == p else (":in" if abs(x - m) < p else ":out")
            tags.append(kind)
            bad_side = next(((nm, q) for nm, q, t in r["sides"] if not same_double(g, q, t)), None)
            if on_kink:
                tags.append("switching-point")
            if on_kink and bad_side is not None:
                out.append(Verdict("violation",
                                   f"{obj}: gradient handle {gn} returns {g!r} but the {bad_side[0]} difference quotient of the "
                                   f"Python loss {ln} is {bad_side[1]!r} at the switching point data={x} param={p} model={m}",
                                   repr(g), repr(d), repr(bad_side[1]), tags))
            elif on_kink and not same_double(g, d, tol):
                # the piecewise symbolic derivative is not the derivative at a switching point; both one-sided
                # difference quotients agree with the gradient handle
                out.append(Verdict("ok", "", repr(g), repr(d), repr([q for _n, q, _t in r["sides"]]), tags + ["D-skipped"], True))
            elif not same_double(g, d, tol):
                out.append(Verdict("violation",
                                   f"{obj}: gradient handle {gn} returns {g!r} but d/dm of {ln} is "
                                   f"{d!r} at data={x} param={p} model={m}"
                                   + (f" (finite difference of the Python loss: {r['fd']!r})" if r["fd"] is not None else ""),
                                   repr(g), repr(d), repr(r["fd"]), tags))
            elif r["fd"] is not None and not same_double(g, r["fd"], r["fd_tol"]):
                out.append(Verdict("violation",
                                   f"{obj}: gradient handle {gn} returns {g!r} but the finite difference of the Python loss "
                                   f"{ln} is {r['fd']!r} at data={x} param={p} model={m}", repr(g), repr(d), repr(r["fd"]), tags))
            else:
                out.append(Verdict("ok", "", repr(g), repr(d), repr(r["fd"]), tags, True))
        return out


class SymbolicDerivative(Family):
    """second, translator-independent opinion: sympy (python3-vt) differentiates the Python loss
    handle itself (handles.py executed on symbols); compared with the Python gradient handle.
    Skipped (trivial cases) when no interpreter with sympy is available; Huber is left to the
    derivative grid (comparisons of symbols are outside what the shim runs)."""
    name = "symbolic_derivative"
    theorems = tuple(f"C12_deriv_{o.lower()}" for o in OBJS if o != "HUBER")

    def gen(self, rng, tier):
        out = []
        for obj in OBJS:
            if obj == "HUBER":
                continue
            lower, params, _ = SPEC[obj]
            for p in params:
                pts = list(itertools.product(x_points(rng, obj, 1), m_points(rng, lower, 2 if tier == "quick" else 8)))
                for x, m in rng.sample(pts, min(len(pts), 4 if tier == "quick" else 40)):
                    out.append({"obj": obj, "x": x, "p": p, "m": m})
        return out

    def evaluate(self, cases):
        import json as _json
        import shutil
        import subprocess
        from harness.lib import REPO, ROOT
        sym = [None] * len(cases)
        exe = shutil.which("python3-vt")
        if exe and cases:
            try:
                src = (REPO / "pyttb" / "gcp" / "handles.py").read_text()
                req = {"source": src, "points": [[loss_name(c["obj"]), c["x"], c["p"], c["m"]] for c in cases]}
                pr = subprocess.run([exe, str(ROOT / "harness" / "aux" / "sympy_deriv.py")], input=_json.dumps(req),
                                    capture_output=True, text=True, timeout=600)
                if pr.returncode == 0:
                    sym = _json.loads(pr.stdout)
            except Exception:  # noqa: BLE001
                sym = [None] * len(cases)
        models2 = drive(expr_requests([it for c in cases for it in
                                       ((grad_name(c["obj"]), False, c["x"], c["p"], c["m"]),
                                        (loss_name(c["obj"]), False, c["x"], c["p"], c["m"]))]))
        models, losses = models2[0::2], models2[1::2]
        out = []
        for c, sv, mo, lo in zip(cases, sym, models, losses):
            tags = [c["obj"]]
            if sv is None or mo is None:
                out.append(Verdict("ok", "", None, None, None, tags + ["sympy-unavailable"], False))
                continue
            if lo is not None and len(lo[0]) > 2 and lo[0][2]:
                # a switching point of the loss as written (|·| / sign / sqrt at 0, a comparison at equality): a piecewise
                # symbolic derivative says nothing there; the derivative grid decides with one-sided difference quotients
                out.append(Verdict("ok", "", None, None, sv, tags + ["switching-point"], False))
                continue
            d = float(sv)
            impl = call(py_handle, grad_name(c["obj"]), c["x"], 0.0 if c["p"] is None else c["p"], c["m"])
            if "ok" not in impl:
                out.append(Verdict("violation", f"gradient handle of {c['obj']} raised", impl, None, sv, tags))
                continue
            g = impl["ok"]
            mag = unbits(mo[0][1])
            tol = 1e-9 * ((mag if math.isfinite(mag) else abs(g)) + abs(d)) + 1e-300
            if same_double(g, d, tol):
                out.append(Verdict("ok", "", repr(g), None, sv, tags, True))
            else:
                out.append(Verdict("violation", f"{c['obj']}: gradient handle returns {g!r} but sympy's d/dm of the Python "
                                                f"loss is {d!r} at data={c['x']} param={c['p']} model={c['m']}",
                                   repr(g), None, sv, tags))
        return out


class TablePairing(Family):
    name = "table_pairing"
    theorems = ("C12_table_pairs", "C12_deriv_table")

    def gen(self, rng, tier):
        out = []
        for obj in OBJS:
            for p in SPEC[obj][1]:
                out.append({"obj": obj, "p": p})
        return out

    def evaluate(self, cases):
        table = {r["objective"]: r for r in drive([{"op": "gcp_table"}])[0]}
        out = []
        for c in cases:
            obj, p = c["obj"], c["p"]

            def run():
                with warnings.catch_warnings():
                    warnings.simplefilter("ignore")
                    fh, gh, lb = fg_setup.setup(Objectives[obj], None, p)
                names, bound = [], False
                xs, ms = np.array([1.0, 2.0, 0.5, 3.0]), np.array([0.5, 1.5, 3.0, 0.25])
                cands = [(n, f) for n, f in vars(handles).items()
                         if inspect.isfunction(f) and f.__module__ == handles.__name__ and not n.startswith("_")
                         and len(inspect.signature(f).parameters) in (2, 3)]
                for h, own in zip((fh, gh), (loss_name(obj), grad_name(obj))):
                    if isinstance(h, functools.partial):
                        base = h.func
                        hp = handle_param(base)
                        if hp is None or h.args or h.keywords != {hp.name: p}:
                            raise AssertionError(f"partial binds {h.keywords}")
                        bound = True
                    elif getattr(handles, getattr(h, "__name__", ""), None) is h:
                        base = h
                        if has_param(base):
                            raise AssertionError("parameter not bound")
                    else:
                        # a lambda / closure: which handle of handles.py it computes is decided by what it returns
                        # (the objective's own handle is tried first)
                        base = None
                        with np.errstate(all="ignore"):
                            got = np.asarray(h(xs, ms))
                            for n, f in sorted(cands, key=lambda nf: nf[0] != own):
                                if has_param(f) and p is None:
                                    continue
                                want = np.asarray(call_handle(f, xs, ms, p))
                                if want.shape == got.shape and np.array_equal(want, got):
                                    base = f
                                    break
                        if base is None:
                            raise AssertionError("the returned callable computes none of the handles of handles.py")
                        bound = bound or has_param(base)
                    if getattr(handles, base.__name__, None) is not base:
                        raise AssertionError("not a handle of handles.py")
                    names.append(base.__name__)
                # the returned callables really are those handles
                with np.errstate(all="ignore"):
                    for h, n in zip((fh, gh), names):
                        base = getattr(handles, n)
                        want = call_handle(base, xs, ms, p)
                        if not np.array_equal(np.asarray(h(xs, ms)), np.asarray(want)):
                            raise AssertionError("returned handle computes something else")
                return {"fn": names[0], "grad": names[1], "lower": jnum(float(lb)), "hasParam": bound}

            impl = call(run)
            lower = SPEC[obj][0]
            spec = {"fn": loss_name(obj), "grad": grad_name(obj),
                    "lower": "-inf" if lower is None else jnum(lower), "hasParam": p is not None}
            row = table.get(obj, {})
            model = {k: row.get(k) for k in ("fn", "grad", "lower", "hasParam")}
            tags = [obj]

            def same_row(a, b):
                return (a.get("fn") == b.get("fn") and a.get("grad") == b.get("grad")
                        and a.get("hasParam") == b.get("hasParam") and a.get("lower") is not None
                        and b.get("lower") is not None and deep_eq(a.get("lower"), b.get("lower")))
            if "ok" not in impl or not same_row(impl["ok"], spec):
                out.append(Verdict("violation", f"fg_setup.setup({obj}) does not return the objective's own "
                                                f"loss / gradient / bound", impl, model, spec, tags))
            elif not same_row(impl["ok"], model):
                out.append(Verdict("corr", f"generated table row for {obj} differs from fg_setup.setup", impl, model, spec, tags))
            else:
                out.append(Verdict("ok", "", impl, model, spec, tags, True))
        return out


# ----------------------------------------------------------------------------
# Part B: stand-in handles and generators
# ----------------------------------------------------------------------------
STANDINS = {
    "sq": (lambda x, m: (m - x) * (m - x), lambda x, m: 2 * (m - x)),
    "cubic": (lambda x, m: m * m * m - 2 * x * m + x, lambda x, m: 3 * m * m - 2 * x),
    "mix": (lambda x, m: x * m * m + m + 3, lambda x, m: 2 * x * m + 1),
}


def pick(handle, wantF, wantG):
    f, g = STANDINS[handle]
    return (f if wantF else None), (g if wantG else None)


def gen_model(rng, tier, nmin=2, nmax=4, unit=None):
    n = rng.randint(nmin, nmax)
    smax = 3 if tier == "quick" else 4
    if n >= 4:
        smax = min(smax, 3)
    shape = gen.shape(rng, n, n, smax, distinct=rng.random() < 0.7)
    R = rng.randint(1, 3)
    factors = [gen.matrix(rng, s, R, -3, 3, 0.2) for s in shape]
    if unit is None:
        unit = rng.random() < 0.6
    weights = [1] * R if unit else [rng.choice([-2, -1, 0, 2, 3, 1, jnum(Fraction(1, 2))]) for _ in range(R)]
    return shape, {"weights": weights, "factors": factors}


def frac_w(rng, n, kind):
    if kind == "ones":
        return [1] * n
    if kind == "mask":
        return [rng.choice([0, 1]) for _ in range(n)]
    if kind == "ints":
        return [rng.randint(-2, 4) for _ in range(n)]
    return [jnum(Fraction(rng.randint(-4, 6), 2)) for _ in range(n)]  # halves


def to_float_list(vals):
    return [float(Fraction(v)) if isinstance(v, str) else float(v) for v in vals]


def mk_k(K):
    factors = K["factors"]
    if any(isinstance(e, str) for fm in factors for row in fm for e in row):   # dyadic entries "n/d"
        factors = [[to_float_list(row) for row in fm] for fm in factors]
    return gen.mk_ktensor(ttb, to_float_list(K["weights"]), factors)


def fg_canon(res, wantF, wantG):
    if wantF and wantG:
        F, G = res
    elif wantF:
        F, G = res, None
    else:
        F, G = None, res
    return {"F": None if F is None else jnum(float(F)), "G": None if G is None else [jval(np.asarray(g)) for g in G]}


def kget(K, i):
    """denotation of the Kruskal tensor at subscript i, exactly"""
    tot = Fraction(0)
    for r, lam in enumerate(K["weights"]):
        t = Fraction(lam)
        for n, ik in enumerate(i):
            t *= Fraction(K["factors"][n][ik][r])
        tot += t
    return tot


def nontriv(K, data):
    return any(v != 0 for v in data) or any(e != 0 for f in K["factors"] for row in f for e in row)


class EvaluateCorr(Family):
    name = "evaluate"
    theorems = ("C12_objective_sum", "C12_gradient_is_partial_derivative", "C12_all_modes_eq_each")

    def gen(self, rng, tier):
        out = []
        n = 60 if tier == "quick" else 700
        for _ in range(n):
            shape, K = gen_model(rng, tier)
            cells = gen.numel(shape)
            X = {"shape": shape, "data": gen.dense_data(rng, shape, 0.25)}
            wk = rng.choice(["none", "none", "ones", "mask", "ints", "halves"])
            W = None if wk == "none" else {"shape": shape, "data": frac_w(rng, cells, wk)}
            wantF, wantG = rng.choice([(True, True), (True, True), (True, False), (False, True)])
            c = {"K": K, "X": X, "W": W, "wk": wk, "handle": rng.choice(list(STANDINS)), "wantF": wantF, "wantG": wantG,
                 "sparseX": rng.random() < 0.25, "bad": None, "lw": rng.choice(LAYOUTS)}
            r = rng.random()
            if r < 0.04:
                c["wantF"] = c["wantG"] = False
                c["bad"] = "nohandle"
            elif r < 0.09:
                big = [j for j, s in enumerate(shape) if s >= 2]
                if big:
                    j = rng.choice(big)
                    s2 = list(shape)
                    s2[j] += 1
                    which = "W" if (W is not None and rng.random() < 0.5) else "X"
                    c[which] = {"shape": s2, "data": (gen.dense_data(rng, s2, 0.25) if which == "X"
                                                      else frac_w(rng, gen.numel(s2), "ints"))}
                    c["bad"] = "shape" + which
                    c["sparseX"] = False
            if c["bad"] is None and c["wantF"] and c["wantG"]:
                k = rng.randrange(len(shape))
                c["probe"] = [k, rng.randrange(shape[k]), rng.randrange(len(K["weights"]))]
            out.append(c)
        return out

    @staticmethod
    def _impl(c, K=None, wantF=None, wantG=None):
        K = K or c["K"]
        wantF = c["wantF"] if wantF is None else wantF
        wantG = c["wantG"] if wantG is None else wantG
        f, g = pick(c["handle"], wantF, wantG)
        X = gen.mk_tensor(ttb, c["X"]["shape"], c["X"]["data"])
        if c.get("sparseX"):
            X = X.to_sptensor() if hasattr(X, "to_sptensor") else ttb.sptensor.from_tensor_type(X)
        W = None
        if c["W"] is not None:
            W = nd_from_F(c["W"]["shape"], c["W"]["data"], c.get("lw", "F"))
        with warnings.catch_warnings():
            warnings.simplefilter("ignore")
            return fg_canon(fg.evaluate(mk_k(K), X, W, f, g), wantF, wantG)

    def evaluate(self, cases):
        impls = [call(self._impl, c) for c in cases]
        models = drive([{"op": "gcp_evaluate", "K": c["K"], "X": c["X"], "W": c["W"], "handle": c["handle"],
                         "wantF": c["wantF"], "wantG": c["wantG"]} for c in cases])
        out = []
        for c, impl, mo in zip(cases, impls, models):
            shape = c["K"]["factors"] and [len(f) for f in c["K"]["factors"]]
            unit = all(w == 1 for w in c["K"]["weights"])
            lam = [Fraction(w) for w in c["K"]["weights"]]
            tags = [f"N{len(shape)}", f"R{len(c['K']['weights'])}", "W:" + c["wk"], "unitλ" if unit else "λ≠1",
                    *(["λ<0"] if any(w < 0 for w in lam) else []), *(["λ=0"] if any(w == 0 for w in lam) else []),
                    ("F" if c["wantF"] else "") + ("G" if c["wantG"] else ""), "sparseX" if c.get("sparseX") else "denseX"]
            if c["bad"]:
                tags.append("bad:" + c["bad"])
            if impl.get("reject"):
                tags.append("reject")
            nt = "ok" in impl and nontriv(c["K"], c["X"]["data"])
            if not deep_eq(strip_exc(impl), mo):
                out.append(Verdict("violation", "fg.evaluate differs from the (proved) model", impl, mo, None, tags, nt))
                continue
            v = Verdict("ok", "", impl, mo, None, tags, nt)
            if "ok" in impl and c["bad"] is None:
                f, g = STANDINS[c["handle"]]
                # objective = (weighted) sum of the loss over all entries, from the definition
                if c["wantF"]:
                    tot = Fraction(0)
                    for idx, i in enumerate(gen.all_subs(shape)):
                        w = Fraction(1) if c["W"] is None else Fraction(c["W"]["data"][idx])
                        tot += w * f(Fraction(c["X"]["data"][idx]), kget(c["K"], i))
                    if not deep_eq(impl["ok"]["F"], jnum(tot)):
                        v = Verdict("violation", "objective is not the weighted sum of the loss over all entries",
                                    impl, mo, jnum(tot), tags, nt)
                # gradient entry = exact partial derivative of the implementation's own objective:
                # the objective is a polynomial of degree <= 3 in one factor entry, so the 5-point
                # stencil with step 1 is exact.  Any model weights (C12_gradient_is_partial_derivative).
                if v.status == "ok" and c.get("probe"):
                    k, a, r = c["probe"]
                    vals = []
                    for dt in (2, 1, -1, -2):
                        K2 = {"weights": c["K"]["weights"], "factors": [[list(row) for row in fm] for fm in c["K"]["factors"]]}
                        K2["factors"][k][a][r] += dt
                        o = call(self._impl, c, K2, True, False)
                        vals.append(Fraction(o["ok"]["F"]) if "ok" in o else None)
                    if None not in vals:
                        d = (-vals[0] + 8 * vals[1] - 8 * vals[2] + vals[3]) / 12
                        got = impl["ok"]["G"][k][a][r]
                        if not deep_eq(got, jnum(d)):
                            v = Verdict("violation", f"gradient entry G[{k}][{a},{r}] = {got} is not the partial derivative "
                                                     f"{d} of the objective", impl, mo, jnum(d), tags + ["probe"], nt)
                        else:
                            v.tags = tuple(list(v.tags) + ["probe"])
            out.append(v)
        return out

    def shrink(self, case):
        c = case
        R = len(c["K"]["weights"])
        if R > 1:
            K2 = {"weights": c["K"]["weights"][:-1], "factors": [[row[:-1] for row in f] for f in c["K"]["factors"]]}
            c2 = {**c, "K": K2}
            if c.get("probe") and c["probe"][2] >= R - 1:
                c2["probe"] = [c["probe"][0], c["probe"][1], 0]
            yield c2
        if c["W"] is not None and c["bad"] is None:
            yield {**c, "W": None, "wk": "none"}
        if c.get("sparseX"):
            yield {**c, "sparseX": False}


# ----------------------------------------------------------------------------
# memory layouts: the same logical array (same value at every subscript) stored differently.
# Nothing in the property depends on how NumPy happens to store an argument.
# ----------------------------------------------------------------------------
LAYOUTS = ["F", "C", "T", "S"]          # Fortran-contiguous, C-contiguous, permuted-axes view, strided view
VEC_LAYOUTS = ["C", "S", "N"]           # 1-d: contiguous, strided view, negative-stride view


def lay(a, layout):
    """An array equal to `a` entry by entry whose memory layout is `layout`."""
    a = np.asarray(a)
    if layout == "F":
        out = np.array(a, order="F", copy=True)
    elif layout == "C":
        out = np.array(a, order="C", copy=True)
    elif layout == "T":
        # a view with permuted axes of a C-contiguous base (neither C nor F contiguous for order >= 3)
        n = a.ndim
        if n < 2:
            out = np.array(a, copy=True)
        else:
            p = list(range(1, n)) + [0]
            inv = [p.index(k) for k in range(n)]
            out = np.array(a.transpose(p), order="C", copy=True).transpose(inv)
    elif layout == "S":
        # every second cell of a larger buffer filled with junk
        base = np.full(tuple(2 * s + 1 for s in a.shape), 7777, dtype=a.dtype)
        out = base[tuple(slice(1, None, 2) for _ in a.shape)]
        out[...] = a
    elif layout == "N":
        # negative strides along every axis
        rev = tuple(slice(None, None, -1) for _ in a.shape)
        out = np.array(a[rev], order="C", copy=True)[rev]
    else:
        raise ValueError(layout)
    assert out.shape == a.shape and np.array_equal(out, a)
    return out


def nd_from_F(shape, data, layout, dtype=float):
    """F-order value list -> ndarray of the given shape (value by subscript) in the given layout."""
    vals = to_float_list(data) if dtype is float else list(data)
    return lay(np.array(vals, dtype=dtype).reshape(tuple(shape), order="F"), layout)


def mk_k_lay(K, layout):
    R = len(K["weights"])
    fms = [lay(np.array(f, dtype=float).reshape(len(f), R), layout) for f in K["factors"]]
    return ttb.ktensor(fms, np.array(to_float_list(K["weights"])))


def distinct_values(rng, n, lo=-6, hi=9):
    """non-constant, pairwise distinct where the pool allows it"""
    pool = [v for v in range(lo, hi + 1) if v != 0]
    rng.shuffle(pool)
    out = (pool * (n // len(pool) + 1))[:n]
    return out


def mask_values(rng, n):
    """a 0/1 mask that is neither constant nor symmetric under reversal"""
    while True:
        m = [rng.choice([0, 1]) for _ in range(n)]
        if n < 2 or (0 < sum(m) < n and (m != m[::-1] or n == 2)):
            return m


LAYOUT_SHAPES = [[2, 3], [3, 1, 2], [2, 3, 2]]   # non-cubical, at least two non-singleton modes


def exact_objective(K, shape, xdata, wdata, handle):
    f = STANDINS[handle][0]
    tot = Fraction(0)
    for idx, i in enumerate(gen.all_subs(shape)):
        w = Fraction(1) if wdata is None else Fraction(wdata[idx])
        tot += w * f(Fraction(xdata[idx]), kget(K, i))
    return tot


class EvaluateLayouts(Family):
    """fg.evaluate must index weights / data / factor matrices BY SUBSCRIPT whatever their memory
    layout: every combination of layouts of the three array arguments is enumerated."""
    name = "evaluate_layouts"
    theorems = ("C12_objective_sum", "C12_gradient_is_partial_derivative")

    def gen(self, rng, tier):
        out = []
        reps = 1 if tier == "quick" else 4
        hs = list(STANDINS)
        n = 0
        for _ in range(reps):
            for shape in LAYOUT_SHAPES:
                cells = gen.numel(shape)
                for wk in ("ints", "mask"):
                    R = rng.randint(1, 3)
                    K = {"weights": [rng.choice([1, 1, 2, -1]) for _ in range(R)],
                         "factors": [gen.matrix(rng, s, R, -3, 3, 0.15) for s in shape]}
                    X = {"shape": shape, "data": distinct_values(rng, cells)}
                    W = {"shape": shape, "data": distinct_values(rng, cells, 1, 9) if wk == "ints" else mask_values(rng, cells)}
                    k = rng.randrange(len(shape))
                    probe = [k, rng.randrange(shape[k]), rng.randrange(R)]
                    for lw, lx, lf in itertools.product(LAYOUTS, LAYOUTS, LAYOUTS):
                        out.append({"K": K, "X": X, "W": W, "wk": wk, "handle": hs[n % len(hs)], "probe": probe,
                                    "lw": lw, "lx": lx, "lf": lf, "xcopy": bool(n % 2)})
                        n += 1
        return out

    @staticmethod
    def _impl(c, K=None, wantG=True):
        K = K or c["K"]
        f, g = pick(c["handle"], True, wantG)
        W = nd_from_F(c["W"]["shape"], c["W"]["data"], c["lw"])
        W0 = W.copy()
        import logging
        with warnings.catch_warnings():
            warnings.simplefilter("ignore")
            logging.disable(logging.WARNING)
            try:
                X = ttb.tensor(nd_from_F(c["X"]["shape"], c["X"]["data"], c["lx"]), copy=c["xcopy"])
                res = fg.evaluate(mk_k_lay(K, c["lf"]), X, W, f, g)
            finally:
                logging.disable(logging.NOTSET)
        if not np.array_equal(W, W0):
            raise AssertionError("evaluate changed the weights array")
        return fg_canon(res, True, wantG)

    def evaluate(self, cases):
        impls = [call(self._impl, c) for c in cases]
        # the model does not know about layouts: one request per distinct logical input
        keys, reqs = {}, []
        for c in cases:
            key = case_key(c)
            if key not in keys:
                keys[key] = len(reqs)
                reqs.append({"op": "gcp_evaluate", "K": c["K"], "X": c["X"], "W": c["W"], "handle": c["handle"],
                             "wantF": True, "wantG": True})
        models = drive(reqs)
        out = []
        for c, impl in zip(cases, impls):
            mo = models[keys[case_key(c)]]
            shape = c["X"]["shape"]
            tags = [f"N{len(shape)}", "W:" + c["wk"], f"w{c['lw']}", f"x{c['lx']}", f"f{c['lf']}"]
            if "ok" not in impl:
                out.append(Verdict("violation", f"fg.evaluate raised {impl.get('exc')}: {impl.get('msg')} for weights in "
                                                f"layout {c['lw']}, data {c['lx']}, factors {c['lf']}", impl, mo, None, tags))
                continue
            spec = jnum(exact_objective(c["K"], shape, c["X"]["data"], c["W"]["data"], c["handle"]))
            if not deep_eq(impl["ok"]["F"], spec):
                out.append(Verdict("violation", f"objective {impl['ok']['F']} is not the sum over all subscripts i of "
                                                f"w[i]*f(x[i], m[i]) = {spec} (weights layout {c['lw']}, data {c['lx']}, "
                                                f"factors {c['lf']})", impl, mo, spec, tags))
                continue
            if not deep_eq(impl, mo):
                out.append(Verdict("violation", f"fg.evaluate differs from the (proved) model (weights layout {c['lw']}, "
                                                f"data {c['lx']}, factors {c['lf']})", impl, mo, None, tags))
                continue
            # gradient entry = exact partial derivative of the implementation's own objective (5-point stencil,
            # exact for the polynomial stand-ins)
            k, a, r = c["probe"]
            vals = []
            for dt in (2, 1, -1, -2):
                K2 = {"weights": c["K"]["weights"], "factors": [[list(row) for row in fm] for fm in c["K"]["factors"]]}
                K2["factors"][k][a][r] += dt
                o = call(self._impl, c, K2, False)
                vals.append(Fraction(o["ok"]["F"]) if "ok" in o else None)
            if None not in vals:
                d = (-vals[0] + 8 * vals[1] - 8 * vals[2] + vals[3]) / 12
                got = impl["ok"]["G"][k][a][r]
                if not deep_eq(got, jnum(d)):
                    out.append(Verdict("violation", f"gradient entry G[{k}][{a},{r}] = {got} is not the partial derivative "
                                                    f"{d} of the objective (weights layout {c['lw']})", impl, mo, jnum(d), tags))
                    continue
            out.append(Verdict("ok", "", impl, mo, spec, tags, True))
        return out

    def shrink(self, case):
        for key in ("lf", "lx"):
            if case[key] != "F":
                yield {**case, key: "F"}
        R = len(case["K"]["weights"])
        if R > 1:
            K2 = {"weights": case["K"]["weights"][:-1], "factors": [[row[:-1] for row in f] for f in case["K"]["factors"]]}
            yield {**case, "K": K2, "probe": [case["probe"][0], case["probe"][1], min(case["probe"][2], R - 2)]}


def case_key(c):
    import json as _json
    return _json.dumps([c["K"], c["X"], c["W"], c["handle"]], sort_keys=True)


class EstimateLayouts(Family):
    """fg_est.estimate / estimate_helper with the subscript matrix, the value / weight / correction
    vectors and the factor matrices in every layout."""
    name = "estimate_layouts"
    theorems = ("C12_estimate_helper", "C12_zexp")

    def gen(self, rng, tier):
        out = []
        reps = 1 if tier == "quick" else 4
        hs = list(STANDINS)
        n = 0
        for _ in range(reps):
            for shape in LAYOUT_SHAPES:
                R = rng.randint(1, 3)
                K = {"weights": [1] * R, "factors": [gen.matrix(rng, s, R, -3, 3, 0.15) for s in shape]}
                ns = rng.randint(4, 7)
                subs = [[rng.randrange(s) for s in shape] for _ in range(ns)]
                subs[-1] = list(subs[0])  # a repeat
                crng = sorted({rng.randrange(ns) for _ in range(2)})
                base = {"K": K, "subs": subs, "ncols": len(shape), "xvals": distinct_values(rng, ns),
                        "w": distinct_values(rng, ns, 1, 9), "crng": crng}
                for ls, lv, lf in itertools.product(LAYOUTS, VEC_LAYOUTS, LAYOUTS):
                    out.append({**base, "handle": hs[n % len(hs)], "ls": ls, "lv": lv, "lf": lf, "use_crng": bool(n % 2)})
                    n += 1
        return out

    @staticmethod
    def _impl(c):
        f, g = STANDINS[c["handle"]]
        subs = lay(np.array(c["subs"], dtype=int).reshape(len(c["subs"]), c["ncols"]), c["ls"])
        xv = lay(np.array(c["xvals"], dtype=float), c["lv"])
        w = lay(np.array(c["w"], dtype=float), c["lv"])
        crng = lay(np.array(c["crng"], dtype=int), c["lv"]) if c["use_crng"] else None
        with warnings.catch_warnings():
            warnings.simplefilter("ignore")
            import logging
            logging.disable(logging.WARNING)
            try:
                K = mk_k_lay(c["K"], c["lf"])
                res = fg_est.estimate(K, subs, xv, w, f, g, False, crng)
                mv, Z = fg_est.estimate_helper(K.factor_matrices, subs)
            finally:
                logging.disable(logging.NOTSET)
        return {"est": fg_canon(res, True, True),
                "helper": {"mvals": jval(np.asarray(mv)), "Zexp": [jval(np.asarray(z)) for z in Z]}}

    def evaluate(self, cases):
        impls = [call(self._impl, c) for c in cases]
        reqs = []
        for c in cases:
            reqs.append({"op": "gcp_estimate", "K": c["K"], "subs": c["subs"], "xvals": c["xvals"], "w": c["w"],
                         "handle": c["handle"], "wantF": True, "wantG": True,
                         "crng": c["crng"] if c["use_crng"] else None})
            reqs.append({"op": "gcp_helper", "factors": c["K"]["factors"], "subs": c["subs"]})
        models = drive(reqs)
        out = []
        for i, (c, impl) in enumerate(zip(cases, impls)):
            m_est, m_help = models[2 * i], models[2 * i + 1]
            tags = [f"N{c['ncols']}", f"s{c['ls']}", f"v{c['lv']}", f"f{c['lf']}", "crng" if c["use_crng"] else "nocrng"]
            where = f"(subscripts layout {c['ls']}, vectors {c['lv']}, factors {c['lf']})"
            if "ok" not in impl:
                out.append(Verdict("violation", f"estimate raised {impl.get('exc')}: {impl.get('msg')} {where}", impl, m_est, None, tags))
            elif not deep_eq({"ok": impl["ok"]["helper"]}, m_help):
                out.append(Verdict("violation", f"estimate_helper differs from the (proved) model {where}", impl, m_help, None, tags))
            elif not deep_eq({"ok": impl["ok"]["est"]}, m_est):
                out.append(Verdict("violation", f"estimate differs from the (proved) model {where}", impl, m_est, None, tags))
            else:
                out.append(Verdict("ok", "", impl, m_est, None, tags, True))
        return out


class GcpOptMask(Family):
    """the mask / weights array forwarded by gcp_opt(LBFGSB, mask=ndarray | tensor): SciPy's L-BFGS-B is
    replaced by a stand-in that evaluates the objective and gradient once at the initial guess; what it is
    handed must be the weighted objective and its exact partial derivatives, whatever the layout of the mask."""
    name = "gcp_opt_mask"
    theorems = ("C12_objective_sum", "C12_gradient_is_partial_derivative", "C12_evaluate_mask")

    def gen(self, rng, tier):
        out = []
        reps = 1 if tier == "quick" else 3
        hs = list(STANDINS)
        n = 0
        for _ in range(reps):
            for shape in LAYOUT_SHAPES:
                cells = gen.numel(shape)
                R = rng.randint(1, 2)
                # signed one-hot columns: normalize("all") leaves such an initial guess unchanged, exactly
                factors = []
                for s in shape:
                    cols = [(rng.randrange(s), rng.choice([1, -1])) for _ in range(R)]
                    factors.append([[sg if row == j else 0 for (j, sg) in cols] for row in range(s)])
                K = {"weights": [1] * R, "factors": factors}
                X = {"shape": shape, "data": distinct_values(rng, cells)}
                kinds = [("ndarray", "mask"), ("ndarray", "ints"), ("tensor", "mask")]
                for (mtype, wk) in kinds:
                    W = {"shape": shape, "data": mask_values(rng, cells) if wk == "mask" else distinct_values(rng, cells, 1, 9)}
                    for lw, lx in itertools.product(LAYOUTS, LAYOUTS):
                        out.append({"K": K, "X": X, "W": W, "wk": wk, "mtype": mtype, "lw": lw, "lx": lx,
                                    "handle": hs[n % len(hs)]})
                        n += 1
        return out

    @staticmethod
    def _impl(c):
        import logging
        from pyttb.gcp import optimizers as O
        f, g = STANDINS[c["handle"]]
        rec = []

        def standin(func, x0, fprime=None, approx_grad=False, bounds=None, **kw):
            fv, gv = func(np.array(x0, dtype=float))
            rec.append((float(fv), np.array(gv, dtype=float)))
            return np.array(x0, dtype=float), fv, {"grad": gv, "warnflag": 0, "nit": 0, "funcalls": 1, "task": "stand-in"}

        X = ttb.tensor(nd_from_F(c["X"]["shape"], c["X"]["data"], c["lx"]))
        Wn = nd_from_F(c["W"]["shape"], c["W"]["data"], c["lw"])
        mask = ttb.tensor(Wn) if c["mtype"] == "tensor" else Wn
        init = mk_k(c["K"])
        old = O.fmin_l_bfgs_b
        O.fmin_l_bfgs_b = standin
        logging.disable(logging.WARNING)
        try:
            with warnings.catch_warnings():
                warnings.simplefilter("ignore")
                result, M0, info = ttb.gcp_opt(X, len(c["K"]["weights"]), (f, g, -np.inf), O.LBFGSB(maxiter=1),
                                               init=init, mask=mask, printitn=0)
        finally:
            O.fmin_l_bfgs_b = old
            logging.disable(logging.NOTSET)
        if not rec:
            raise AssertionError("the optimiser was never called")
        same_init = (np.array_equal(M0.weights, init.weights)
                     and all(np.array_equal(a, b) for a, b in zip(M0.factor_matrices, init.factor_matrices)))
        fv, gv = rec[0]
        G, pos = [], 0
        for fm in init.factor_matrices:
            nel = fm.size
            G.append(jval(gv[pos:pos + nel].reshape(fm.shape, order="F")))
            pos += nel
        return {"F": jnum(fv), "G": G, "same_init": bool(same_init), "final_f": jnum(float(info["final_f"]))}

    def evaluate(self, cases):
        impls = [call(self._impl, c) for c in cases]
        reqs = []
        for c in cases:
            # a tensor mask is also multiplied into the data by gcp_opt (missing entries are zeroed)
            xd = c["X"]["data"] if c["mtype"] == "ndarray" else [x * w for x, w in zip(c["X"]["data"], c["W"]["data"])]
            reqs.append({"op": "gcp_evaluate", "K": c["K"], "X": {"shape": c["X"]["shape"], "data": xd}, "W": c["W"],
                         "handle": c["handle"], "wantF": True, "wantG": True})
        models = drive(reqs)
        out = []
        for c, impl, mo, rq in zip(cases, impls, models, reqs):
            tags = [f"N{len(c['X']['shape'])}", c["mtype"], "W:" + c["wk"], f"w{c['lw']}", f"x{c['lx']}"]
            where = f"(mask {c['mtype']} in layout {c['lw']}, data layout {c['lx']})"
            if "ok" not in impl:
                out.append(Verdict("violation", f"gcp_opt raised {impl.get('exc')}: {impl.get('msg')} {where}", impl, mo, None, tags))
                continue
            r = impl["ok"]
            if not r["same_init"]:
                out.append(Verdict("corr", "gcp_opt changed a signed one-hot initial guess while normalising", impl, mo, None, tags))
                continue
            spec = jnum(exact_objective(c["K"], c["X"]["shape"], rq["X"]["data"], c["W"]["data"], c["handle"]))
            if c["wk"] == "mask":
                # a 0/1 mask (ndarray or tensor): the loss summed over the unmasked entries only (C12_evaluate_mask)
                f0 = STANDINS[c["handle"]][0]
                only = sum((f0(Fraction(rq["X"]["data"][idx]), kget(c["K"], i))
                            for idx, i in enumerate(gen.all_subs(c["X"]["shape"])) if c["W"]["data"][idx] != 0), Fraction(0))
                if not deep_eq(spec, jnum(only)):
                    out.append(Verdict("corr", "masked sum and weighted sum of the specification differ", spec, jnum(only), None, tags))
                    continue
                tags.append("masked-sum")
            if not deep_eq(r["F"], spec) or not deep_eq(r["final_f"], spec):
                out.append(Verdict("violation", f"the objective handed to the optimiser, {r['F']}, is not the sum over all "
                                                f"subscripts i of w[i]*f(x[i], m[i]) = {spec} {where}", impl, mo, spec, tags))
            elif not deep_eq({"ok": {"F": r["F"], "G": r["G"]}}, mo):
                out.append(Verdict("violation", f"the objective / gradient handed to the optimiser differ from the (proved) "
                                                f"model of evaluate {where}", impl, mo, spec, tags))
            else:
                out.append(Verdict("ok", "", impl, mo, spec, tags, True))
        return out


class AllModes(Family):
    name = "all_modes_vs_each_mode"
    theorems = ("C12_all_modes_eq_each",)

    def gen(self, rng, tier):
        out = []
        n = 40 if tier == "quick" else 500
        for _ in range(n):
            N = rng.randint(2, 4)
            shape = gen.shape(rng, N, N, 3 if (tier == "quick" or N == 4) else 4, distinct=rng.random() < 0.7)
            R = rng.randint(1, 3)
            lam = None
            if rng.random() < 0.5:  # a Kruskal operand: its weights scale the columns of every result
                lam = [rng.choice([-2, -1, 0, 1, 2, 3, jnum(Fraction(1, 2))]) for _ in range(R)]
            out.append({"T": {"shape": shape, "data": gen.dense_data(rng, shape, 0.25)},
                        "U": [gen.matrix(rng, s, R, -3, 3, 0.2) for s in shape], "R": R, "weights": lam})
        return out

    def evaluate(self, cases):
        reqs, impls = [], []
        for c in cases:
            N = len(c["T"]["shape"])

            def run(c=c, N=N):
                T = gen.mk_tensor(ttb, c["T"]["shape"], c["T"]["data"])
                U = [np.array(u, dtype=float).reshape(len(u), c["R"]) for u in c["U"]]
                if c.get("weights") is not None:
                    U = ttb.ktensor(U, np.array(to_float_list(c["weights"])))
                return {"all": [jval(np.asarray(g)) for g in T.mttkrps(U)],
                        "each": [jval(np.asarray(T.mttkrp(U, k))) for k in range(N)]}
            impls.append(call(run))
            for k in range(N):
                reqs.append({"op": "gcp_mttkrp", "T": c["T"], "U": c["U"], "R": c["R"], "k": k,
                             "weights": c.get("weights")})
        models = drive(reqs)
        out, pos = [], 0
        for c, impl in zip(cases, impls):
            N = len(c["T"]["shape"])
            mo = models[pos:pos + N]
            pos += N
            tags = [f"N{N}", f"R{c['R']}", "ktensor-operand" if c.get("weights") is not None else "matrix-list"]
            nt = any(v != 0 for v in c["T"]["data"])
            if "ok" not in impl:
                out.append(Verdict("violation", "mttkrps / mttkrp raised", impl, mo, None, tags, False))
            elif not deep_eq(impl["ok"]["all"], impl["ok"]["each"]):
                out.append(Verdict("violation", "computing all mode gradients at once differs from one mode at a time",
                                   impl, mo, None, tags, nt))
            elif not deep_eq(impl["ok"]["all"], mo):
                out.append(Verdict("violation", "mttkrps differs from the defining sum", impl, mo, mo, tags, nt))
            else:
                out.append(Verdict("ok", "", impl, mo, None, tags, nt))
        return out


def gen_samples(rng, shape, tier, allow_bad=True):
    nmax = 8 if tier == "quick" else 12
    n = rng.choice([1, 2, 3, rng.randint(0, nmax), rng.randint(0, nmax), rng.randint(2, nmax)])
    subs = [[rng.randrange(s) for s in shape] for _ in range(n)]
    if subs and rng.random() < 0.5:  # repeats
        for _ in range(rng.randint(1, 3)):
            subs.insert(rng.randint(0, len(subs)), list(rng.choice(subs)))
    bad = False
    if allow_bad and subs and rng.random() < 0.06:
        j = rng.randrange(len(shape))
        subs[rng.randrange(len(subs))][j] = shape[j] + rng.randint(0, 1)
        bad = True
    return subs, bad


class EstimateCorr(Family):
    name = "estimate"
    theorems = ("C12_zexp", "C12_estimate_full_sample")

    def gen(self, rng, tier):
        out = []
        n = 80 if tier == "quick" else 900
        for _ in range(n):
            kind = rng.choice(["estimate", "estimate", "estimate", "helper"])
            shape, K = gen_model(rng, tier, nmin=1 if rng.random() < 0.08 else 2)
            subs, bad = gen_samples(rng, shape, tier)
            ns = len(subs)
            if kind == "helper":
                out.append({"k": "helper", "K": K, "subs": subs, "bad": bad, "ncols": len(shape)})
                continue
            unit = all(w == 1 for w in K["weights"])
            wantF, wantG = rng.choice([(True, True), (True, True), (True, False), (False, True)])
            crng = None
            if ns and rng.random() < 0.4:
                crng = [rng.randrange(ns) for _ in range(rng.randint(1, 4))]
                if rng.random() < 0.1:
                    crng[rng.randrange(len(crng))] = ns + rng.randint(0, 1)
            c = {"k": "estimate", "K": K, "subs": subs, "ncols": len(shape),
                 "xvals": gen.int_values(rng, ns, -4, 4),
                 "w": frac_w(rng, ns, rng.choice(["ones", "ints", "halves", "mask"])),
                 "handle": rng.choice(list(STANDINS)), "wantF": wantF, "wantG": wantG, "crng": crng,
                 "lambda_check": bool(unit and rng.random() < 0.5), "bad": bad}
            r = rng.random()
            if r < 0.03:
                c["wantF"] = c["wantG"] = False
            elif r < 0.07 and ns >= 2:
                c["xvals"] = c["xvals"] + [1, 2]  # lengths differ by 2: not broadcastable
            out.append(c)
        return out

    @staticmethod
    def _subs_arr(c):
        return np.array(c["subs"], dtype=int).reshape(len(c["subs"]), c["ncols"])

    def _impl(self, c):
        with warnings.catch_warnings():
            warnings.simplefilter("ignore")
            if c["k"] == "helper":
                U = [np.array(f, dtype=float).reshape(len(f), len(c["K"]["weights"])) for f in c["K"]["factors"]]
                mv, Z = fg_est.estimate_helper(U, self._subs_arr(c))
                return {"mvals": jval(np.asarray(mv)), "Zexp": [jval(np.asarray(z)) for z in Z]}
            f, g = pick(c["handle"], c["wantF"], c["wantG"])
            crng = None if c["crng"] is None else np.array(c["crng"], dtype=int)
            res = fg_est.estimate(mk_k(c["K"]), self._subs_arr(c), np.array(to_float_list(c["xvals"])),
                                  np.array(to_float_list(c["w"])), f, g, c["lambda_check"], crng)
            return fg_canon(res, c["wantF"], c["wantG"])

    def evaluate(self, cases):
        impls = [call(self._impl, c) for c in cases]
        reqs = []
        for c in cases:
            if c["k"] == "helper":
                reqs.append({"op": "gcp_helper", "factors": c["K"]["factors"], "subs": c["subs"]})
            else:
                reqs.append({"op": "gcp_estimate", "K": c["K"], "subs": c["subs"], "xvals": c["xvals"], "w": c["w"],
                             "handle": c["handle"], "wantF": c["wantF"], "wantG": c["wantG"], "crng": c["crng"]})
        models = drive(reqs)
        out = []
        for c, impl, mo in zip(cases, impls, models):
            N = c["ncols"]
            tags = [c["k"], f"N{N}", f"n{min(len(c['subs']), 9)}"]
            if c["k"] == "estimate":
                tags += ["crng" if c["crng"] is not None else "nocrng", "λcheck" if c["lambda_check"] else "noλcheck",
                         ("F" if c["wantF"] else "") + ("G" if c["wantG"] else "")]
            if len({tuple(s) for s in c["subs"]}) < len(c["subs"]):
                tags.append("repeats")
            if impl.get("reject"):
                tags.append("reject")
            nt = "ok" in impl and len(c["subs"]) > 0
            if not deep_eq(strip_exc(impl), mo):
                out.append(Verdict("violation", f"fg_est.{'estimate_helper' if c['k'] == 'helper' else 'estimate'} differs "
                                                f"from the (proved) model", impl, mo, None, tags, nt))
                continue
            v = Verdict("ok", "", impl, mo, None, tags, nt)
            if c["k"] == "helper" and "ok" in impl and c["subs"]:
                # Zexp[k] = Hadamard product of the gathered rows of all factors but k, from the definition
                R = len(c["K"]["weights"])
                U = c["K"]["factors"]
                spec_Z = [[[math.prod(U[n][s[n]][r] for n in range(N) if n != k) for r in range(R)] for s in c["subs"]]
                          for k in range(N)]
                spec_m = [sum(math.prod(U[n][s[n]][r] for n in range(N)) for r in range(R)) for s in c["subs"]]
                if not deep_eq(impl["ok"], {"mvals": spec_m, "Zexp": spec_Z}):
                    v = Verdict("violation", "Zexp[k] is not the product of the other modes' gathered rows", impl, mo,
                                {"mvals": spec_m, "Zexp": spec_Z}, tags, nt)
            out.append(v)
        return out

    def shrink(self, case):
        c = case
        for i in range(len(c["subs"])):
            c2 = {**c, "subs": c["subs"][:i] + c["subs"][i + 1:]}
            if c["k"] == "estimate":
                if len(c["xvals"]) != len(c["subs"]) or len(c["w"]) != len(c["subs"]):
                    continue
                c2["xvals"] = c["xvals"][:i] + c["xvals"][i + 1:]
                c2["w"] = c["w"][:i] + c["w"][i + 1:]
                if c["crng"] is not None:
                    c2["crng"] = [j - (1 if j > i else 0) for j in c["crng"] if j != i] or None
            yield c2
        if c["k"] == "estimate" and c["crng"] is not None:
            yield {**c, "crng": None}


class FullSample(Family):
    """the sampled estimator on every entry with unit weights == the exact evaluation"""
    name = "full_sample_estimate_eq_evaluate"
    theorems = ("C12_estimate_full_sample",)

    def gen(self, rng, tier):
        out = []
        n = 40 if tier == "quick" else 500
        for _ in range(n):
            shape, K = gen_model(rng, tier, unit=True)
            out.append({"K": K, "X": {"shape": shape, "data": gen.dense_data(rng, shape, 0.25)},
                        "handle": rng.choice(list(STANDINS)), "order": rng.choice(["F", "F", "shuffled"]),
                        "perm_seed": rng.randrange(1 << 30), "lambda_check": rng.random() < 0.5})
        return out

    @staticmethod
    def _subs(c):
        import random
        subs = gen.all_subs(c["X"]["shape"])
        vals = list(c["X"]["data"])
        if c["order"] == "shuffled":
            order = list(range(len(subs)))
            random.Random(c["perm_seed"]).shuffle(order)
            subs, vals = [subs[i] for i in order], [vals[i] for i in order]
        return subs, vals

    def evaluate(self, cases):
        impls, reqs = [], []
        for c in cases:
            subs, vals = self._subs(c)

            def run(c=c, subs=subs, vals=vals):
                f, g = STANDINS[c["handle"]]
                with warnings.catch_warnings():
                    warnings.simplefilter("ignore")
                    K = mk_k(c["K"])
                    est = fg_est.estimate(K, np.array(subs, dtype=int), np.array(vals, dtype=float),
                                          np.ones(len(subs)), f, g, c["lambda_check"], None)
                    ev = fg.evaluate(mk_k(c["K"]), gen.mk_tensor(ttb, c["X"]["shape"], c["X"]["data"]), None, f, g)
                return {"est": fg_canon(est, True, True), "ev": fg_canon(ev, True, True)}
            impls.append(call(run))
            reqs.append({"op": "gcp_estimate", "K": c["K"], "subs": subs, "xvals": vals, "w": [1] * len(subs),
                         "handle": c["handle"], "wantF": True, "wantG": True, "crng": None})
            reqs.append({"op": "gcp_evaluate", "K": c["K"], "X": c["X"], "W": None, "handle": c["handle"],
                         "wantF": True, "wantG": True})
        models = drive(reqs)
        out = []
        for i, (c, impl) in enumerate(zip(cases, impls)):
            m_est, m_ev = models[2 * i], models[2 * i + 1]
            tags = [f"N{len(c['X']['shape'])}", c["order"], f"R{len(c['K']['weights'])}"]
            nt = nontriv(c["K"], c["X"]["data"])
            if "ok" not in impl:
                out.append(Verdict("violation", "estimate / evaluate raised on a full sample", impl, m_ev, None, tags, False))
            elif not deep_eq(impl["ok"]["est"], impl["ok"]["ev"]):
                out.append(Verdict("violation", "the estimator on every entry with unit weights differs from the exact "
                                                "evaluation", impl, m_ev, impl["ok"]["ev"], tags, nt))
            elif not (deep_eq({"ok": impl["ok"]["est"]}, m_est) and deep_eq({"ok": impl["ok"]["ev"]}, m_ev)):
                out.append(Verdict("violation", "estimate / evaluate differ from the (proved) model", impl,
                                   {"est": m_est, "ev": m_ev}, None, tags, nt))
            else:
                out.append(Verdict("ok", "", impl, m_ev, None, tags, nt))
        return out


# ----------------------------------------------------------------------------
# the sampled estimator with arbitrary weights and the correction range; masks
# ----------------------------------------------------------------------------
def unit_model(K):
    return {"weights": [1] * len(K["weights"]), "factors": K["factors"]}


def comp_except(K, k, r, i):
    t = Fraction(1)
    for n, ik in enumerate(i):
        if n != k:
            t *= Fraction(K["factors"][n][ik][r])
    return t


def sampled_spec(K, subs, xvals, w, crng, handle, wantF, wantG):
    """Σ_s w_s·term_s and its partial derivatives, from the definition (exact rationals).  `K` has unit weights."""
    f, g = STANDINS[handle]
    cset = set(crng or [])
    R = len(K["weights"])
    ms = [kget(K, i) for i in subs]

    def term(h, s):
        x, m = Fraction(xvals[s]), ms[s]
        return h(x, m) - h(Fraction(0), m) if s in cset else h(x, m)
    F = sum((Fraction(w[s]) * term(f, s) for s in range(len(subs))), Fraction(0)) if wantF else None
    G = None
    if wantG:
        G = []
        for k, fm in enumerate(K["factors"]):
            Gk = [[Fraction(0)] * R for _ in fm]
            for s, i in enumerate(subs):
                y = Fraction(w[s]) * term(g, s)
                for r in range(R):
                    Gk[i[k]][r] += y * comp_except(K, k, r, i)
            G.append(Gk)
    return {"F": None if F is None else jnum(F), "G": None if G is None else jval(G)}


CRNG_KINDS = ["none", "empty", "partial", "full", "repeats"]


class EstimateWeighted(Family):
    """fg_est.estimate with ARBITRARY sample weights, repeated samples and the correction range of the
    semi-stratified sampler: implementation == proved model == the specification executed in Lean
    (Spec/GcpSampled.lean) == the defining sums evaluated here; every gradient entry of every mode, and the
    exact stencil of the implementation's own objective for one entry per mode."""
    name = "estimate_weighted"
    theorems = ("C12_estimate_weighted", "C12_estimate_crng", "C12_estimate_weighted_is_partial_derivative",
                "C12_estimate_ignores_model_weights")

    def gen(self, rng, tier):
        out = []
        n = 70 if tier == "quick" else 700
        for j in range(n):
            shape, K = gen_model(rng, tier)
            nmax = 8 if tier == "quick" else 12
            ns = rng.choice([1, 2, 3, rng.randint(2, nmax), rng.randint(2, nmax)])
            subs = [[rng.randrange(s) for s in shape] for _ in range(ns)]
            if ns >= 2 and j % 3 != 0:          # repeated subscripts, adjacent and far apart
                subs[-1] = list(subs[0])
                if ns >= 4 and rng.random() < 0.5:
                    subs[2] = list(subs[1])
            wk = ["ones", "ints", "halves", "mask", "zeros", "neg"][j % 6]
            if wk == "zeros":
                w = [0] * ns
            elif wk == "neg":
                w = [-rng.randint(1, 4) for _ in range(ns)]
            else:
                w = frac_w(rng, ns, wk)
            ck = CRNG_KINDS[(j // 2) % len(CRNG_KINDS)]
            if ck == "none":
                crng = None
            elif ck == "empty":
                crng = []
            elif ck == "full":
                crng = list(range(ns))
            elif ck == "partial":
                crng = sorted(rng.sample(range(ns), rng.randint(1, max(1, ns - 1)))) if ns > 1 else [0]
                if len(crng) == ns and ns > 1:
                    crng = crng[:-1]
            else:
                base = [rng.randrange(ns) for _ in range(rng.randint(1, 3))]
                crng = base + [base[0]]
            wantF, wantG = [(True, True), (True, True), (True, False), (False, True)][j % 4]
            unit = all(x == 1 for x in K["weights"])
            out.append({"K": K, "subs": subs, "ncols": len(shape), "xvals": gen.int_values(rng, ns, -4, 4), "w": w,
                        "wk": wk, "crng": crng, "ck": ck, "handle": list(STANDINS)[j % 3], "wantF": wantF, "wantG": wantG,
                        "lambda_check": bool(unit and rng.random() < 0.5),
                        "probes": [[k, rng.randrange(shape[k]), rng.randrange(len(K["weights"]))] for k in range(len(shape))],
                        "lv": rng.choice(VEC_LAYOUTS)})
        return out

    @staticmethod
    def _impl(c, K=None, wantF=None, wantG=None):
        K = K or c["K"]
        wantF = c["wantF"] if wantF is None else wantF
        wantG = c["wantG"] if wantG is None else wantG
        f, g = pick(c["handle"], wantF, wantG)
        subs = np.array(c["subs"], dtype=int).reshape(len(c["subs"]), c["ncols"])
        crng = None if c["crng"] is None else lay(np.array(c["crng"], dtype=int), c["lv"])
        xv = lay(np.array(to_float_list(c["xvals"])), c["lv"])
        w = lay(np.array(to_float_list(c["w"])), c["lv"])
        w0, xv0 = w.copy(), xv.copy()
        with warnings.catch_warnings():
            warnings.simplefilter("ignore")
            res = fg_est.estimate(mk_k(K), subs, xv, w, f, g, c["lambda_check"], crng)
        if not (np.array_equal(w, w0) and np.array_equal(xv, xv0)):
            raise AssertionError("estimate changed its weight / value vectors")
        return fg_canon(res, wantF, wantG)

    def evaluate(self, cases):
        impls = [call(self._impl, c) for c in cases]
        reqs = []
        for c in cases:
            base = {"subs": c["subs"], "xvals": c["xvals"], "w": c["w"], "handle": c["handle"], "wantF": c["wantF"],
                    "wantG": c["wantG"], "crng": c["crng"]}
            reqs.append({"op": "gcp_estimate", "K": c["K"], **base})
            reqs.append({"op": "gcp_sampled_spec", "K": unit_model(c["K"]), **base})
        models = drive(reqs)
        out = []
        for i, (c, impl) in enumerate(zip(cases, impls)):
            mo, lean_spec = models[2 * i], models[2 * i + 1]
            N = c["ncols"]
            unit = all(x == 1 for x in c["K"]["weights"])
            tags = [f"N{N}", f"n{min(len(c['subs']), 9)}", "w:" + c["wk"], "crng:" + c["ck"],
                    "unitλ" if unit else "λ≠1(ignored)", ("F" if c["wantF"] else "") + ("G" if c["wantG"] else ""),
                    "repeats" if len({tuple(t) for t in c["subs"]}) < len(c["subs"]) else "distinct"]
            if "ok" not in impl:
                out.append(Verdict("violation", f"fg_est.estimate raised {impl.get('exc')}: {impl.get('msg')} on in-range "
                                                f"samples", impl, mo, lean_spec, tags))
                continue
            spec = sampled_spec(unit_model(c["K"]), c["subs"], c["xvals"], c["w"], c["crng"], c["handle"],
                                c["wantF"], c["wantG"])
            if not deep_eq(spec, lean_spec):
                out.append(Verdict("corr", "the specification executed in Lean differs from the defining sums", spec,
                                   lean_spec, spec, tags))
                continue
            if not deep_eq(impl["ok"], spec):
                what = "Σ_s w_s·(f(x_s, m_s) − [s ∈ crng]·f(0, m_s))" if not deep_eq(impl["ok"]["F"], spec["F"]) else \
                    "Σ_s w_s·(g(x_s, m_s) − [s ∈ crng]·g(0, m_s))·∂m_s/∂A"
                out.append(Verdict("violation", f"fg_est.estimate does not return {what} (weights {c['wk']}, correction "
                                                f"range {c['ck']})", impl, mo, spec, tags))
                continue
            if not deep_eq(impl, mo):
                out.append(Verdict("violation", "fg_est.estimate differs from the (proved) model", impl, mo, spec, tags))
                continue
            v = Verdict("ok", "", impl, mo, spec, tags, True)
            # the gradient entries are the exact partial derivatives of the implementation's own sampled objective
            # (a polynomial of degree <= 3 in one factor entry: the 5-point stencil with step 1 is exact)
            if c["wantG"]:
                for (k, a, r) in c["probes"]:
                    vals = []
                    for dt in (2, 1, -1, -2):
                        K2 = {"weights": c["K"]["weights"], "factors": [[list(row) for row in fm] for fm in c["K"]["factors"]]}
                        K2["factors"][k][a][r] += dt
                        o = call(self._impl, c, K2, True, False)
                        vals.append(Fraction(o["ok"]["F"]) if "ok" in o else None)
                    if None in vals:
                        continue
                    d = (-vals[0] + 8 * vals[1] - 8 * vals[2] + vals[3]) / 12
                    got = impl["ok"]["G"][k][a][r]
                    if not deep_eq(got, jnum(d)):
                        v = Verdict("violation", f"sampled gradient entry G[{k}][{a},{r}] = {got} is not the partial "
                                                 f"derivative {d} of the sampled objective", impl, mo, jnum(d), tags + ["probe"])
                        break
            out.append(v)
        return out

    def shrink(self, case):
        c = case
        ns = len(c["subs"])
        for i in range(ns):
            if ns <= 1:
                break
            c2 = {**c, "subs": c["subs"][:i] + c["subs"][i + 1:], "xvals": c["xvals"][:i] + c["xvals"][i + 1:],
                  "w": c["w"][:i] + c["w"][i + 1:]}
            if c["crng"] is not None:
                c2["crng"] = [j - (1 if j > i else 0) for j in c["crng"] if j != i]
            yield c2
        if c["crng"]:
            yield {**c, "crng": None, "ck": "none"}
        R = len(c["K"]["weights"])
        if R > 1:
            K2 = {"weights": c["K"]["weights"][:-1], "factors": [[row[:-1] for row in f] for f in c["K"]["factors"]]}
            yield {**c, "K": K2, "probes": [[k, a, min(r, R - 2)] for (k, a, r) in c["probes"]]}


MASK_KINDS = ["all", "none", "some", "some", "single"]
BUILTIN_FOR_MASK = ["GAUSSIAN", "POISSON", "GAMMA", "RAYLEIGH", "BERNOULLI_LOGIT"]


class EvaluateMask(Family):
    """fg.evaluate with a 0/1 mask (ndarray of floats / ints / booleans, any layout): objective and gradients are
    those of the loss summed over the unmasked entries only — implementation == proved model == the masked sum
    executed in Lean == the defining sums; every entry of every mode's gradient against the analytic partial
    derivative of the masked objective.  Also with the real built-in handles (doubles, tolerance)."""
    name = "evaluate_mask"
    theorems = ("C12_evaluate_mask", "C12_evaluate_mask_objective")

    def gen(self, rng, tier):
        out = []
        n = 60 if tier == "quick" else 600
        for j in range(n):
            shape, K = gen_model(rng, tier)
            cells = gen.numel(shape)
            mk = MASK_KINDS[j % len(MASK_KINDS)]
            if mk == "all":
                m = [1] * cells
            elif mk == "none":
                m = [0] * cells
            elif mk == "single":
                m = [0] * cells
                m[rng.randrange(cells)] = 1
            else:
                m = mask_values(rng, cells)
            builtin = BUILTIN_FOR_MASK[(j // 7) % len(BUILTIN_FOR_MASK)] if j % 7 == 3 else None
            c = {"K": K, "X": {"shape": shape, "data": gen.dense_data(rng, shape, 0.25)}, "W": {"shape": shape, "data": m},
                 "mk": mk, "handle": list(STANDINS)[j % 3], "lw": rng.choice(LAYOUTS),
                 "dtype": ["float", "bool", "int"][(j // 3) % 3], "sparseX": rng.random() < 0.2,
                 "wantF": j % 4 != 3, "wantG": j % 4 != 2, "builtin": builtin}
            if builtin:
                # model values inside every loss's domain: positive factor entries and weights; data suited to the loss
                R = len(K["weights"])
                c["K"] = {"weights": [rng.choice([1, 2, jnum(Fraction(1, 2))]) for _ in range(R)],
                          "factors": [[[rng.choice([1, 2, jnum(Fraction(1, 2)), jnum(Fraction(3, 2))]) for _ in range(R)]
                                       for _ in range(s)] for s in shape]}
                c["X"] = {"shape": shape, "data": [rng.choice([0, 1]) if builtin == "BERNOULLI_LOGIT" else rng.randint(0, 4)
                                                   for _ in range(cells)]}
                c["wantF"] = c["wantG"] = True
                c["sparseX"] = False
            out.append(c)
        return out

    @staticmethod
    def _mask_array(c):
        W = nd_from_F(c["W"]["shape"], c["W"]["data"], c["lw"])
        if c["dtype"] == "bool":
            W = lay(W.astype(bool), c["lw"])
        elif c["dtype"] == "int":
            W = lay(W.astype(np.int64), c["lw"])
        return W

    def _impl(self, c):
        if c["builtin"]:
            with warnings.catch_warnings():
                warnings.simplefilter("ignore")
                f, g, _lb = fg_setup.setup(Objectives[c["builtin"]], None, None)
        else:
            f, g = pick(c["handle"], c["wantF"], c["wantG"])
        X = gen.mk_tensor(ttb, c["X"]["shape"], c["X"]["data"])
        if c.get("sparseX"):
            X = X.to_sptensor() if hasattr(X, "to_sptensor") else ttb.sptensor.from_tensor_type(X)
        W = self._mask_array(c)
        W0 = W.copy()
        with warnings.catch_warnings():
            warnings.simplefilter("ignore")
            res = fg.evaluate(mk_k(c["K"]), X, W, f, g)
        if not np.array_equal(W, W0):
            raise AssertionError("evaluate changed the mask")
        if c["builtin"]:
            F, G = res
            return {"F": float(F), "G": [np.asarray(gk, dtype=float).tolist() for gk in G]}
        return fg_canon(res, c["wantF"], c["wantG"])

    @staticmethod
    def _masked_spec(c, f, g, num):
        """(Σ over unmasked i of f(x_i, m_i), analytic partial derivatives of that sum); `num` converts exact values"""
        K, shape = c["K"], c["X"]["shape"]
        R = len(K["weights"])
        F = num(0)
        G = [[[num(0)] * R for _ in fm] for fm in K["factors"]]
        kept = []
        for idx, i in enumerate(gen.all_subs(shape)):
            if c["W"]["data"][idx] == 0:
                continue
            kept.append(list(i))
            x, m = num(Fraction(c["X"]["data"][idx])), num(kget(K, i))
            F += f(x, m)
            y = g(x, m)
            for k in range(len(shape)):
                for r in range(R):
                    G[k][i[k]][r] += y * num(Fraction(K["weights"][r]) * comp_except(K, k, r, i))
        return F, G, kept

    def evaluate(self, cases):
        impls = [call(self._impl, c) for c in cases]
        reqs = []
        for c in cases:
            reqs.append({"op": "gcp_evaluate", "K": c["K"], "X": c["X"], "W": c["W"], "handle": c["handle"],
                         "wantF": c["wantF"], "wantG": c["wantG"]})
            reqs.append({"op": "gcp_masked_spec", "K": c["K"], "X": c["X"], "W": c["W"], "handle": c["handle"]})
        models = drive(reqs)
        out = []
        for i, (c, impl) in enumerate(zip(cases, impls)):
            mo, lean_spec = models[2 * i], models[2 * i + 1]
            lam = [Fraction(x) for x in c["K"]["weights"]]
            tags = [f"N{len(c['X']['shape'])}", "mask:" + c["mk"], "dtype:" + c["dtype"], f"w{c['lw']}",
                    "unitλ" if all(x == 1 for x in lam) else "λ≠1", "sparseX" if c.get("sparseX") else "denseX",
                    ("F" if c["wantF"] else "") + ("G" if c["wantG"] else "")]
            nt = nontriv(c["K"], c["X"]["data"]) and c["mk"] != "none"
            if "ok" not in impl:
                out.append(Verdict("violation", f"fg.evaluate raised {impl.get('exc')}: {impl.get('msg')} for a "
                                                f"{c['dtype']} 0/1 mask", impl, mo, None, tags))
                continue
            if c["builtin"]:
                # doubles: compare with the masked sums of the real handles, relative tolerance
                tags.append("builtin:" + c["builtin"])
                fh = getattr(handles, loss_name(c["builtin"]))
                gh = getattr(handles, grad_name(c["builtin"]))

                def f1(x, m, fh=fh):
                    return float(fh(np.array([x]), np.array([m]))[0])

                def g1(x, m, gh=gh):
                    return float(gh(np.array([x]), np.array([m]))[0])
                F, G, _kept = self._masked_spec(c, f1, g1, float)
                flat = [(impl["ok"]["F"], F)] + [(a, b) for gi, gs in zip(impl["ok"]["G"], G)
                                                 for ri, rs in zip(gi, gs) for a, b in zip(ri, rs)]
                scale = 1.0 + max(abs(b) for _a, b in flat)
                bad = [(a, b) for a, b in flat if not (abs(a - b) <= 1e-9 * scale)]
                if bad:
                    out.append(Verdict("violation", f"{c['builtin']}: with a 0/1 mask the objective / gradients are not those "
                                                    f"of the loss summed over the unmasked entries ({bad[0][0]!r} vs "
                                                    f"{bad[0][1]!r})", jval(impl["ok"]), None, jval({"F": F, "G": G}), tags))
                else:
                    out.append(Verdict("ok", "", jval(impl["ok"]), None, jval({"F": F, "G": G}), tags, nt))
                continue
            f, g = STANDINS[c["handle"]]
            F, G, kept = self._masked_spec(c, f, g, Fraction)
            spec = {"F": jnum(F) if c["wantF"] else None, "G": jval(G) if c["wantG"] else None}
            if not (lean_spec["isMask"] and deep_eq(lean_spec["F"], jnum(F)) and lean_spec["unmasked"] == kept):
                out.append(Verdict("corr", "the masked objective executed in Lean differs from the defining sum",
                                   jnum(F), lean_spec, spec, tags))
                continue
            if not deep_eq(impl["ok"], spec):
                what = "the objective is not the loss summed over the unmasked entries only" \
                    if not deep_eq(impl["ok"]["F"], spec["F"]) else \
                    "a gradient entry is not the partial derivative of the loss summed over the unmasked entries"
                out.append(Verdict("violation", f"0/1 mask ({c['mk']}, {c['dtype']}, layout {c['lw']}): {what}", impl, mo,
                                   spec, tags, nt))
                continue
            if not deep_eq(impl, mo):
                out.append(Verdict("violation", "fg.evaluate differs from the (proved) model", impl, mo, spec, tags, nt))
                continue
            out.append(Verdict("ok", "", impl, mo, spec, tags, nt))
        return out

    def shrink(self, case):
        c = case
        if c["builtin"]:
            return
        R = len(c["K"]["weights"])
        if R > 1:
            yield {**c, "K": {"weights": c["K"]["weights"][:-1],
                              "factors": [[row[:-1] for row in f] for f in c["K"]["factors"]]}}
        if c["lw"] != "F":
            yield {**c, "lw": "F"}
        if c["dtype"] != "float":
            yield {**c, "dtype": "float"}
        if c.get("sparseX"):
            yield {**c, "sparseX": False}


def families():
    return [HandleFidelity(), DerivativeGrid(), SymbolicDerivative(), TablePairing(), EvaluateCorr(), EvaluateLayouts(),
            GcpOptMask(), EstimateLayouts(), AllModes(), EstimateCorr(), FullSample(), EstimateWeighted(), EvaluateMask()]
