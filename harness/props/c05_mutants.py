"""C05 self-test (NOT part of ./check): in-memory mutants of the methods that have step-level entries in
Heap/Table2.lean – pyttb is monkeypatched in this process only, /repo is not touched – run through the
C05 operation families; prints, per mutant, the (class, method, status) of the verdicts that are not ok.
Every mutant must be reported (`violation`), the baseline must be empty.

    cd <framework> && PYTHONPATH=/repo:. /venv/bin/python harness/props/c05_mutants.py
"""
import random, sys, copy as _copy
import os
sys.path.insert(0, os.path.dirname(os.path.dirname(os.path.dirname(os.path.abspath(__file__)))))
import numpy as np
import pyttb as ttb
from harness.props import c05

def run(fams, label):
    found = {}
    for f in c05.families():
        if f.name not in fams:
            continue
        cases = f.gen(random.Random(0), "quick")
        vs = f.evaluate(cases)
        for c, v in zip(cases, vs):
            if v.status != "ok":
                key = (c.get("cls"), c.get("method"), v.status)
                found.setdefault(key, []).append(v.text if hasattr(v, "text") else str(v)[:100])
    print(label, {k: len(v) for k, v in found.items()})
    return found

muts = []
def mut(name, fams):
    def deco(fn):
        muts.append((name, fams, fn)); return fn
    return deco

@mut("tenmat.ctranspose copy=False", ["ops_tenmat"])
def m1():
    orig = ttb.tenmat.ctranspose
    def f(self):
        return ttb.tenmat(self.data.conj().T, self.cindices, self.rindices, self.tshape, copy=False)
    ttb.tenmat.ctranspose = f
    return lambda: setattr(ttb.tenmat, "ctranspose", orig)

@mut("tenmat.double no copy", ["ops_tenmat"])
def m2():
    orig = ttb.tenmat.double
    def f(self):
        return ttb.pyttb_utils.to_memory_order(self.data, "F", copy=False).astype(np.float64, copy=False)
    ttb.tenmat.double = f
    return lambda: setattr(ttb.tenmat, "double", orig)

@mut("sptenmat.to_sptensor copy=False", ["ops_sptenmat"])
def m3():
    orig = ttb.sptensor.__init__
    import inspect
    origm = ttb.sptenmat.to_sptensor
    src = inspect.getsource(origm)
    def f(self):
        r = origm(self)
        if self.vals.size:
            r.vals = self.vals
        return r
    ttb.sptenmat.to_sptensor = f
    return lambda: setattr(ttb.sptenmat, "to_sptensor", origm)

@mut("sptenmat.__neg__ in place on self", ["ops_sptenmat"])
def m4():
    orig = ttb.sptenmat.__neg__
    def f(self):
        self.vals *= -1
        r = self.copy()
        self.vals *= -1
        r2 = self.copy(); 
        self.vals[...] = self.vals  # no-op
        # defect: returns an object holding the receiver's rdims
        r.rdims = self.rdims
        return r
    ttb.sptenmat.__neg__ = f
    return lambda: setattr(ttb.sptenmat, "__neg__", orig)

@mut("ttensor.__neg__ copy=False", ["ops_ttensor", "ops_sumtensor"])
def m5():
    orig = ttb.ttensor.__neg__
    def f(self):
        return ttb.ttensor(-self.core, self.factor_matrices, copy=False)
    ttb.ttensor.__neg__ = f
    return lambda: setattr(ttb.ttensor, "__neg__", orig)

@mut("ttensor.ttm copy=False", ["ops_ttensor"])
def m6():
    orig = ttb.ttensor.ttm
    def f(self, matrix, dims=None, exclude_dims=None, transpose=False):
        r = orig(self, matrix, dims, exclude_dims, transpose)
        r.core = self.core
        return r
    ttb.ttensor.ttm = f
    return lambda: setattr(ttb.ttensor, "ttm", orig)

@mut("sumtensor.__add__ copy=False", ["ops_sumtensor"])
def m7():
    orig = ttb.sumtensor.__add__
    def f(self, other):
        parts = self.parts.copy()
        if isinstance(other, list): parts.extend(other)
        else: parts.append(other)
        return ttb.sumtensor(parts, copy=False)
    ttb.sumtensor.__add__ = f
    return lambda: setattr(ttb.sumtensor, "__add__", orig)

@mut("sumtensor.full returns first dense part when single", ["ops_sumtensor"])
def m8():
    orig = ttb.sumtensor.full
    def f(self):
        result = self.parts[0] if isinstance(self.parts[0], ttb.tensor) else self.parts[0].full()
        for part in self.parts[1:]:
            result = result + part
        return result
    ttb.sumtensor.full = f
    return lambda: setattr(ttb.sumtensor, "full", orig)

@mut("ktensor.extract(None) returns self", ["ops_ktensor"])
def m9():
    orig = ttb.ktensor.extract
    def f(self, idx=None):
        if idx is None: return self
        return orig(self, idx)
    ttb.ktensor.extract = f
    return lambda: setattr(ttb.ktensor, "extract", orig)

@mut("ktensor.__neg__ copy=False", ["ops_ktensor", "ops_sumtensor"])
def m10():
    orig = ttb.ktensor.__neg__
    def f(self):
        return ttb.ktensor(self.factor_matrices, -self.weights, copy=False)
    ttb.ktensor.__neg__ = f
    return lambda: setattr(ttb.ktensor, "__neg__", orig)

@mut("sumtensor.mttkrp adds into U[n]", ["ops_sumtensor"])
def m11():
    orig = ttb.sumtensor.mttkrp
    def f(self, U, n):
        r = orig(self, U, n)
        if isinstance(U, list) and U[n].shape == r.shape:
            U[n] += 0 * r + 1
        return r
    ttb.sumtensor.mttkrp = f
    return lambda: setattr(ttb.sumtensor, "mttkrp", orig)

@mut("tenmat.__add__ scalar in place", ["ops_tenmat"])
def m12():
    orig = ttb.tenmat.__add__
    def f(self, other):
        if np.isscalar(other):
            Z = ttb.tenmat(self.data, self.rindices, self.cindices, self.tshape, copy=False)
            Z.data = Z.data + other
            Z.rindices = self.rindices
            return Z
        return orig(self, other)
    ttb.tenmat.__add__ = f
    return lambda: setattr(ttb.tenmat, "__add__", orig)

if __name__ == "__main__":
    base = run(["ops_tenmat", "ops_sptenmat", "ops_ttensor", "ops_sumtensor", "ops_ktensor"], "baseline")
    missed = []
    for name, fams, fn in muts:
        undo = fn()
        try:
            if not run(fams, name):
                missed.append(name)
        finally:
            undo()
    print("baseline clean:", not base, "| mutants missed:", missed)
    sys.exit(1 if (base or missed) else 0)
