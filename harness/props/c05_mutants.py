"""C05 self-test (NOT part of ./check): in-memory mutants of the methods that have step-level entries in
Heap/Table2.lean – pyttb is monkeypatched in this process only, /repo is not touched – run through the
C05 operation families; prints, per mutant, the (class, method, status) of the verdicts that are not ok.
Every mutant must be reported (`violation`), the baseline must be empty.

    cd <framework> && PYTHONPATH=/repo:. /venv/bin/python harness/props/c05_mutants.py
"""
import random, sys, copy as _copy
import os
sys.path.insert(0, os.path.dirname(os.path.dirname(os.path.dirname(os.path.abspath(__file__)))))
import numpy as np
import pyttb as ttb
from harness.props import c05

def run(fams, label):
    found = {}
    for f in c05.families():
        if f.name not in fams:
            continue
        cases = f.gen(random.Random(0), "quick")
        vs = f.evaluate(cases)
        for c, v in zip(cases, vs):
            if v.status != "ok" and "known-alias" not in (v.tags or []):
                key = (c.get("cls"), c.get("method"), v.status)
                found.setdefault(key, []).append(v.text if hasattr(v, "text") else str(v)[:100])
    print(label, {k: len(v) for k, v in found.items()})
    return found

muts = []
def mut(name, fams):
    def deco(fn):
        muts.append((name, fams, fn)); return fn
    return deco

@mut("tenmat.ctranspose copy=False", ["ops_tenmat"])
def m1():
    orig = ttb.tenmat.ctranspose
    def f(self):
        return ttb.tenmat(self.data.conj().T, self.cindices, self.rindices, self.tshape, copy=False)
    ttb.tenmat.ctranspose = f
    return lambda: setattr(ttb.tenmat, "ctranspose", orig)

@mut("tenmat.double no copy", ["ops_tenmat"])
def m2():
    orig = ttb.tenmat.double
    def f(self):
        return ttb.pyttb_utils.to_memory_order(self.data, "F", copy=False).astype(np.float64, copy=False)
    ttb.tenmat.double = f
    return lambda: setattr(ttb.tenmat, "double", orig)

@mut("sptenmat.to_sptensor copy=False", ["ops_sptenmat"])
def m3():
    orig = ttb.sptensor.__init__
    import inspect
    origm = ttb.sptenmat.to_sptensor
    src = inspect.getsource(origm)
    def f(self):
        r = origm(self)
        if self.vals.size:
            r.vals = self.vals
        return r
    ttb.sptenmat.to_sptensor = f
    return lambda: setattr(ttb.sptenmat, "to_sptensor", origm)

@mut("sptenmat.__neg__ in place on self", ["ops_sptenmat"])
def m4():
    orig = ttb.sptenmat.__neg__
    def f(self):
        self.vals *= -1
        r = self.copy()
        self.vals *= -1
        r2 = self.copy(); 
        self.vals[...] = self.vals  # no-op
        # defect: returns an object holding the receiver's rdims
        r.rdims = self.rdims
        return r
    ttb.sptenmat.__neg__ = f
    return lambda: setattr(ttb.sptenmat, "__neg__", orig)

@mut("ttensor.__neg__ copy=False", ["ops_ttensor", "ops_sumtensor"])
def m5():
    orig = ttb.ttensor.__neg__
    def f(self):
        return ttb.ttensor(-self.core, self.factor_matrices, copy=False)
    ttb.ttensor.__neg__ = f
    return lambda: setattr(ttb.ttensor, "__neg__", orig)

@mut("ttensor.ttm copy=False", ["ops_ttensor"])
def m6():
    orig = ttb.ttensor.ttm
    def f(self, matrix, dims=None, exclude_dims=None, transpose=False):
        r = orig(self, matrix, dims, exclude_dims, transpose)
        r.core = self.core
        return r
    ttb.ttensor.ttm = f
    return lambda: setattr(ttb.ttensor, "ttm", orig)

@mut("sumtensor.__add__ copy=False", ["ops_sumtensor"])
def m7():
    orig = ttb.sumtensor.__add__
    def f(self, other):
        parts = self.parts.copy()
        if isinstance(other, list): parts.extend(other)
        else: parts.append(other)
        return ttb.sumtensor(parts, copy=False)
    ttb.sumtensor.__add__ = f
    return lambda: setattr(ttb.sumtensor, "__add__", orig)

@mut("sumtensor.full returns first dense part when single", ["ops_sumtensor"])
def m8():
    orig = ttb.sumtensor.full
    def f(self):
        result = self.parts[0] if isinstance(self.parts[0], ttb.tensor) else self.parts[0].full()
        for part in self.parts[1:]:
            result = result + part
        return result
    ttb.sumtensor.full = f
    return lambda: setattr(ttb.sumtensor, "full", orig)

@mut("ktensor.extract(None) returns self", ["ops_ktensor"])
def m9():
    orig = ttb.ktensor.extract
    def f(self, idx=None):
        if idx is None: return self
        return orig(self, idx)
    ttb.ktensor.extract = f
    return lambda: setattr(ttb.ktensor, "extract", orig)

@mut("ktensor.__neg__ copy=False", ["ops_ktensor", "ops_sumtensor"])
def m10():
    orig = ttb.ktensor.__neg__
    def f(self):
        return ttb.ktensor(self.factor_matrices, -self.weights, copy=False)
    ttb.ktensor.__neg__ = f
    return lambda: setattr(ttb.ktensor, "__neg__", orig)

@mut("sumtensor.mttkrp adds into U[n]", ["ops_sumtensor"])
def m11():
    orig = ttb.sumtensor.mttkrp
    def f(self, U, n):
        r = orig(self, U, n)
        if isinstance(U, list) and U[n].shape == r.shape:
            U[n] += 0 * r + 1
        return r
    ttb.sumtensor.mttkrp = f
    return lambda: setattr(ttb.sumtensor, "mttkrp", orig)

@mut("tenmat.__add__ scalar in place", ["ops_tenmat"])
def m12():
    orig = ttb.tenmat.__add__
    def f(self, other):
        if np.isscalar(other):
            Z = ttb.tenmat(self.data, self.rindices, self.cindices, self.tshape, copy=False)
            Z.data = Z.data + other
            Z.rindices = self.rindices
            return Z
        return orig(self, other)
    ttb.tenmat.__add__ = f
    return lambda: setattr(ttb.tenmat, "__add__", orig)

# ---- parameter corner cases: a branch that has nothing to compute hands on the operand (or a view of it) ----
def patch(owner, name, fams, label=None):
    """Decorator: replace owner.name by wrapper(orig) for the duration of the mutant."""
    def deco(mk):
        def install():
            orig = getattr(owner, name)
            setattr(owner, name, mk(orig))
            return lambda: setattr(owner, name, orig)
        muts.append((label or f"{getattr(owner, '__name__', owner)}.{name}: {mk.__doc__}", fams, install))
        return mk
    return deco


def _no_modes(dims, exclude_dims, N):
    if dims is not None and np.size(dims) == 0:
        return True
    return exclude_dims is not None and sorted(np.atleast_1d(exclude_dims).tolist()) == list(range(N))


@patch(ttb.sptensor, "scale", ["ops_sptensor"])
def d1(orig):
    "a receiver without nonzeros is returned itself (M1450)"
    return lambda self, factor, dims: self if self.nnz == 0 and isinstance(factor, (ttb.tensor, ttb.sptensor, np.ndarray)) else orig(self, factor, dims)


@patch(ttb.tensor, "symmetrize", ["ops_tensor"])
def d2(orig):
    "an already symmetric receiver's data is wrapped without the copy (M1844)"
    def f(self, grps=None, version=None):
        r = orig(self, grps, version)
        return ttb.tensor(self.data, copy=False) if version is None and np.array_equal(r.data, self.data) else r
    return f


@patch(ttb.tensor, "ttv", ["ops_tensor", "ops_ttensor", "ops_sumtensor"])
def d3(orig):
    "with no mode selected the receiver's data is wrapped without the copy (M1929)"
    def f(self, vector, dims=None, exclude_dims=None):
        if _no_modes(dims, exclude_dims, self.ndims) and not (len(vector) > 0 and np.isscalar(vector[0])):
            return ttb.tensor(self.data, copy=False)
        return orig(self, vector, dims, exclude_dims)
    return f


@patch(ttb.sptensor, "__sub__", ["ops_sptensor"])
def d5(orig):
    "minus a tensor without nonzeros returns the receiver itself"
    return lambda self, other: self if isinstance(other, ttb.sptensor) and other.nnz == 0 and self.shape == other.shape else orig(self, other)


@patch(ttb.sptensor, "__mul__", ["ops_sptensor"])
def d6(orig):
    "a receiver without nonzeros times a dense / Kruskal tensor, or times the scalar one, is returned itself"
    def f(self, other):
        if (self.nnz == 0 and isinstance(other, (ttb.tensor, ttb.ktensor))) or (np.isscalar(other) and other == 1):
            return self
        return orig(self, other)
    return f


@patch(ttb.tensor, "collapse", ["ops_tensor"])
def d7(orig):
    "with no mode to collapse the receiver is returned itself"
    def f(self, dims=None, fun=np.sum):
        if dims is not None and np.size(dims) == 0 and self.data.size:
            return self
        return orig(self, dims, fun)
    return f


@patch(ttb.tensor, "squeeze", ["ops_tensor"])
def d8(orig):
    "without singleton modes the receiver is returned itself"
    return lambda self: self if all(d > 1 for d in self.shape) and self.ndims else orig(self)


@patch(ttb.sptensor, "squeeze", ["ops_sptensor"])
def d9(orig):
    "without singleton modes the receiver is returned itself"
    return lambda self: self if all(d > 1 for d in self.shape) else orig(self)


@patch(ttb.ktensor, "ttv", ["ops_ktensor", "ops_sumtensor"])
def d10(orig):
    "with no mode selected the receiver is returned itself"
    def f(self, vector, dims=None, exclude_dims=None):
        if _no_modes(dims, exclude_dims, self.ndims) and isinstance(vector, list):
            return self
        return orig(self, vector, dims, exclude_dims)
    return f


@patch(ttb.ttensor, "ttm", ["ops_ttensor"])
def d11(orig):
    "with no mode selected the receiver is returned itself"
    def f(self, matrix, dims=None, exclude_dims=None, transpose=False):
        if _no_modes(dims, exclude_dims, self.ndims) and isinstance(matrix, list):
            return self
        return orig(self, matrix, dims, exclude_dims, transpose)
    return f


@patch(ttb.ttensor, "ttv", ["ops_ttensor", "ops_sumtensor"])
def d12(orig):
    "with no mode selected core and factor matrices are kept without copying"
    def f(self, vector, dims=None, exclude_dims=None):
        if _no_modes(dims, exclude_dims, self.ndims) and isinstance(vector, list):
            return ttb.ttensor(self.core, self.factor_matrices, copy=False)
        return orig(self, vector, dims, exclude_dims)
    return f


@patch(ttb.sumtensor, "ttv", ["ops_sumtensor"])
def d13(orig):
    "with no mode selected the receiver is returned itself"
    def f(self, vector, dims=None, exclude_dims=None):
        if _no_modes(dims, exclude_dims, self.ndims) and isinstance(vector, list):
            return self
        return orig(self, vector, dims, exclude_dims)
    return f


@patch(ttb.tensor, "ttsv", ["ops_tensor"])
def d14(orig):
    "with nothing multiplied (skip_dim = last mode) the data is handed on without the copy"
    def f(self, vector, skip_dim=None, version=None):
        if version is None and skip_dim == self.ndims - 1:
            if self.ndims > 2:
                return ttb.tensor(self.data, copy=False)
            return self.data
        return orig(self, vector, skip_dim, version)
    return f


@patch(ttb.tensor, "permute", ["ops_tensor"])
def d15(orig):
    "the tensor without modes is returned itself"
    return lambda self, order: self if self.ndims == 0 else orig(self, order)


@patch(ttb.sptensor, "permute", ["ops_sptensor"])
def d16(orig):
    "the identity order returns a receiver without nonzeros itself"
    def f(self, order):
        o = np.atleast_1d(np.asarray(order)).ravel()
        return self if self.nnz == 0 and o.tolist() == list(range(self.ndims)) else orig(self, order)
    return f


@patch(ttb.sptensor, "reshape", ["ops_sptensor"])
def d17(orig):
    "reshaping a receiver without nonzeros to its own shape returns it"
    def f(self, new_shape, old_modes=None):
        return self if old_modes is None and self.nnz == 0 and tuple(new_shape) == tuple(self.shape) else orig(self, new_shape, old_modes)
    return f


@patch(ttb.tensor, "__add__", ["ops_tensor"])
def d18(orig):
    "adding the scalar zero returns the receiver itself"
    return lambda self, other: self if np.isscalar(other) and other == 0 else orig(self, other)


@patch(ttb.sptensor, "ttv", ["ops_sptensor"])
def d21(orig):
    "with no mode selected a receiver without nonzeros is returned itself"
    def f(self, vector, dims=None, exclude_dims=None):
        if self.nnz == 0 and _no_modes(dims, exclude_dims, self.ndims) and isinstance(vector, list):
            return self
        return orig(self, vector, dims, exclude_dims)
    return f


@patch(ttb.tenmat, "__mul__", ["ops_tenmat"])
def d22(orig):
    "times the scalar one returns the receiver itself"
    return lambda self, other: self if np.isscalar(other) and other == 1 else orig(self, other)


@patch(ttb.ktensor, "symmetrize", ["ops_ktensor"])
def d20(orig):
    "an already symmetric receiver is returned itself"
    def f(self):
        fm = self.factor_matrices
        return self if all(np.array_equal(fm[0], g) for g in fm[1:]) else orig(self)
    return f


@patch(ttb.sptensor, "__add__", ["ops_sptensor"])
def d26(orig):
    "plus a tensor without nonzeros returns the receiver itself"
    return lambda self, other: self if isinstance(other, ttb.sptensor) and other.nnz == 0 else orig(self, other)


@patch(ttb.sptensor, "mask", ["ops_sptensor"])
def d27(orig):
    "masking a receiver by its own pattern returns its values array"
    def f(self, W):
        return self.vals if isinstance(W, ttb.sptensor) and W.nnz == self.nnz and self.nnz and np.array_equal(W.subs, self.subs) else orig(self, W)
    return f


@patch(ttb.ttensor, "__mul__", ["ops_ttensor"])
def d28(orig):
    "times the scalar one returns the receiver itself"
    return lambda self, other: self if np.isscalar(other) and other == 1 else orig(self, other)


def _kr():
    import pyttb.khatrirao as KM
    orig = ttb.khatrirao
    def f(*matrices, reverse=False):
        if len(matrices) == 1 and isinstance(matrices[0], np.ndarray) and matrices[0].ndim == 2:
            return np.reshape(matrices[0], (-1, matrices[0].shape[1]), order="F")
        return orig(*matrices, reverse=reverse)
    ttb.khatrirao = f
    return lambda: setattr(ttb, "khatrirao", orig)


muts.append(("khatrirao: a single matrix is handed back as a reshaped view (M0592)", ["ops_utils"], _kr))


def _union():
    U = ttb.pyttb_utils
    orig = U.tt_union_rows
    U.tt_union_rows = lambda a, b: a if b.size == 0 else orig(a, b)
    return lambda: setattr(U, "tt_union_rows", orig)


muts.append(("tt_union_rows: with an empty second set the first one is returned itself", ["ops_utils"], _union))


def _renum():
    U = ttb.pyttb_utils
    orig = U.tt_renumber
    def f(subs, shape, number_range):
        if all(isinstance(r, slice) and r == slice(None) for r in number_range):
            return subs, tuple(shape)
        return orig(subs, shape, number_range)
    U.tt_renumber = f
    return lambda: setattr(U, "tt_renumber", orig)


muts.append(("tt_renumber: the identity renumbering returns the caller's subscripts", ["ops_utils"], _renum))


if __name__ == "__main__":
    base = run(["ops_tensor", "ops_sptensor", "ops_tenmat", "ops_sptenmat", "ops_ttensor", "ops_sumtensor", "ops_ktensor", "ops_utils"], "baseline")
    missed = []
    for name, fams, fn in muts:
        undo = fn()
        try:
            if not run(fams, name):
                missed.append(name)
        finally:
            undo()
    print("baseline clean:", not base, "| mutants missed:", missed)
    sys.exit(1 if (base or missed) else 0)
