"""C13 — GCP samplers and solvers: correspondence families.

Observation without touching /repo: `np.random.uniform/choice/poisson` are replaced (and
restored in `finally`) by stand-ins that serve scripted draws and record them, the name
`estimate` in `pyttb.gcp.optimizers` is replaced by a scripted or recording oracle, an
instance attribute `update_step` on the solver object records the object's fields around
every step, and `fmin_l_bfgs_b` is wrapped / replaced by contract-respecting stand-ins.
"""
from __future__ import annotations

import contextlib
import logging
import math
import struct
import warnings
from fractions import Fraction
from functools import partial

import numpy as np
import pyttb as ttb
from pyttb.gcp import optimizers as O
from pyttb.gcp import samplers as S
from pyttb.gcp.fg import evaluate as fg_evaluate
from pyttb.gcp.fg_setup import setup
from pyttb.gcp.handles import Objectives
from pyttb.pyttb_utils import tt_sub2ind

from harness import gen
from harness import lib
from harness.lib import Family, Verdict, call, deep_eq, drive, frac, jval, strip_exc
from harness.lib import sparse_j as lib_sparse_j

RULE = ("cases come from random.Random(VERIF_SEED). samplers: dense and sparse tensors of order 1..3 (4 in "
        "thorough), extents 1..4, sparsity empty/one/some/all-but-one/all, sample counts 0..numel+3 (above the "
        "available zeros and nonzeros), over-sampling rates 1.0 (refused) 1.1 1.125 1.5 2 3, scripted draws on the "
        "grid k/64 with forced 0.0 and the largest double below 1; GCPSampler with every sampler kind / count form "
        "/ max_iters incl. 0 and faked sizes up to 1e9 cells. solvers: SGD/Adam/Adagrad with scripted estimate "
        "streams built to make chosen epochs fail, max_fails 0..2, epoch_iters 0..3, max_iters 0..5, f_est_tol, "
        "finite / infinite lower bounds, 1..4 solves on one object with same and different problem sizes; real "
        "estimates on seeded dense / sparse problems; L-BFGS-B through gcp_opt and solve with the real and two "
        "stand-in optimisers, default and explicit options (maxiter pgtol factr m maxls maxfun callback), 1..3 solves "
        "on one object ordered big-small / small-big / big-small-big / small-big-small / same / same size other "
        "shape / mixed, each compared with a new object and with the object's attributes before the solve; 2-3 solves "
        "on one stochastic solver with the DEFAULT sampler (sampler=None, directly and through gcp_opt) over solver "
        "class x dense / sparse x (same shape other pattern | same pattern other values | other shape), every "
        "function / gradient sample checked against the data of the current solve. samplers.zeros(..., with_replacement="
        "False) called directly (requests up to and above the number of zeros and around the 'need too many' limit, "
        "pools of 7..97 draws so that drawn rows repeat, come unsorted and hit nonzeros); direct solve() with starts "
        "whose weights are not all one (both signs, zero); gcp_setup: every objective x {dense float, dense integer "
        "array, sparse with shuffled stored order, no data} x 13 data classes (binary mixed / all one / all zero, 0-2, "
        "0-1-1/2, counts with and without zeros, negative integers, positive <= 1, positive > 1, mixed, non-negative "
        "with an exact zero, negative reals) x parameter given / missing, through setup and through gcp_opt; "
        "gcp_opt_inits: init = 'random' (two seeds) | list | tuple | ktensor | ktensor with other weights | 11 ill-"
        "formed guesses, x L-BFGS-B / SGD / Adam / Adagrad x dense / sparse admissible data of 7 losses. A case is non-trivial when the implementation accepts it and the sample / run is non-empty "
        "(at least one sample, at least one completed epoch); distinct = distinct case hash")
ASSUMPTIONS = [
    "np.random.uniform(0,1,size) returns size numbers in [0,1) and np.random.choice(n,size) size integers below n "
    "(the stand-ins keep that contract; the theorems are for every such stream)",
    "IEEE rounding is not modelled: sampler draws are taken on a dyadic grid where u*extent is exact; the number of "
    "rows `zeros` requests (ceil(rate*ceil(..)) in doubles) is compared with the exact formula only when both agree "
    "(tag need-rounding otherwise); Adam/Adagrad steps and whole runs are compared with the model at Float to "
    "relative 1e-9 / 1e-8, decision fields exactly",
    "the estimate of an objective is an oracle (a number per call) and the gradient estimate a list of arrays per "
    "call: C12 is about their values",
    "scipy's L-BFGS-B is a service with contract `objective(result) <= objective(feasible start)`, result within "
    "bounds; the contract is checked on every recorded call",
    "NumPy broadcasting of extent-1 axes between stale Adam moments and gradients is not modelled (cannot occur "
    "after e9e4a44: the moments are rebuilt at every solve)",
    "solver hyper-parameters with 1 - beta**t = 0 or a zero first Adagrad gradient (division by zero) are not generated",
    "zeros(with_replacement=False): the number of rows asked from the generator (a coupon-collector estimate with a "
    "logarithm) is not in the Lean model; it is recomputed with math.log and compared unless a ceiling sits within "
    "1e-9 of an integer (tag need-rounding)",
    "a start with weights other than one handed to solve() directly: the estimates (an oracle here, C12's subject) are "
    "those of the factor matrices alone, as the code computes them with lambda_check=False; the trace is compared "
    "with that objective",
    "gcp_setup: the domain of a loss is read from its documentation (binary = all entries 0 or 1, count = all entries "
    "non-negative integers, non-negative = all entries >= 0; entries of a sparse tensor include the ones not stored); "
    "stored explicit zeros, NaN and infinities are not generated; gcp_opt on 1-way tensors is not generated (raises "
    "IndexError inside the estimate)",
]
EXHAUSTIVE = {"quick": False, "thorough": False}
#: modelled functions outside the files the property is anchored in (properties.jsonl): advisory drift detection
ANCHORS = [("pyttb/gcp/fg_setup.py", "setup"), ("pyttb/gcp/fg_setup.py", "valid_nonneg"),
           ("pyttb/gcp/fg_setup.py", "valid_binary"), ("pyttb/gcp/fg_setup.py", "valid_natural")]

ONE_MINUS = "9007199254740991/9007199254740992"  # largest double below 1


# ----------------------------------------------------------------------------
# helpers
# ----------------------------------------------------------------------------
def bits(x):
    return str(struct.unpack("<Q", struct.pack("<d", float(x)))[0])


def unbits(s):
    return struct.unpack("<d", struct.pack("<Q", int(s)))[0]


def close(a, b, rel):
    a, b = float(a), float(b)
    if a == b:
        return True
    if math.isnan(a) or math.isnan(b) or math.isinf(a) or math.isinf(b):
        return False
    return abs(a - b) <= rel * max(abs(a), abs(b)) + 1e-12


def close_deep(impl, model_bits, rel):
    """impl: nested lists of floats; model_bits: same nesting of bit strings."""
    if isinstance(impl, list) and isinstance(model_bits, list):
        return len(impl) == len(model_bits) and all(close_deep(a, b, rel) for a, b in zip(impl, model_bits))
    if isinstance(impl, list) or isinstance(model_bits, list):
        return False
    return close(impl, unbits(model_bits), rel)


def tolist(a):
    return np.asarray(a, dtype=float).tolist()


def bits_deep(x):
    if isinstance(x, list):
        return [bits_deep(v) for v in x]
    return bits(x)


@contextlib.contextmanager
def quiet():
    prev = logging.root.manager.disable
    logging.disable(logging.CRITICAL)
    with warnings.catch_warnings(), np.errstate(all="ignore"):
        warnings.simplefilter("ignore")
        try:
            yield
        finally:
            logging.disable(prev)


class ScriptedRng:
    """Stand-ins for np.random.uniform / choice / poisson serving scripted values."""

    def __init__(self, us, ints):
        self.us = [float(Fraction(u)) for u in us] or [0.5]
        self.ints = list(ints) or [0]
        self.ui = 0
        self.ii = 0
        self.uniform_calls = []
        self.choice_calls = []

    def uniform(self, low=0.0, high=1.0, size=None):
        assert low == 0 and high == 1
        shape = (size,) if isinstance(size, (int, np.integer)) else tuple(int(x) for x in size)
        if any(x < 0 for x in shape):
            raise ValueError("negative dimensions are not allowed")
        n = int(np.prod(shape)) if shape else 1
        vals = [self.us[(self.ui + k) % len(self.us)] for k in range(n)]
        self.ui += n
        arr = np.array(vals, dtype=float).reshape(shape)
        self.uniform_calls.append(arr.copy())
        return arr

    def _next_ints(self, n):
        out = [self.ints[(self.ii + k) % len(self.ints)] for k in range(n)]
        self.ii += n
        return out

    def choice(self, a, size=None, replace=True, p=None):
        n = int(size)
        if a <= 0 and n > 0:
            raise ValueError("a must be greater than 0 unless no samples are taken")
        if replace:
            out = [v % a for v in self._next_ints(n)] if n else []
        else:
            if n > a:
                raise ValueError("Cannot take a larger sample than population when 'replace=False'")
            keys = self._next_ints(a)
            out = sorted(range(a), key=lambda k: ((keys[k] * 7919 + k * 104729) % 1000003, k))[:n]
        arr = np.array(out, dtype=int)
        self.choice_calls.append(arr.copy())
        return arr

    def poisson(self, lam=1.0, size=None):
        return int(self._next_ints(1)[0] % 4)


@contextlib.contextmanager
def patched_rng(rng):
    saved = (np.random.uniform, np.random.choice, np.random.poisson)
    np.random.uniform, np.random.choice, np.random.poisson = rng.uniform, rng.choice, rng.poisson
    try:
        with quiet(), lib.unit_spellings(rng.uniform):
            yield rng
    finally:
        np.random.uniform, np.random.choice, np.random.poisson = saved


@contextlib.contextmanager
def patched(obj, name, value):
    saved = getattr(obj, name)
    setattr(obj, name, value)
    try:
        yield
    finally:
        setattr(obj, name, saved)


def snapshot(obj):
    """Canonical copy of every attribute in vars(obj): a solve must not change the configuration
    of the optimizer object it was issued to."""
    def canon(v):
        if isinstance(v, dict):
            return {str(k): canon(x) for k, x in sorted(v.items(), key=lambda kv: str(kv[0]))}
        if isinstance(v, (list, tuple)):
            return [canon(x) for x in v]
        if isinstance(v, np.ndarray):
            return ["ndarray", list(v.shape), [repr(float(x)) for x in v.reshape(-1)]]
        if v is None or isinstance(v, (bool, str)):
            return v
        if isinstance(v, (int, np.integer)):
            return int(v)
        if isinstance(v, (float, np.floating)):
            return repr(float(v))
        if callable(v):
            return "callable:" + getattr(v, "__qualname__", type(v).__qualname__)
        return "object:" + type(v).__qualname__
    return canon(dict(vars(obj)))


#: fields of the stochastic solver objects that a solve is allowed to change (documented
#: per-solve state; re-initialised at the start of the next solve)
PER_SOLVE_STATE = {"sgd": {"_nfails"},
                   "adam": {"_nfails", "_total_iterations", "_m", "_m_prev", "_v", "_v_prev"},
                   "adagrad": {"_nfails", "_gnormsum"}}


def config_change(before, after, allowed=()):
    """Names of attributes (outside `allowed`) that differ between two snapshots."""
    keys = (set(before) | set(after)) - set(allowed)
    return sorted(k for k in keys if before.get(k, "<absent>") != after.get(k, "<absent>"))


def canon_sample(r):
    subs, vals, wgts = r
    subs = np.asarray(subs)
    return {
        "subs": [] if subs.size == 0 else jval(subs.astype(int)),
        "vals": jval(np.asarray(vals, dtype=float).reshape(-1)),
        "wgts": jval(np.asarray(wgts, dtype=float).reshape(-1)),
    }


def draws_j(rng):
    """The uniform matrix the code consumed (exact rationals); [] if it never drew."""
    if not rng.uniform_calls:
        return []
    a = rng.uniform_calls[0]
    return [] if a.size == 0 else jval(a)


def idx_j(rng):
    return [] if not rng.choice_calls else jval(rng.choice_calls[0])


def lookup_of(case):
    """subscript tuple -> true value of the data tensor."""
    if case.get("dense") is not None:
        cells = gen.all_subs(case["shape"])
        return {tuple(c): v for c, v in zip(cells, case["dense"])}
    return {tuple(s): v for s, v in zip(case["subs"], case["vals"])}


def spec_sample(kind, case, out, n_nz_part, zero_total):
    """The property evaluated on the implementation's sample.  Returns (what, is_semistrat_zero_issue)."""
    shape = case["shape"]
    data = lookup_of(case)
    subs, vals, wgts = out["subs"], out["vals"], out["wgts"]
    for r in subs:
        if len(r) != len(shape) or any(not (0 <= k < s) for k, s in zip(r, shape)):
            return f"subscript {r} outside shape {shape}", False
    if not (len(subs) == len(vals) == len(wgts)):
        return f"{len(subs)} subscripts, {len(vals)} values, {len(wgts)} weights", False
    numel = gen.numel(shape)
    nnz = len(case.get("subs") or [])
    wf = [frac(w) for w in wgts]
    vf = [frac(v) for v in vals]
    if kind == "uniform":
        for r, v in zip(subs, vf):
            if v != data.get(tuple(r), 0):
                return f"value {v} at {r} is not the data there", False
        if subs and not close(sum(wf), numel, 1e-9):
            return f"weights total {float(sum(wf))}, tensor has {numel} entries", False
        return "", False
    # nonzero part
    for r, v in list(zip(subs, vf))[:n_nz_part]:
        if tuple(r) not in data or v != data[tuple(r)]:
            return f"nonzero part: value {v} at {r} is not a stored entry", False
    if n_nz_part and not close(sum(wf[:n_nz_part]), nnz, 1e-9):
        return f"nonzero weights total {float(sum(wf[:n_nz_part]))}, tensor has {nnz} nonzeros", False
    zpart = list(zip(subs, vf))[n_nz_part:]
    if zpart and not close(sum(wf[n_nz_part:]), zero_total, 1e-9):
        return f"zero weights total {float(sum(wf[n_nz_part:]))}, stands for {zero_total} entries", False
    for r, v in zpart:
        if v != 0:
            return f"zero part: value {v}", False
    for r, v in zpart:
        if data.get(tuple(r), 0) != 0:
            if kind == "semistrat":
                return f"semistrat-zero-part: {r} reported as a zero holds {data[tuple(r)]}", True
            return f"zero part: {r} reported as a zero holds {data[tuple(r)]}", False
    return "", False


def mk_data(case):
    if case.get("dense") is not None:
        return gen.mk_tensor(ttb, case["shape"], case["dense"])
    return gen.mk_sptensor(ttb, case["shape"], case["subs"], case["vals"])


def nz_idx_of(case):
    if not case["subs"]:
        return np.array([], dtype=int)
    return np.sort(tt_sub2ind(tuple(case["shape"]), np.array(case["subs"], dtype=int)))


def sparse_req(case):
    return {"shape": case["shape"], "subs": case["subs"], "vals": case["vals"]}


def rate_exact(case):
    return jval(float(case["rate"]))


# ----------------------------------------------------------------------------
# samplers
# ----------------------------------------------------------------------------
def _pool(rng, n=24):
    us = [f"{rng.randrange(64)}/64" for _ in range(n)]
    if rng.random() < 0.3:
        for _ in range(rng.randint(1, 3)):
            us[rng.randrange(n)] = "0"
    if rng.random() < 0.15:
        us[rng.randrange(n)] = ONE_MINUS
    if rng.random() < 0.1:
        us = [rng.choice(["0", "1/64", "63/64", "1/2", ONE_MINUS]) for _ in range(n)]
    return us, [rng.randrange(100) for _ in range(16)]


def _sparse(rng, s):
    klass = rng.choice(["empty", "one", "some", "some", "some", "allbut1", "allbut1", "all"])
    if klass == "allbut1":
        subs, vals = gen.sparse_entries(rng, s, "all")
        k = rng.randrange(len(subs))
        return subs[:k] + subs[k + 1:], vals[:k] + vals[k + 1:], klass
    subs, vals = gen.sparse_entries(rng, s, klass)
    return subs, vals, klass


class Samplers(Family):
    name = "samplers"
    theorems = ("C13_sample_in_range", "C13_sample_in_range_uniform", "C13_sample_in_range_semistrat",
                "C13_sample_values", "C13_sample_values_uniform", "C13_sample_values_semistrat_partial",
                "C13_sample_lengths", "C13_sample_lengths_uniform_semistrat", "C13_weights_total",
                "C13_weights_total_uniform_semistrat", "C13_sampler_accepts", "C13_floor_ceil_contract")

    def gen(self, rng, tier):
        n = 260 if tier == "quick" else 3000
        out = []
        for _ in range(n):
            s = gen.shape(rng, 1, 4 if tier == "thorough" else 3, 4)
            us, ints = _pool(rng)
            k = rng.choice(["uniform", "nonzeros", "zeros", "zeros_norepl", "zeros_norepl", "semistrat", "stratified",
                            "stratified", "stratified"])
            cells = gen.numel(s)
            c = {"k": k, "shape": s, "us": us, "ints": ints}
            if k == "uniform" and rng.random() < 0.3:
                # GCPSampler binds `uniform` for sparse data too when asked to
                subs, vals, klass = _sparse(rng, s)
                c.update(subs=subs, vals=vals, klass=klass, dense=None)
                c["samples"] = rng.choice([0, 1, 2, 3, cells, cells + 3])
            elif k == "uniform":
                c["dense"] = gen.dense_data(rng, s)
                c["samples"] = rng.choice([0, 1, 1, 2, 3, cells, cells + 3])
            else:
                subs, vals, klass = _sparse(rng, s)
                c.update(subs=subs, vals=vals, klass=klass)
                nnz = len(subs)
                a = rng.choice([0, 1, 2, nnz, nnz, nnz + 2, max(nnz - 1, 0)])
                b = rng.choice([0, 1, 2, 3, cells - nnz, cells - nnz + 2, cells])
                if k == "nonzeros":
                    c["samples"] = a
                    c["with_replacement"] = rng.random() < 0.7
                elif k == "zeros":
                    c["samples"] = b
                    c["rate"] = rng.choice(["1.1", "1.1", "1.125", "1.5", "2.0", "3.0", "1.0"])
                elif k == "zeros_norepl":
                    # direct call with with_replacement=False: requests up to and above the number of zeros,
                    # around the "need too many" boundary, long pools (so that most zeros are reached) and
                    # short ones (duplicates among the drawn rows)
                    if klass in ("all", "allbut1") and rng.random() < 0.7:   # nearly full tensors are refused
                        subs, vals = gen.sparse_entries(rng, s, rng.choice(["one", "some", "some", "empty"]))
                        c.update(subs=subs, vals=vals, klass="some")
                        nnz = len(subs)
                    nz = cells - nnz
                    top = (nz * (cells - 1)) // cells      # largest count that passes "need too many"
                    if rng.random() < 0.65 and top >= 1:
                        c["samples"] = rng.randint(1, top)
                    else:
                        c["samples"] = max(0, rng.choice([0, 1, 2, top, top + 1, nz - 1, nz, nz + 1]))
                    c["rate"] = rng.choice(["1.1", "1.1", "1.125", "1.5", "2.0", "1.0"])
                    if rng.random() < 0.6:
                        c["us"] = [f"{rng.randrange(64)}/64" for _ in range(rng.choice([7, 53, 97]))]
                else:
                    c["num_nonzeros"] = a
                    c["num_zeros"] = b
                    if k == "stratified":
                        c["rate"] = rng.choice(["1.1", "1.1", "1.1", "1.125", "1.5", "2.0", "1.0"])
            out.append(c)
        return out

    # -- implementation ---------------------------------------------------
    @staticmethod
    def _run(case):
        rng = ScriptedRng(case["us"], case["ints"])
        data = mk_data(case)
        k = case["k"]
        with patched_rng(rng):
            if k == "uniform":
                def fu():
                    r = S.uniform(data, case["samples"])
                    rng.vals_shape = tuple(np.shape(r[1]))
                    return canon_sample(r)
                impl = call(fu)
            elif k == "nonzeros":
                def f():
                    subs, vals = S.nonzeros(data, case["samples"], case["with_replacement"])
                    subs = np.asarray(subs)
                    return {"subs": [] if subs.size == 0 else jval(subs.astype(int)),
                            "vals": jval(np.asarray(vals, dtype=float).reshape(-1))}
                impl = call(f)
            elif k == "zeros":
                def f():
                    z = np.asarray(S.zeros(data, nz_idx_of(case), case["samples"], float(case["rate"])))
                    return [] if z.size == 0 else jval(z.astype(int))
                impl = call(f)
            elif k == "zeros_norepl":
                def f():
                    z = np.asarray(S.zeros(data, nz_idx_of(case), case["samples"], float(case["rate"]),
                                           with_replacement=False))
                    if z.ndim != 2:
                        return {"not-a-matrix": list(z.shape)}
                    return [] if z.size == 0 else jval(z.astype(int))
                impl = call(f)
            elif k == "semistrat":
                impl = call(lambda: canon_sample(S.semistrat(data, case["num_nonzeros"], case["num_zeros"])))
            else:
                impl = call(lambda: canon_sample(
                    S.stratified(data, nz_idx_of(case), case["num_nonzeros"], case["num_zeros"], float(case["rate"]))))
        return impl, rng

    @staticmethod
    def _req(case, rng):
        k = case["k"]
        if k == "uniform":
            dense = case["dense"]
            if dense is None:   # sparse data: the same array, written out
                look = lookup_of(case)
                dense = [look.get(tuple(i), 0) for i in gen.all_subs(case["shape"])]
            return {"op": "c13_uniform", "data": {"shape": case["shape"], "data": dense},
                    "samples": case["samples"], "draws": draws_j(rng)}
        if k == "nonzeros":
            return {"op": "c13_nonzeros", "data": sparse_req(case), "samples": case["samples"],
                    "with_replacement": case["with_replacement"], "idx": idx_j(rng)}
        if k == "zeros":
            return {"op": "c13_zeros", "shape": case["shape"], "nz_idx": jval(nz_idx_of(case)),
                    "samples": case["samples"], "rate": rate_exact(case), "draws": draws_j(rng)}
        if k == "zeros_norepl":
            return {"op": "c13_zeros_norepl", "shape": case["shape"], "nz_idx": jval(nz_idx_of(case)),
                    "samples": case["samples"], "rate": rate_exact(case), "draws": draws_j(rng)}
        if k == "semistrat":
            return {"op": "c13_semistrat", "data": sparse_req(case), "num_nonzeros": case["num_nonzeros"],
                    "num_zeros": case["num_zeros"], "idx": idx_j(rng), "draws": draws_j(rng)}
        return {"op": "c13_stratified", "data": sparse_req(case), "nz_idx": jval(nz_idx_of(case)),
                "num_nonzeros": case["num_nonzeros"], "num_zeros": case["num_zeros"], "rate": rate_exact(case),
                "idx": idx_j(rng), "draws": draws_j(rng)}

    def evaluate(self, cases):
        runs = [self._run(c) for c in cases]
        models = drive([self._req(c, r[1]) for c, r in zip(cases, runs)])
        out = []
        for c, (impl, rng), m in zip(cases, runs, models):
            out.append(self._judge(c, impl, rng, m))
        return out

    def _judge(self, c, impl, rng, m):
        k = c["k"]
        tags = [k, f"N{len(c['shape'])}"]
        if "klass" in c:
            tags.append(c["klass"])
        if "0" in c["us"]:
            tags.append("draw0-in-pool")
        impl_c = strip_exc(impl)
        if impl.get("reject"):
            tags.append("reject")
        if k == "zeros":
            need = m["need"]
            m = m["subs"]
            if "ok" in need and rng.uniform_calls:
                rows = int(rng.uniform_calls[0].shape[0])
                if rows != need["ok"]:
                    rate = float(c["rate"])
                    cells = gen.numel(c["shape"])
                    nz = cells - len(c["subs"])
                    ntmp = math.ceil(Fraction(c["samples"] * cells, nz))
                    if math.ceil(Fraction(rate) * ntmp) != int(np.ceil(rate * ntmp)):
                        tags.append("need-rounding")
                    else:
                        return Verdict("violation", f"zeros asked the generator for {rows} rows, the model needs {need['ok']}",
                                       impl, need, None, tags)
        if k == "zeros_norepl" and rng.uniform_calls:
            # the number of rows asked from the generator (coupon-collector estimate, not in the model):
            # recomputed here with math.log; skipped when a ceiling sits within rounding of an integer
            cells = gen.numel(c["shape"])
            nzc = cells - len(c["subs"])
            rows = int(rng.uniform_calls[0].shape[0])
            nt = math.ceil(Fraction(c["samples"] * cells, nzc))
            x = cells * math.log(1.0 / (1.0 - nt / cells)) if nt < cells else float("inf")
            y = float(c["rate"]) * math.ceil(x) if math.isfinite(x) else float("inf")
            if math.isfinite(y) and abs(x - round(x)) > 1e-9 and abs(y - round(y)) > 1e-9:
                if rows != math.ceil(y):
                    return Verdict("violation", f"zeros(with_replacement=False) asked the generator for {rows} rows, "
                                   f"the coupon-collector formula gives {math.ceil(y)}", impl, None, None, tags)
                if rng.uniform_calls[0].shape[1:] != (len(c["shape"]),):
                    return Verdict("violation", "zeros(with_replacement=False): one draw per mode expected", impl, None,
                                   None, tags)
            else:
                tags.append("need-rounding")
        if not deep_eq(impl_c, m):
            return Verdict("violation", "implementation differs from the (proved) model", impl, m, None, tags,
                           "ok" in impl)
        if "ok" not in impl:
            return Verdict("ok", "", impl, m, None, tags, False)
        o = impl["ok"]
        nontrivial = bool(o) and (not isinstance(o, dict) or len(o["subs"]) > 0)
        if k == "zeros_norepl":
            data = lookup_of(c)
            what = ""
            if isinstance(o, dict):
                what = f"result of shape {o['not-a-matrix']} is not a matrix of subscripts"
            elif len(o) > c["samples"]:
                what = f"{len(o)} subscripts for {c['samples']} requested"
            elif any(len(r) != len(c["shape"]) or any(not (0 <= x < e) for x, e in zip(r, c["shape"])) for r in o):
                what = "a subscript is outside the tensor / has not one entry per mode"
            elif any(data.get(tuple(r), 0) != 0 for r in o):
                what = "a subscript reported as a zero holds a stored nonzero"
            elif len({tuple(r) for r in o}) != len(o):
                what = "duplicate subscripts although sampling without replacement"
            elif c["samples"] > gen.numel(c["shape"]) - len(c["subs"]):
                what = "more zeros requested than the tensor has, yet answered"
            tags.append("norepl-short" if len(o) < c["samples"] else "norepl-full-count")
            if rng.uniform_calls:
                drawn = np.floor(rng.uniform_calls[0] * np.array(c["shape"])).astype(int).tolist()
                if len({tuple(r) for r in drawn}) < len(drawn):
                    tags.append("norepl-duplicate-rows-drawn")
                if drawn != sorted(drawn):
                    tags.append("norepl-unsorted-rows-drawn")
                if any(data.get(tuple(r), 0) != 0 for r in drawn):
                    tags.append("norepl-nonzero-drawn")
            if o:
                tags.append("norepl-nonempty")
            return Verdict("violation" if what else "ok", "zeros(with_replacement=False): " + what if what else "",
                           impl, m, None, tags, nontrivial)
        if k == "nonzeros":
            data = lookup_of(c)
            ok = len(o["subs"]) == len(o["vals"]) == c["samples"] and all(
                tuple(r) in data and frac(v) == data[tuple(r)] for r, v in zip(o["subs"], o["vals"]))
            if not c["with_replacement"] and len({tuple(r) for r in o["subs"]}) != len(o["subs"]):
                ok = False
            return Verdict("ok" if ok else "violation", "" if ok else "nonzeros: not the stored entries requested",
                           impl, m, None, tags, nontrivial)
        if k == "zeros":
            data = lookup_of(c)
            ok = len(o) <= c["samples"] and all(
                len(r) == len(c["shape"]) and all(0 <= x < s for x, s in zip(r, c["shape"]))
                and data.get(tuple(r), 0) == 0 for r in o)
            tags.append("short" if len(o) < c["samples"] else "full-count")
            return Verdict("ok" if ok else "violation", "" if ok else "zeros: not zeros of the tensor inside it",
                           impl, m, None, tags, nontrivial)
        cells = gen.numel(c["shape"])
        if k == "uniform":
            what, _ = spec_sample("uniform", c, o, 0, cells)
            vs = getattr(rng, "vals_shape", ())
            if not what and len(vs) == 2:
                tags.append("uniform-on-sparse")
                what = (f"uniform-sparse-column-vals: {len(o['subs'])} samples, weights of shape ({len(o['wgts'])},) "
                        f"but values of shape {vs} (one value per sample is a 1-d array)")
        elif k == "semistrat":
            what, _ = spec_sample("semistrat", c, o, c["num_nonzeros"], cells)
        else:
            what, _ = spec_sample("stratified", c, o, c["num_nonzeros"], cells - len(c["subs"]))
            found = len(o["subs"]) - c["num_nonzeros"]
            tags.append("zeros-short" if found < c["num_zeros"] else "zeros-full")
        if k != "uniform" and c["num_nonzeros"] > len(c["subs"]):
            tags.append("more-nonzeros-than-stored")
        if what:
            return Verdict("violation", what, impl, m, None, tags, nontrivial)
        return Verdict("ok", "", impl, m, None, tags, nontrivial)

    def shrink(self, case):
        c = case
        if c.get("subs"):
            for i in range(len(c["subs"])):
                yield {**c, "subs": c["subs"][:i] + c["subs"][i + 1:], "vals": c["vals"][:i] + c["vals"][i + 1:]}
        for key in ("samples", "num_nonzeros", "num_zeros"):
            if c.get(key, 0) > 0:
                yield {**c, key: c[key] - 1}
        if len(c["us"]) > 1:
            yield {**c, "us": c["us"][: len(c["us"]) // 2]}


# ----------------------------------------------------------------------------
# GCPSampler: which sampler, which counts; a sample through the official entry
# ----------------------------------------------------------------------------
class FakeSp(ttb.sptensor):
    """An sptensor that claims a size / nnz (only shape, nnz and subs are read by
    GCPSampler.__init__); lets the count formulas be exercised at sizes that would not fit."""
    _fake_nnz = None

    @property
    def nnz(self):
        return self._fake_nnz if self._fake_nnz is not None else super().nnz


KINDS = {"uniform": S.Samplers.UNIFORM, "semistrat": S.Samplers.SEMISTRATIFIED, "stratified": S.Samplers.STRATIFIED}


def _count(c):
    if c is None or isinstance(c, int):
        return c
    return S.StratifiedCount(num_nonzeros=c[0], num_zeros=c[1])


class Plans(Family):
    name = "gcpsampler"
    theorems = ("C13_default_counts_available",)

    def gen(self, rng, tier):
        n = 150 if tier == "quick" else 1500
        out = []
        for _ in range(n):
            sparse = rng.random() < 0.6
            c = {"sparse": sparse,
                 "fkind": rng.choice([None, None, "uniform", "stratified", "semistrat"]),
                 "gkind": rng.choice([None, None, "uniform", "stratified", "semistrat"]),
                 "fcount": rng.choice([None, None, rng.randint(0, 9), [rng.randint(0, 5), rng.randint(0, 5)]]),
                 "gcount": rng.choice([None, None, rng.randint(0, 9), [rng.randint(0, 5), rng.randint(0, 5)]]),
                 "max_iters": rng.choice([1000, 1000, 1, 7, 0, 30])}
            us, ints = _pool(rng)
            c.update(us=us, ints=ints)
            if sparse and rng.random() < 0.35:
                # faked size: a few real entries, claimed shape / nnz large
                shape = [rng.choice([100, 1000]) for _ in range(rng.randint(2, 3))]
                cells = gen.numel(shape)
                c.update(shape=shape, subs=[[0] * len(shape)], vals=[1],
                         fake_nnz=min(cells, rng.choice([1, 999, 10 ** 5, 10 ** 7 + 1, 3 * 10 ** 7, 10 ** 8,
                                                         cells - 1, cells])))
                if c["gkind"] == "semistrat":   # crng = np.arange(num_nonzeros) is really allocated
                    c["fake_nnz"] = min(c["fake_nnz"], 10 ** 6 + 1)
            else:
                s = gen.shape(rng, 2, 3, 4)
                c["shape"] = s
                if sparse:
                    subs, vals, _ = _sparse(rng, s)
                    c.update(subs=subs, vals=vals)
                else:
                    c["dense"] = gen.dense_data(rng, s)
            out.append(c)
        return out

    @staticmethod
    def _describe(fn):
        if isinstance(fn, partial):
            kw = fn.keywords
            name = fn.func.__name__
            if name == "uniform":
                return {"kind": "uniform", "num_nonzeros": int(kw["samples"]), "num_zeros": int(kw["samples"]),
                        "poisson": False}
            return {"kind": name, "num_nonzeros": int(kw["num_nonzeros"]), "num_zeros": int(kw["num_zeros"]),
                    "poisson": False}
        return {"kind": "uniform", "poisson": True}

    def evaluate(self, cases):
        impls, reqs, extra = [], [], []
        for c in cases:
            if c.get("fake_nnz") is not None:
                data = FakeSp(np.array(c["subs"], dtype=int), np.array(c["vals"], dtype=float).reshape(-1, 1),
                              tuple(c["shape"]))
                data._fake_nnz = c["fake_nnz"]
                nnz = c["fake_nnz"]
            else:
                data = mk_data(c)
                nnz = len(c["subs"]) if c["sparse"] else int(np.count_nonzero(np.array(c["dense"])))
            rng = ScriptedRng(c["us"], c["ints"])
            samples = {}

            def f(c=c, data=data, samples=samples):
                g = S.GCPSampler(data, KINDS.get(c["fkind"]), _count(c["fcount"]), KINDS.get(c["gkind"]),
                                 _count(c["gcount"]), c["max_iters"])
                samples["g"] = g
                fd, gd = self._describe(g._fsampler), self._describe(g._gsampler)
                fd["crng"] = 0
                gd["crng"] = int(len(g.crng))
                return {"function": fd, "gradient": gd}
            with quiet():
                impl = call(f)
            # a sample through the official entry points (small real tensors only)
            if "ok" in impl and c.get("fake_nnz") is None:
                with patched_rng(rng):
                    samples["f"] = call(lambda: canon_sample(samples["g"].function_sample(data)))
                    samples["gs"] = call(lambda: canon_sample(samples["g"].gradient_sample(data)))
            impls.append(impl)
            extra.append(samples)
            reqs.append({"op": "c13_plan", "sparse": c["sparse"], "size": gen.numel(c["shape"]), "nnz": nnz,
                         "fkind": c["fkind"], "fcount": c["fcount"], "gkind": c["gkind"], "gcount": c["gcount"],
                         "max_iters": c["max_iters"]})
        models = drive(reqs)
        out = []
        for c, impl, m, ex in zip(cases, impls, models, extra):
            tags = ["sparse" if c["sparse"] else "dense", f"f={c['fkind']}", f"g={c['gkind']}",
                    "fake" if c.get("fake_nnz") is not None else "real"]
            impl_c = strip_exc(impl)
            if "ok" in impl_c and "ok" in m:
                mm = {"ok": {k: dict(v) for k, v in m["ok"].items()}}
                for side in ("function", "gradient"):
                    if impl_c["ok"][side].get("poisson"):
                        tags.append("poisson")
                        mm["ok"][side] = {k: v for k, v in mm["ok"][side].items() if k in ("kind", "poisson", "crng")}
                m = mm
            if impl.get("reject"):
                tags.append("reject")
            if not deep_eq(impl_c, m):
                out.append(Verdict("violation", "GCPSampler binds another sampler / other counts than the model",
                                   impl, m, None, tags, "ok" in impl))
                continue
            v = Verdict("ok", "", impl, m, None, tags, "ok" in impl)
            if "ok" in impl and "f" in ex:
                cells = gen.numel(c["shape"])
                for side, key in (("function", "f"), ("gradient", "gs")):
                    s = ex[key]
                    d = impl["ok"][side]
                    if "ok" not in s:
                        tags.append(f"{side}-sample-reject")
                        continue
                    if d["kind"] == "uniform" and not d.get("poisson"):
                        what, semi = spec_sample("uniform", c, s["ok"], 0, cells)
                    elif d.get("poisson"):
                        # counts were drawn by the poisson stand-in: check everything but the split point
                        nzp = sum(1 for val in s["ok"]["vals"] if val != 0)
                        what, semi = spec_sample("stratified", c, s["ok"], nzp, cells - len(c["subs"]))
                    elif c.get("dense") is not None:
                        tags.append(f"{side}-sample-on-dense")
                        continue
                    else:
                        zt = cells if d["kind"] == "semistrat" else cells - len(c["subs"])
                        what, semi = spec_sample(d["kind"], c, s["ok"], d["num_nonzeros"], zt)
                    if what:
                        v = Verdict("violation", f"{side} sample of GCPSampler: {what}", s, None, None, tags, True)
                        break
            out.append(v)
        return out


# ----------------------------------------------------------------------------
# stochastic solvers
# ----------------------------------------------------------------------------
CLS = {"sgd": O.SGD, "adam": O.Adam, "adagrad": O.Adagrad}


class DummySampler:
    def __init__(self, nd, ncrng=0):
        self.nd = nd
        self.crng = np.arange(ncrng)

    def function_sample(self, data):
        return np.zeros((1, self.nd), dtype=int), np.zeros(1), np.ones(1)

    gradient_sample = function_sample


def _FH(x, m):  # handles are only passed through to the replaced `estimate`
    raise AssertionError("scripted oracle: the function handle must not be called")


_GH = _FH


class ScriptedOracle:
    """Replaces `estimate` inside optimizers.py: serves the scripted values, records the model
    handed in at every epoch boundary."""

    def __init__(self, fs, gs):
        self.fs, self.gs = fs, gs
        self.fi = self.gi = 0
        self.boundary = []
        self.bweights = []
        self.calls = []

    def __call__(self, model, subs, vals, wgts, function_handle=None, gradient_handle=None,
                 lambda_check=True, crng=None):
        if gradient_handle is None:
            self.boundary.append([f.copy() for f in model.factor_matrices])
            self.bweights.append(np.array(model.weights, dtype=float).copy())
            self.calls.append(("f", crng_list(crng)))
            v = self.fs[self.fi]
            self.fi += 1
            return v
        self.calls.append(("g", crng_list(crng)))
        g = [np.array(a, dtype=float) for a in self.gs[self.gi]]
        self.gi += 1
        return g


def crng_list(c):
    """A correction range as a list of ints; None and the empty range both mean "no correction"."""
    if c is None:
        return []
    return [int(x) for x in np.asarray(c).reshape(-1)]


def crng_misuse(calls, sampler_crng):
    """calls: [("f"|"g", crng list)] in call order.  Function-value estimates must carry no
    correction range, gradient estimates exactly the sampler's."""
    want = crng_list(sampler_crng)
    for k, (what, c) in enumerate(calls):
        if what == "f" and c:
            return f"estimate call #{k} (function value) was given a correction range of {len(c)} entries"
        if what == "g" and c != want:
            return (f"estimate call #{k} (gradient) was given a correction range of {len(c)} entries, "
                    f"the sampler's has {len(want)}")
    return ""


def sample_objective(fh, factors, sample):
    """Σ w·f(x, m) on a recorded function sample, computed here from the loss handle and the model
    entries at the sampled subscripts (no correction range, not the code's estimate())."""
    subs, vals, wgts = sample
    if subs.size == 0:
        return 0.0
    z = np.ones((subs.shape[0], np.asarray(factors[0]).shape[1]))
    for k, A in enumerate(factors):
        z = z * np.asarray(A, dtype=float)[subs[:, k], :]
    return float(np.sum(wgts * fh(vals, z.sum(axis=1))))


class RecordingOracle:
    """Wraps the real `estimate` (passes everything through): records values, gradients, boundary
    models and the correction range every call was given."""

    def __init__(self, real):
        self.real = real
        self.fs, self.gs, self.boundary, self.calls, self.fargs, self.gargs = [], [], [], [], [], []
        self.bweights, self.mutated = [], []

    def __call__(self, model, subs, vals, wgts, function_handle=None, gradient_handle=None, **kw):
        # the model as it is HANDED IN (an estimate has no business changing it)
        before = ktensor_state(model)
        r = self.real(model, subs, vals, wgts, function_handle, gradient_handle, **kw)
        if not same_state(before, ktensor_state(model)):
            self.mutated.append(len(self.calls))
        if gradient_handle is None:
            self.boundary.append(before[1:])
            self.bweights.append(before[0])
            self.fs.append(float(r))
            self.calls.append(("f", crng_list(kw.get("crng"))))
            self.fargs.append((np.array(subs).copy(), np.asarray(vals, dtype=float).reshape(-1).copy(),
                               np.asarray(wgts, dtype=float).reshape(-1).copy()))
        else:
            self.gs.append([np.array(a, dtype=float) for a in r])
            self.calls.append(("g", crng_list(kw.get("crng"))))
            self.gargs.append((np.array(subs).copy(), np.asarray(vals, dtype=float).reshape(-1).copy(),
                               np.asarray(wgts, dtype=float).reshape(-1).copy()))
        return r


def sample_vs_data(arr, sample, nonzero_values_only=False):
    """A recorded (subs, vals, wgts) sample against the CURRENT data array: subscripts inside, one value
    and one weight per subscript, every value the data entry at its subscript (for a semi-stratified
    gradient sample only the entries reported as nonzeros).  Returns '' or what is wrong."""
    subs, vals, wgts = sample
    if subs.size == 0:
        return "" if len(vals) == 0 and len(wgts) == 0 else "values / weights without subscripts"
    if subs.ndim != 2 or subs.shape[1] != arr.ndim:
        return f"subscript array of shape {subs.shape} for a {arr.ndim}-way tensor"
    if not (subs.shape[0] == len(vals) == len(wgts)):
        return f"{subs.shape[0]} subscripts, {len(vals)} values, {len(wgts)} weights"
    if (subs < 0).any() or (subs >= np.array(arr.shape)).any():
        return "a sampled subscript is outside the tensor"
    truth = arr[tuple(subs.T)]
    bad = (vals != truth) & ((vals != 0) if nonzero_values_only else True)
    if bad.any():
        i = int(np.argmax(bad))
        return (f"sampled value {vals[i]} at subscript {subs[i].tolist()} is not the entry {truth[i]} of the data "
                f"being solved ({int(bad.sum())} of {len(vals)} samples)")
    return ""


def opt_state(kind, opt):
    st = {"nfails": int(opt._nfails), "total_iters": 0, "m": [], "m_prev": [], "v": [], "v_prev": [], "gnormsum": 0.0}
    if kind == "adam":
        st.update(total_iters=int(opt._total_iterations), m=[tolist(a) for a in opt._m],
                  m_prev=[tolist(a) for a in opt._m_prev], v=[tolist(a) for a in opt._v],
                  v_prev=[tolist(a) for a in opt._v_prev])
    if kind == "adagrad":
        st["gnormsum"] = float(opt._gnormsum)
    return st


def hyper_kwargs(kind, h):
    kw = dict(rate=float(Fraction(h["rate"])), decay=float(Fraction(h["decay"])), max_fails=h["max_fails"],
              epoch_iters=h["epoch_iters"], max_iters=h["max_iters"], printitn=0)
    if h.get("f_est_tol") is not None:
        kw["f_est_tol"] = float(Fraction(h["f_est_tol"]))
    if kind == "adam":
        kw.update(beta_1=float(Fraction(h["beta1"])), beta_2=float(Fraction(h["beta2"])),
                  epsilon=float(Fraction(h["eps"])))
    return kw


def hyper_req(h, conv):
    return {"rate": conv(Fraction(h["rate"])), "decay": conv(Fraction(h["decay"])), "max_fails": h["max_fails"],
            "epoch_iters": h["epoch_iters"], "max_iters": h["max_iters"],
            "f_est_tol": None if h.get("f_est_tol") is None else conv(Fraction(h["f_est_tol"])),
            "beta1": conv(Fraction(h["beta1"])), "beta2": conv(Fraction(h["beta2"])), "eps": conv(Fraction(h["eps"]))}


def state_req(st, conv):
    return {"nfails": st["nfails"], "total_iters": st["total_iters"], "gnormsum": conv(st["gnormsum"]),
            **{k: [[[conv(x) for x in row] for row in A] for A in st[k]] for k in ("m", "m_prev", "v", "v_prev")}}


FRESH = {"nfails": 0, "total_iters": 0, "m": [], "m_prev": [], "v": [], "v_prev": [], "gnormsum": 0.0}


def conv_exact(x):
    return jval(Fraction(x)) if not isinstance(x, float) else jval(x)


def conv_bits(x):
    return bits(float(x))


def indices_equal(boundary, factors):
    return [j for j, b in enumerate(boundary)
            if len(b) == len(factors) and all(np.array_equal(x, y) for x, y in zip(b, factors))]


WEIGHT_POOL = ["2", "-1", "1/2", "-3/2", "3", "0", "1"]


def gen_weights(rng, rank, p_unit=0.5):
    """Weights of a starting guess handed to solve() DIRECTLY: all one (what gcp_opt passes), or of both signs /
    zero / other magnitudes (a ktensor as users hold them)."""
    if rng.random() < p_unit:
        return ["1"] * rank
    w = [rng.choice(WEIGHT_POOL) for _ in range(rank)]
    if all(x == "1" for x in w):
        w[rng.randrange(rank)] = rng.choice(["-1", "2", "-3/2"])
    return w


def ktensor_state(k):
    return [np.array(k.weights, dtype=float).copy()] + [np.array(f, dtype=float).copy() for f in k.factor_matrices]


def same_state(a, b):
    return len(a) == len(b) and all(x.shape == y.shape and np.array_equal(x, y) for x, y in zip(a, b))


def last_index_equal(boundary, factors):
    hits = indices_equal(boundary, factors)
    return hits[-1] if hits else -1


def spec_solve(h, lb, init, res, exact_lb_init):
    """The property evaluated on one implementation run (res = recorded dict). Returns ''
    or the description of what fails."""
    fs = res["fs_seen"]                       # estimates in call order (start + one per completed epoch)
    trace = res["f_est_trace"]
    if len(trace) != len(fs):
        return f"trace has {len(trace)} entries for {len(fs) - 1} completed epochs"
    if list(trace) != list(fs):
        return "trace is not the sequence of estimates"
    if len(res["step_trace"]) != len(fs):
        return f"step trace has {len(res['step_trace'])} entries for {len(fs) - 1} completed epochs"
    hits = res["equal_indices"]            # epoch boundaries whose model is the returned one
    if not hits:
        return "returned model is none of the models seen at an epoch boundary"
    if all(fs[j] != min(fs) for j in hits):
        return f"estimate of the returned model {[fs[j] for j in hits]} is not the smallest of the trace {min(fs)}"
    if min(fs[j] for j in hits) > fs[0]:
        return "returned model is worse than the starting guess"
    # failure counting
    best, nf, done = fs[0], 0, 0
    tol = h.get("f_est_tol")
    tol = None if tol is None else float(Fraction(tol))
    for k in range(1, len(fs)):
        done = k
        if fs[k] > best:
            nf += 1
        else:
            best = fs[k]
        if nf > h["max_fails"] or (tol is not None and fs[k] < tol):
            break
    if done != len(fs) - 1:
        return "the solve went on after the stopping rule fired"
    if nf != res["nfails"]:
        return f"nfails is {res['nfails']}, {nf} epochs were worse than the best before them"
    stopped = nf > h["max_fails"] or (tol is not None and len(fs) > 1 and fs[-1] < tol)
    if not stopped and len(fs) - 1 != h["max_iters"]:
        return f"{len(fs) - 1} epochs completed without a stopping rule, max_iters = {h['max_iters']}"
    if lb is not None and exact_lb_init:
        if any(float(x) < lb for A in res["factors"] for row in A for x in row):
            return f"a factor entry is below the lower bound {lb}"
    return ""


class SolverScripted(Family):
    """Bookkeeping of StochasticSolver.solve with a scripted estimate stream; 1..4 solves on ONE object
    compared with the model threading the object's fields, and with fresh-object solves."""
    name = "solver_scripted"
    theorems = ("C13_best_model", "C13_best_model_estimate", "C13_trace_length", "C13_nfails", "C13_lower_bound",
                "C13_lower_bound_solve", "C13_reusable", "C13_solve_rejects_zero_epoch_iters")

    def gen(self, rng, tier):
        n = 90 if tier == "quick" else 900
        out = []
        for _ in range(n):
            kind = rng.choice(["sgd", "sgd", "adam", "adagrad"])
            h = {"rate": rng.choice(["1/2", "1/4", "1/8", "1"]), "decay": rng.choice(["1/2", "1/4", "1"]),
                 "max_fails": rng.choice([0, 1, 1, 2]), "epoch_iters": 0 if rng.random() < 0.05 else rng.choice([1, 2, 3]),
                 "max_iters": rng.choice([0, 1, 2, 3, 4, 5]), "f_est_tol": None,
                 "beta1": rng.choice(["1/2", "3/4", "9/10"]), "beta2": rng.choice(["3/4", "7/8", "999/1000"]),
                 "eps": rng.choice(["1/1024", "1/100000000"])}
            if rng.random() < 0.2:
                h["f_est_tol"] = rng.choice(["5", "6", "7"])
            lb = rng.choice([None, None, "0", "1/2", "-1"])
            nsolves = rng.choice([1, 2, 2, 3, 4])
            solves = []
            shape0, rank0 = gen.shape(rng, 2, 3, 3), rng.randint(1, 2)
            for _k in range(nsolves):
                if rng.random() < 0.5:
                    shape, rank = shape0, rank0
                else:
                    shape, rank = gen.shape(rng, 2, 3, 3), rng.randint(1, 2)
                lo = Fraction(lb) if lb is not None else Fraction(-2)
                feasible = rng.random() < 0.9
                init = [[[str(lo + Fraction(rng.randint(0 if feasible else -4, 12), 4)) for _ in range(rank)]
                         for _ in range(s)] for s in shape]
                # estimates: start 8, then per epoch improve / tie / fail
                fs, best = [Fraction(8)], Fraction(8)
                for _e in range(h["max_iters"]):
                    r = rng.random()
                    if r < 0.45:
                        v = best - Fraction(rng.randint(1, 4), 4)
                        best = v
                    elif r < 0.55:
                        v = best
                    else:
                        v = best + Fraction(rng.randint(1, 8), 4)
                    fs.append(v)
                gs = []
                for _i in range(h["max_iters"] * h["epoch_iters"]):
                    g = [[[rng.randint(-3, 3) for _ in range(rank)] for _ in range(s)] for s in shape]
                    if all(x == 0 for A in g for row in A for x in row):
                        g[0][0][0] = 1
                    gs.append(g)
                solves.append({"shape": shape, "rank": rank, "init": init, "weights": gen_weights(rng, rank),
                               "fs": [str(x) for x in fs], "gs": gs})
            out.append({"kind": kind, "hyper": h, "lb": lb, "solves": solves, "crng": rng.choice([0, 0, 1, 3])})
        return out

    # -- implementation ---------------------------------------------------
    @staticmethod
    def run_solves(case, shared):
        kind, h = case["kind"], case["hyper"]
        lb = None if case["lb"] is None else float(Fraction(case["lb"]))
        opt = None
        results = []
        for s in case["solves"]:
            if opt is None or not shared:
                opt = CLS[kind](**hyper_kwargs(kind, h))
            init = ttb.ktensor([np.array([[float(Fraction(x)) for x in row] for row in A]) for A in s["init"]],
                               np.array([float(Fraction(x)) for x in s.get("weights") or ["1"] * s["rank"]]))
            data = ttb.tensor(np.ones(tuple(s["shape"])))
            oracle = ScriptedOracle([float(Fraction(x)) for x in s["fs"]], s["gs"])

            def f(opt=opt, init=init, data=data, oracle=oracle, s=s):
                cfg_before = snapshot(opt)
                init_before = ktensor_state(init)
                with patched(O, "estimate", oracle), quiet():
                    m, info = opt.solve(init, data, _FH, _GH, -np.inf if lb is None else lb,
                                        DummySampler(len(s["shape"]), case.get("crng", 0)))
                fm = [x.copy() for x in m.factor_matrices]
                return {"factors": [tolist(x) for x in fm], "weights": tolist(m.weights),
                        "init_changed": not same_state(init_before, ktensor_state(init)),
                        "f_est_trace": tolist(info["f_est_trace"]),
                        "step_trace": tolist(info["step_trace"]), "n_epoch": int(info["n_epoch"]),
                        "nfails": int(opt._nfails), "n_boundaries": len(oracle.boundary),
                        "best_index": last_index_equal(oracle.boundary, fm),
                        "equal_indices": indices_equal(oracle.boundary, fm),
                        "fs_seen": list(oracle.fs[: oracle.fi]), "state": opt_state(kind, opt),
                        "crng_misuse": crng_misuse(oracle.calls, np.arange(case.get("crng", 0))),
                        "cfg_changed": config_change(cfg_before, snapshot(opt), PER_SOLVE_STATE[kind])}
            r = call(f)
            results.append(r)
            if "ok" not in r:
                break
        return results

    def evaluate(self, cases):
        shared = [self.run_solves(c, True) for c in cases]
        fresh = [self.run_solves(c, False) for c in cases]
        reqs = []
        for c in cases:
            exact = c["kind"] == "sgd"
            conv = conv_exact if exact else conv_bits
            reqs.append({"op": "c13_solves" if exact else "c13_solves_float", "kind": c["kind"],
                         "hyper": hyper_req(c["hyper"], conv), "state": state_req(FRESH, conv),
                         "solves": [{"init": {"weights": [conv(Fraction(x)) for x in s.get("weights") or ["1"] * s["rank"]],
                                              "factors": [[[conv(Fraction(x)) for x in row] for row in A] for A in s["init"]]},
                                     "lb": None if c["lb"] is None else conv(Fraction(c["lb"])),
                                     "fs": [conv(Fraction(x)) for x in s["fs"]],
                                     "gs": [[[[conv(Fraction(x)) for x in row] for row in A] for A in g] for g in s["gs"]]}
                                    for s in c["solves"]]})
        models = drive(reqs)
        return [self._judge(c, sh, fr, m) for c, sh, fr, m in zip(cases, shared, fresh, models)]

    @staticmethod
    def _cmp_run(kind, impl, m, rel):
        """impl: dict of one implementation run; m: model reply of the same solve."""
        exact = kind == "sgd"
        for key in ("n_epoch", "nfails", "n_boundaries", "best_index"):
            if impl[key] != m[key]:
                return f"{key}: implementation {impl[key]}, model {m[key]}"
        if exact:
            for key in ("factors", "weights", "f_est_trace", "step_trace"):
                if not deep_eq(jval(impl[key]), m[key]):
                    return f"{key} differs from the model"
        else:
            if not deep_eq(bits_deep(impl["f_est_trace"]), m["f_est_trace"]):
                return "f_est_trace differs from the model"
            if not deep_eq(bits_deep(impl["weights"]), m["weights"]):
                return "weights of the returned model differ from the model's"
            for key in ("factors", "step_trace"):
                if not close_deep(impl[key], m[key], rel):
                    return f"{key} differs from the model beyond {rel}"
            ms = m["state"]
            st = impl["state"]
            if kind == "adam" and st["total_iters"] != ms["total_iters"]:
                return f"_total_iterations: implementation {st['total_iters']}, model {ms['total_iters']}"
            if kind == "adam" and not (close_deep(st["m"], ms["m"], rel) and close_deep(st["v"], ms["v"], rel)):
                return "Adam moments differ from the model"
            if kind == "adagrad" and not close(st["gnormsum"], unbits(ms["gnormsum"]), rel):
                return "Adagrad gnormsum differs from the model"
        return ""

    def _judge(self, c, shared, fresh, m):
        kind, h = c["kind"], c["hyper"]
        tags = [kind, f"solves{len(c['solves'])}", f"E{h['epoch_iters']}", f"T{h['max_iters']}",
                "lb=" + ("none" if c["lb"] is None else "finite")]
        if len({(tuple(s["shape"]), s["rank"]) for s in c["solves"]}) > 1:
            tags.append("sizes-differ")
        if any(any(x != "1" for x in s.get("weights") or []) for s in c["solves"]):
            tags.append("start-weights-not-one")
        if any(any(Fraction(x) < 0 for x in s.get("weights") or []) for s in c["solves"]):
            tags.append("start-weight-negative")
        lb = None if c["lb"] is None else float(Fraction(c["lb"]))
        nontrivial = False
        for k, s in enumerate(c["solves"]):
            if k >= len(shared):
                break
            sh, fr = shared[k], fresh[k] if k < len(fresh) else None
            mk = m[k] if k < len(m) else None
            # 1. the property on the implementation
            if "ok" in sh:
                r = sh["ok"]
                feasible = lb is None or all(float(Fraction(x)) >= lb for A in s["init"] for row in A for x in row)
                what = spec_solve(h, lb, s["init"], r, feasible)
                if not what and r["init_changed"]:
                    what = "the solve modified the starting guess it was handed"
                if not what and r["cfg_changed"]:
                    what = f"the solve changed the configuration of the solver object: {r['cfg_changed']}"
                if not what:
                    what = r["crng_misuse"]
                if what:
                    return Verdict("violation", f"solve #{k + 1} on the shared object: {what}", sh, mk, None, tags)
                if r["nfails"] > 0:
                    tags.append("failed-epochs")
                if r["n_boundaries"] > 1:
                    nontrivial = True
            else:
                tags.append("reject")
            # 2. reusability: the k-th solve on the shared object == the same solve on a fresh object
            if fr is not None:
                a, b = strip_exc(sh), strip_exc(fr)
                if "ok" in a and "ok" in b:
                    a = {kk: v for kk, v in a["ok"].items() if kk != "state"}
                    b = {kk: v for kk, v in b["ok"].items() if kk != "state"}
                if a != b:
                    return Verdict("violation", f"solve #{k + 1} on a used {kind} object differs from the same solve "
                                   "on a fresh object", sh, fr, None, tags + ["reuse"])
            # 3. correspondence with the model
            if mk is None:
                return Verdict("violation", "model stopped earlier than the implementation", shared, m, None, tags)
            if ("ok" in sh) != ("ok" in mk):
                return Verdict("violation", f"solve #{k + 1}: implementation {'accepts' if 'ok' in sh else 'rejects'}, "
                               "model does not", sh, mk, None, tags)
            if "ok" in sh:
                what = self._cmp_run(kind, sh["ok"], mk["ok"], 1e-8)
                if what:
                    return Verdict("violation", f"solve #{k + 1}: {what}", sh, mk, None, tags)
        return Verdict("ok", "", shared[-1] if shared else None, m[-1] if m else None, None, tags, nontrivial)

    def shrink(self, case):
        c = case
        if len(c["solves"]) > 1:
            for i in range(len(c["solves"])):
                yield {**c, "solves": c["solves"][:i] + c["solves"][i + 1:]}
        h = c["hyper"]
        if h["max_iters"] > 1:
            t = h["max_iters"] - 1
            yield {**c, "hyper": {**h, "max_iters": t},
                   "solves": [{**s, "fs": s["fs"][: t + 1], "gs": s["gs"][: t * h["epoch_iters"]]} for s in c["solves"]]}


OBJECTIVES = {"gaussian": Objectives.GAUSSIAN, "poisson": Objectives.POISSON, "rayleigh": Objectives.RAYLEIGH,
              "gamma": Objectives.GAMMA, "poisson_log": Objectives.POISSON_LOG}


def real_problem(c):
    """Data tensor, handles, lower bound of one real problem description."""
    r = np.random.RandomState(c["dseed"])
    shape = tuple(c["shape"])
    if c["objective"] in ("poisson", "poisson_log"):
        arr = r.poisson(1.5, size=shape).astype(float)
    elif c["objective"] in ("rayleigh", "gamma"):
        arr = r.uniform(0.2, 2.0, size=shape)
    else:
        arr = r.normal(size=shape)
    if c.get("dscale") is not None:
        arr = arr * float(Fraction(c["dscale"]))
    if c["sparse"]:
        # the sparsity pattern: from its own seed / density when given (same pattern, other values and
        # same shape, other pattern are then expressible), else from the data stream
        mr = np.random.RandomState(c["mseed"]) if c.get("mseed") is not None else r
        arr = arr * (mr.uniform(size=shape) < float(Fraction(c.get("density", "1/2"))))
        # a completely full / completely empty sptensor cannot be sampled (error path, degenerate)
        arr.flat[0] = 1.0
        arr.flat[arr.size - 1] = 0.0
        data = ttb.tensor(arr).to_sptensor()
    else:
        data = ttb.tensor(arr)
    if c["objective"] == "custom":
        fh, gh, _ = setup(Objectives.GAUSSIAN, None)
        lb = float(Fraction(c["lb"]))
    else:
        fh, gh, lb = setup(OBJECTIVES[c["objective"]], data)
    lo = max(lb, 0.0) if np.isfinite(lb) else -0.5
    if c.get("init") is not None:   # explicit range of the starting factors (overshooting starts)
        a, b = (float(Fraction(v)) for v in c["init"])
        init = ttb.ktensor([a + (b - a) * r.uniform(size=(s, c["rank"])) for s in shape])
    else:
        init = ttb.ktensor([lo + 0.1 + r.uniform(size=(s, c["rank"])) for s in shape])
    if c.get("weights") is not None:   # a start whose weights are not all one (direct solve() only)
        init = ttb.ktensor([f.copy() for f in init.factor_matrices], np.array([float(Fraction(x)) for x in c["weights"]]))
    return data, fh, gh, lb, init


def sampler_configs():
    """Every (data kind, function sampler, gradient sampler) GCPSampler accepts and can sample with;
    the semi-stratified gradient sampler (the only one with a correction range) is listed twice."""
    out = [(False, f, g) for f in (None, "uniform") for g in (None, "uniform")]
    for f in (None, "stratified", "uniform"):
        for g in (None, "stratified", "uniform", "semistrat", "semistrat"):
            out.append((True, f, g))
    return out


class SolverReal(Family):
    """Real estimates on seeded problems, every sampler configuration: decision fields exactly, every
    recorded step against the model at Float (one step, relative 1e-9), the whole run at Float (1e-8),
    reuse vs fresh; the trace against the objective recomputed here on the recorded function sample;
    the correction range every estimate call was given."""
    name = "solver_real"
    theorems = ("C13_best_model", "C13_trace_length", "C13_nfails", "C13_lower_bound", "C13_reusable",
                "C13_reusable_sampler")

    def gen(self, rng, tier):
        n = 30 if tier == "quick" else 180
        out = []
        configs = sampler_configs()
        rng.shuffle(configs)
        nprob = 0
        for ci in range(n):
            kind = ["sgd", "adam", "adagrad"][ci % 3]
            h = {"rate": rng.choice(["1/100", "1/20", "1/2"]), "decay": rng.choice(["1/10", "1/2"]),
                 "max_fails": rng.choice([0, 1, 2]), "epoch_iters": rng.choice([1, 2, 3]),
                 "max_iters": rng.choice([1, 2, 3, 4]), "f_est_tol": None,
                 "beta1": "9/10", "beta2": "999/1000", "eps": "1/100000000"}
            probs = []
            base = None
            for _k in range(rng.choice([1, 2, 2, 3])):
                if base is not None and rng.random() < 0.5:
                    p = dict(base, seed=rng.randrange(10 ** 6))
                else:
                    # the configurations are dealt round-robin so that every one occurs in every run
                    sparse, fkind, gkind = configs[nprob % len(configs)]
                    nprob += 1
                    obj = rng.choice(["gaussian", "gaussian", "poisson", "rayleigh", "gamma", "custom"])
                    if sparse and obj in ("rayleigh", "gamma"):
                        obj = "poisson"

                    def count(kindname, lo, hi):
                        r = rng.random()
                        if kindname == "uniform" or (kindname is None and not sparse):
                            return None if r < 0.2 else rng.randint(lo, hi)
                        if r < 0.2:
                            return None
                        return rng.randint(lo, hi) if r < 0.6 else [rng.randint(lo, hi), rng.randint(1, hi)]
                    p = {"shape": rng.sample([2, 3, 4, 5], rng.choice([2, 3])), "rank": rng.randint(1, 2),
                         "sparse": sparse, "objective": obj, "lb": rng.choice(["0", "1/4", "-1/2"]),
                         "dseed": rng.randrange(10 ** 6), "seed": rng.randrange(10 ** 6),
                         "fkind": fkind, "gkind": gkind, "fsamp": count(fkind, 3, 12),
                         # sparse + uniform gradient sampler: the counts are Poisson draws around gsamp; an empty
                         # gradient sample makes estimate() raise (error path, degenerate), so keep it unlikely
                         "gsamp": rng.randint(14, 20) if (sparse and gkind == "uniform") else count(gkind, 2, 6),
                         "via": ["solve", "gcp_opt"][(nprob + ci) % 2]}
                    if p["via"] == "solve":   # gcp_opt always hands over unit weights; a direct caller need not
                        p["weights"] = gen_weights(rng, p["rank"], 0.4)
                    base = base or p
                probs.append(p)
            out.append({"kind": kind, "hyper": h, "problems": probs})
        # sequences of 2-3 solves on ONE object with the DEFAULT sampler (sampler=None; the solver builds it from
        # the data of the solve): solver class x data kind x relation between consecutive problems
        k = 0
        for rep in range(1 if tier == "quick" else 5):
            for kind in ("sgd", "adam", "adagrad"):
                for sparse in (False, True):
                    for rel in ("same-shape-other-pattern", "same-pattern-other-values", "other-shape"):
                        h = {"rate": rng.choice(["1/100", "1/20"]), "decay": "1/2", "max_fails": rng.choice([0, 1]),
                             "epoch_iters": rng.choice([1, 2]), "max_iters": rng.choice([1, 2, 3]), "f_est_tol": None,
                             "beta1": "9/10", "beta2": "999/1000", "eps": "1/100000000"}
                        obj = rng.choice(["gaussian", "poisson"]) if sparse else rng.choice(["gaussian", "rayleigh", "custom"])
                        a = {"shape": rng.sample([2, 3, 4, 5], rng.choice([2, 3])), "rank": rng.randint(1, 2),
                             "sparse": sparse, "objective": obj, "lb": rng.choice(["0", "1/4"]),
                             "dseed": rng.randrange(10 ** 6), "seed": rng.randrange(10 ** 6),
                             "mseed": rng.randrange(10 ** 6), "density": rng.choice(["1/4", "1/2", "3/4"]),
                             "default_sampler": True, "fkind": None, "gkind": None, "fsamp": None, "gsamp": None,
                             "via": ["solve", "gcp_opt"][k % 2]}
                        b = dict(a, dseed=rng.randrange(10 ** 6), seed=rng.randrange(10 ** 6), via=["gcp_opt", "solve"][k % 2])
                        for q in (a, b):
                            if q["via"] == "solve":
                                q["weights"] = gen_weights(rng, q["rank"], 0.5)
                        if rel == "same-shape-other-pattern":
                            b.update(mseed=rng.randrange(10 ** 6),
                                     density=rng.choice([d for d in ("1/4", "1/2", "3/4") if d != a["density"]]))
                        elif rel == "other-shape":
                            b.update(shape=rng.sample([2, 3, 4, 5], rng.choice([2, 3])), mseed=rng.randrange(10 ** 6))
                        probs = [a, b] + ([dict(a, seed=rng.randrange(10 ** 6))] if k % 3 != 2 else [])
                        out.append({"kind": kind, "hyper": h, "problems": probs, "relation": rel})
                        k += 1
        return out

    @staticmethod
    def run(case, shared):
        kind, h = case["kind"], case["hyper"]
        opt = None
        results = []
        for p in case["problems"]:
            if opt is None or not shared:
                opt = CLS[kind](**hyper_kwargs(kind, h))
            default = bool(p.get("default_sampler"))
            with quiet():
                data, fh, gh, lb, init = real_problem(p)
                # default_sampler: `sampler=None`, the solver builds GCPSampler(data) itself
                sampler = None if default else S.GCPSampler(
                    data, KINDS.get(p.get("fkind")), _count(p["fsamp"]), KINDS.get(p["gkind"]), _count(p["gsamp"]),
                    max_iters=h["max_iters"])
            arr = np.asarray(data.full().data if isinstance(data, ttb.sptensor) else data.data, dtype=float)
            # the fixed function sample, recorded at the sampler (instance attribute on OUR sampler object)
            fsample = []
            if not default:
                orig_fs = sampler.function_sample

                def rec_fs(d, orig_fs=orig_fs, fsample=fsample):
                    r = orig_fs(d)
                    fsample.append((np.array(r[0]).copy(), np.asarray(r[1], dtype=float).reshape(-1).copy(),
                                    np.asarray(r[2], dtype=float).reshape(-1).copy(), tuple(np.shape(r[1]))))
                    return r
                sampler.function_sample = rec_fs
            oracle = RecordingOracle(O.estimate)
            steps = []
            orig = opt.update_step

            def rec_step(model, gradient, lower_bound, opt=opt, orig=orig, steps=steps):
                before = opt_state(kind, opt)
                fin = [tolist(x) for x in model.factor_matrices]
                w = tolist(model.weights)
                out, step = orig(model, gradient, lower_bound)
                steps.append({"before": before, "factors": fin, "weights": w, "grad": [tolist(g) for g in gradient],
                              "out": [tolist(x) for x in out], "step": float(step), "after": opt_state(kind, opt)})
                return out, step

            def f(opt=opt, data=data, init=init, oracle=oracle, p=p, lb=lb, fh=fh, gh=gh, sampler=sampler,
                  fsample=fsample, default=default, arr=arr):
                np.random.seed(p["seed"])
                cfg_before = snapshot(opt)
                init_before = ktensor_state(init)
                opt.update_step = rec_step
                try:
                    with patched(O, "estimate", oracle), quiet():
                        if p.get("via") == "gcp_opt":
                            obj = (fh, gh, lb) if p["objective"] == "custom" else OBJECTIVES[p["objective"]]
                            m, _m0, info = ttb.gcp_opt(data, p["rank"], obj, opt, init=init.copy(), sampler=sampler,
                                                       printitn=0)
                        else:
                            m, info = opt.solve(init, data, fh, gh, lb, sampler)
                finally:
                    del opt.update_step
                fm = [x.copy() for x in m.factor_matrices]
                if default and oracle.fargs:
                    # the sampler lives inside solve(): the function sample is what the estimates were given
                    a0 = oracle.fargs[0]
                    fsample = [(a0[0], a0[1], a0[2], (len(a0[1]),))]
                crng = np.array([], dtype=int) if default else sampler.crng
                # every sample the solve used, against the data of THIS solve
                bad_sample = ""
                for a in oracle.fargs[:1]:
                    bad_sample = sample_vs_data(arr, a)
                    if bad_sample:
                        bad_sample = "function sample: " + bad_sample
                semi = (not default) and p.get("gkind") == "semistrat"
                for gi, a in enumerate(oracle.gargs):
                    if bad_sample:
                        break
                    bad_sample = sample_vs_data(arr, a, nonzero_values_only=semi)
                    if bad_sample:
                        bad_sample = f"gradient sample #{gi}: " + bad_sample
                return {"factors": [tolist(x) for x in fm], "weights": tolist(m.weights),
                        "start_weights": tolist(oracle.bweights[0]) if oracle.bweights else tolist(init.weights),
                        "init_changed": not same_state(init_before, ktensor_state(init)),
                        "estimate_mutated_model": list(oracle.mutated),
                        "f_est_trace": tolist(info["f_est_trace"]),
                        "step_trace": tolist(info["step_trace"]), "n_epoch": int(info["n_epoch"]),
                        "nfails": int(opt._nfails), "n_boundaries": len(oracle.boundary),
                        "best_index": last_index_equal(oracle.boundary, fm),
                        "equal_indices": indices_equal(oracle.boundary, fm), "fs_seen": list(oracle.fs),
                        "state": opt_state(kind, opt),
                        "cfg_changed": config_change(cfg_before, snapshot(opt), PER_SOLVE_STATE[kind]),
                        "crng_misuse": crng_misuse(oracle.calls, crng), "ncrng": len(crng_list(crng)),
                        "bad_sample": bad_sample,
                        "n_fsamples_drawn": 1 if default else len(fsample),
                        "fsample_vals_shape": list(fsample[0][3]) if fsample else None,
                        # the objective on the recorded function sample, computed here (no estimate(), no crng)
                        "f_indep": [sample_objective(fh, b, fsample[0][:3]) for b in oracle.boundary] if fsample else [],
                        "f_indep_returned": sample_objective(fh, fm, fsample[0][:3]) if fsample else None,
                        "same_sample_every_call": all(
                            np.array_equal(a[0], fsample[0][0]) and np.array_equal(a[1], fsample[0][1])
                            and np.array_equal(a[2], fsample[0][2]) for a in oracle.fargs) if fsample else False}
            state = np.random.get_state()
            try:
                r = call(f)
            finally:
                np.random.set_state(state)
            # the model the solver really started from (gcp_opt normalises the guess first)
            start = oracle.boundary[0] if oracle.boundary else init.factor_matrices
            results.append({"r": r, "steps": steps, "gs": oracle.gs, "init": [tolist(x) for x in start],
                            "weights": tolist(oracle.bweights[0]) if oracle.bweights else tolist(init.weights),
                            "lb": None if not np.isfinite(lb) else float(lb)})
            if "ok" not in r:
                break
        return results

    def evaluate(self, cases):
        shared = [self.run(c, True) for c in cases]
        fresh = [self.run(c, False) for c in cases]
        reqs, index = [], []
        for ci, (c, runs) in enumerate(zip(cases, shared)):
            kind = c["kind"]
            hr = hyper_req(c["hyper"], conv_bits)
            ok_runs = [x for x in runs if "ok" in x["r"]]
            reqs.append({"op": "c13_solves_float", "kind": kind, "hyper": hr, "state": state_req(FRESH, conv_bits),
                         "solves": [{"init": {"weights": bits_deep(x["weights"]), "factors": bits_deep(x["init"])},
                                     "lb": None if x["lb"] is None else bits(x["lb"]),
                                     "fs": bits_deep(x["r"]["ok"]["fs_seen"]),
                                     "gs": [bits_deep([tolist(g) for g in gl]) for gl in x["gs"]]} for x in ok_runs]})
            index.append((ci, "run", None))
            for ri, x in enumerate(ok_runs):
                st = x["steps"]
                pick = sorted(set([0, 1, len(st) // 2, len(st) - 2, len(st) - 1]) & set(range(len(st))))
                for si in pick:
                    s = st[si]
                    reqs.append({"op": "c13_step_float", "kind": kind, "hyper": hr,
                                 "state": state_req(s["before"], conv_bits),
                                 "model": {"weights": bits_deep(s["weights"]), "factors": bits_deep(s["factors"])},
                                 "grad": bits_deep(s["grad"]), "lb": None if x["lb"] is None else bits(x["lb"])})
                    index.append((ci, "step", (ri, si)))
        replies = drive(reqs)
        by_case = {}
        for (ci, what, key), rep in zip(index, replies):
            by_case.setdefault(ci, []).append((what, key, rep))
        return [self._judge(c, shared[ci], fresh[ci], by_case.get(ci, [])) for ci, c in enumerate(cases)]

    def _judge(self, c, shared, fresh, replies):
        kind, h = c["kind"], c["hyper"]
        tags = [kind, f"solves{len(c['problems'])}"] + sorted({p["objective"] for p in c["problems"]}) + \
               sorted({"via-" + p.get("via", "solve") for p in c["problems"]}) + \
               sorted({f"f={p.get('fkind')}/g={p.get('gkind')}" for p in c["problems"]}) + \
               (["default-sampler", "rel=" + c.get("relation", "-")] if any(p.get("default_sampler") for p in c["problems"]) else []) + \
               sorted({"sparse" if p["sparse"] else "dense" for p in c["problems"]}) + \
               (["start-weights-not-one"] if any(any(x != "1" for x in p.get("weights") or []) for p in c["problems"]) else []) + \
               (["start-weight-negative"] if any(any(Fraction(x) < 0 for x in p.get("weights") or [])
                                                 for p in c["problems"]) else [])
        run_reply = next(rep for what, _, rep in replies if what == "run")
        ok_i = 0
        nontrivial = False
        for k, x in enumerate(shared):
            r = x["r"]
            if "ok" not in r:
                return Verdict("violation", f"solve #{k + 1} raised: {r.get('exc')}: {r.get('msg')}", r, None, None, tags)
            o = r["ok"]
            what = spec_solve(h, x["lb"], None, o, True)
            if not what and o["init_changed"]:
                what = "the solve modified the starting guess it was handed"
            if not what and o["weights"] != o["start_weights"]:
                what = (f"the returned model has weights {o['weights']}, the start had {o['start_weights']} (the solve "
                        "updates factor matrices only)")
            if not what and o["estimate_mutated_model"]:
                what = f"estimate calls {o['estimate_mutated_model']} changed the model they were handed"
            if not what:
                what = o["crng_misuse"]
            if not what and o["n_fsamples_drawn"] != 1:
                what = f"the function sample was drawn {o['n_fsamples_drawn']} times (it is fixed for the whole solve)"
            if not what and not o["same_sample_every_call"]:
                what = "a function-value estimate was not computed on the fixed function sample"
            if not what and o["bad_sample"]:
                what = o["bad_sample"]
            if not what and o["cfg_changed"]:
                what = f"the solve changed the configuration of the solver object: {o['cfg_changed']}"
            if not what and x["steps"]:
                # the documented per-solve state starts every solve from the state of a new object
                b0 = x["steps"][0]["before"]
                if b0["nfails"] != 0 or b0["total_iters"] != 0 or b0["m"] or b0["v"] or b0["gnormsum"] != 0.0:
                    what = "the first step of the solve saw left-over optimizer state"
            if what:
                return Verdict("violation", f"solve #{k + 1} on the shared object: {what}", r, None, None, tags)
            if o["nfails"] > 0:
                tags.append("failed-epochs")
            nontrivial = nontrivial or o["n_boundaries"] > 1
            if o["ncrng"]:
                tags.append("crng-nonempty")
            # the trace against the objective recomputed on the recorded function sample
            tr, fi = o["f_est_trace"], o["f_indep"]
            bad = ""
            if len(fi) != len(tr):
                bad = "as many recomputed objectives as trace entries expected"
            elif not close(tr[0], fi[0], 1e-10):
                bad = (f"trace[0] = {tr[0]} is not the objective of the starting guess on the function sample "
                       f"({fi[0]})")
            elif any(not close(a, b, 1e-10) for a, b in zip(tr, fi)):
                j = next(i for i, (a, b) in enumerate(zip(tr, fi)) if not close(a, b, 1e-10))
                bad = f"trace[{j}] = {tr[j]} is not the objective of the model after epoch {j} on the function sample ({fi[j]})"
            elif not close(min(tr), o["f_indep_returned"], 1e-10):
                bad = (f"min(trace) = {min(tr)} is not the objective of the returned model on the function sample "
                       f"({o['f_indep_returned']})")
            elif o["f_indep_returned"] > fi[0] and not close(o["f_indep_returned"], fi[0], 1e-10):
                bad = "the returned model is worse than the starting guess on the function sample"
            if bad:
                vs = o["fsample_vals_shape"] or []
                p_k = c["problems"][k]
                if len(vs) == 2 and p_k["sparse"] and p_k.get("fkind") == "uniform":
                    bad = "uniform-sparse-column-vals: function sample values of shape " + str(tuple(vs)) + "; " + bad
                return Verdict("violation", f"solve #{k + 1}: {bad}", r, None, None, tags)
            fr = fresh[k]["r"] if k < len(fresh) else None
            if fr is not None:
                a = {kk: v for kk, v in o.items() if kk != "state"}
                b = {kk: v for kk, v in fr.get("ok", {}).items() if kk != "state"}
                if a != b:
                    return Verdict("violation", f"solve #{k + 1} on a used {kind} object differs from the same solve "
                                   "(same seed) on a fresh object", r, fr, None, tags + ["reuse"])
            mk = run_reply[ok_i] if ok_i < len(run_reply) else None
            ok_i += 1
            if mk is None or "ok" not in mk:
                return Verdict("violation", f"solve #{k + 1}: the model rejects a run the implementation completed",
                               r, mk, None, tags)
            # decision fields exactly; numbers at Float
            mo = mk["ok"]
            for key in ("n_epoch", "nfails", "n_boundaries", "best_index"):
                if o[key] != mo[key]:
                    return Verdict("violation", f"solve #{k + 1}: {key}: implementation {o[key]}, model {mo[key]}",
                                   r, mk, None, tags)
            if not deep_eq(bits_deep(o["f_est_trace"]), mo["f_est_trace"]):
                return Verdict("violation", f"solve #{k + 1}: f_est_trace differs from the model", r, mk, None, tags)
            if not deep_eq(bits_deep(o["weights"]), mo["weights"]):
                return Verdict("violation", f"solve #{k + 1}: weights of the returned model differ from the model's",
                               r, mk, None, tags)
            if not (close_deep(o["factors"], mo["factors"], 1e-8) and close_deep(o["step_trace"], mo["step_trace"], 1e-8)):
                return Verdict("violation", f"solve #{k + 1}: factors / steps differ from the model at Float beyond 1e-8",
                               r, mk, None, tags)
            # lower bound after every step (implementation)
            if x["lb"] is not None:
                for s in x["steps"]:
                    if any(v < x["lb"] for A in s["out"] for row in A for v in row):
                        return Verdict("violation", f"solve #{k + 1}: update_step produced an entry below the lower bound",
                                       s, None, None, tags)
        # one-step validation
        for what, key, rep in replies:
            if what != "step":
                continue
            ri, si = key
            s = [x for x in shared if "ok" in x["r"]][ri]["steps"][si]
            if "ok" not in rep:
                return Verdict("violation", "the model rejects a recorded update step", s, rep, None, tags)
            mo = rep["ok"]
            good = close_deep(s["out"], mo["factors"], 1e-9) and close(s["step"], unbits(mo["step"]), 1e-9)
            a, ms = s["after"], mo["state"]
            if kind == "adam":
                good = good and a["total_iters"] == ms["total_iters"] and close_deep(a["m"], ms["m"], 1e-9) \
                    and close_deep(a["v"], ms["v"], 1e-9) and close_deep(a["m_prev"], ms["m_prev"], 1e-9) \
                    and close_deep(a["v_prev"], ms["v_prev"], 1e-9)
            if kind == "adagrad":
                good = good and close(a["gnormsum"], unbits(ms["gnormsum"]), 1e-9)
            if not good:
                return Verdict("violation", f"recorded update step {si} of solve #{ri + 1} differs from the model step "
                               "beyond 1e-9", s, rep, None, tags)
        return Verdict("ok", "", shared[-1]["r"] if shared else None, None, None, tags, nontrivial)

    def shrink(self, case):
        if len(case["problems"]) > 1:
            for i in range(len(case["problems"])):
                yield {**case, "problems": case["problems"][:i] + case["problems"][i + 1:]}


# ----------------------------------------------------------------------------
# L-BFGS-B
# ----------------------------------------------------------------------------
def np_full(weights, factors):
    """The array a Kruskal tensor denotes, in plain NumPy."""
    w = np.asarray(weights, dtype=float)
    mats = [np.asarray(A, dtype=float) for A in factors]
    out = np.zeros(tuple(A.shape[0] for A in mats))
    for r in range(len(w)):
        comp = np.array(w[r])
        for A in mats:
            comp = np.multiply.outer(comp, A[:, r])
        out = out + comp
    return out


def np_objective(fh, data_arr, weights, factors):
    """Σ f(x, m) over all entries, recomputed here (not the code's evaluate())."""
    return float(np.sum(fh(data_arr, np_full(weights, factors))))


def np_decode(shapes, rank, x):
    """Factor matrices from a vector: consecutive blocks, each column by column."""
    x = np.asarray(x, dtype=float)
    out, loc = [], 0
    for n in shapes:
        out.append(x[loc: loc + n * rank].reshape((n, rank), order="F").copy())
        loc += n * rank
    return out


def stub_overshoot(func, x0, fprime=None, approx_grad=False, bounds=None, **kw):
    """Contract-respecting stand-in whose LAST EVALUATED point is not the point it returns: a
    back-tracked projected gradient step is accepted, then a far trial point is evaluated and
    rejected (what an abandoned line search does)."""
    lo = np.array([b[0] for b in bounds], dtype=float)
    x0 = np.maximum(lo, np.asarray(x0, dtype=float))
    f0, g = func(x0)
    g = np.array(g, dtype=float)
    best, fbest, t = x0, f0, 1.0
    for _ in range(40):
        x = np.maximum(lo, x0 - t * g)
        f, _ = func(x)
        if np.isfinite(f) and f <= f0:
            best, fbest = x, f
            break
        t /= 2
    far = np.maximum(lo, best - 64.0 * g - 1.0)
    ffar, _ = func(far)                      # rejected; like scipy, hand back ITS value with the kept point
    return best.copy(), ffar, {"warnflag": 2, "task": "stub: abandoned trial", "nit": 1, "funcalls": 3, "grad": g}


def stub_start(func, x0, fprime=None, approx_grad=False, bounds=None, **kw):
    """Contract-respecting stand-in: returns the (projected) start."""
    lo = np.array([b[0] for b in bounds], dtype=float)
    x = np.maximum(lo, np.asarray(x0, dtype=float))
    f, _ = func(x)
    return x, f, {"warnflag": 0, "task": "stub", "nit": 0, "funcalls": 1, "grad": np.zeros_like(x)}


def stub_backtrack(func, x0, fprime=None, approx_grad=False, bounds=None, **kw):
    """Contract-respecting stand-in: one projected gradient step with back-tracking."""
    lo = np.array([b[0] for b in bounds], dtype=float)
    x0 = np.maximum(lo, np.asarray(x0, dtype=float))
    f0, g = func(x0)
    g = np.array(g, dtype=float)
    t = 1.0
    for _ in range(40):
        x = np.maximum(lo, x0 - t * g)
        f, _ = func(x)
        if np.isfinite(f) and f <= f0:
            return x, f, {"warnflag": 0, "task": "stub", "nit": 1, "funcalls": 2, "grad": g}
        t /= 2
    func(x0)
    return x0, f0, {"warnflag": 0, "task": "stub", "nit": 0, "funcalls": 1, "grad": g}


SERVICES = {"real": None, "start": stub_start, "backtrack": stub_backtrack, "overshoot": stub_overshoot}


def _user_cb(xk):  # a user callback handed to the LBFGSB constructor
    return None


OPT_KEYS = ("m", "factr", "pgtol", "epsilon", "iprint", "disp", "maxfun", "maxiter", "callback", "maxls")


def lbfgsb_kwargs(opts):
    """Constructor arguments from the JSON description of the options of a case."""
    kw = {}
    for k, v in opts.items():
        if k == "callback":
            kw[k] = _user_cb if v else None
        elif k in ("factr", "pgtol"):
            kw[k] = float(Fraction(v))
        else:
            kw[k] = v
    return kw


def kwargs_j(opt):
    """The stored options of an LBFGSB object as exact JSON (callback: 1 = the user callback,
    null = none, anything else by name)."""
    out = {}
    for k, v in opt._solver_kwargs.items():
        if k == "callback":
            out[k] = None if v is None else (1 if v is _user_cb else "callable:" + type(v).__qualname__)
        else:
            out[k] = None if v is None else jval(v)
    return out


BIG = [[5, 4, 3], [6, 5], [4, 4, 3], [7, 4]]
SMALL = [[2, 2], [2, 3], [3, 2], [2, 2, 2]]


class Lbfgsb(Family):
    """LBFGSB.solve through gcp_opt and directly: not worse than the start, bounds, wrapper == model,
    and reusability: 1..3 solves on ONE object over problems of equal and different total size
    (big first, small first), with default and explicit options; every solve is compared with the
    same solve on a freshly constructed object, and the object's attributes before and after."""
    name = "lbfgsb"
    theorems = ("C13_lbfgsb_not_worse", "C13_lbfgsb_not_worse_model", "C13_lbfgsb_roundtrip",
                "C13_lbfgsb_returns_service_point", "C13_lbfgsb_final_f", "C13_reusable_lbfgsb")

    def gen(self, rng, tier):
        n = 36 if tier == "quick" else 260
        out = []
        for _ in range(n):
            obj = rng.choice(["gaussian", "gaussian", "poisson", "rayleigh", "gamma", "custom", "poisson_log"])
            lb = rng.choice(["0", "1/4", "-1/2"])

            def prob(shape):
                return {"shape": list(shape), "rank": rng.randint(1, 3), "sparse": False, "objective": obj, "lb": lb,
                        "dseed": rng.randrange(10 ** 6)}
            order = rng.choice(["big-small", "small-big", "big-small-big", "small-big-small", "same", "same-size",
                                "single", "mixed"])
            if order == "single":
                probs = [prob(rng.choice(BIG + SMALL))]
            elif order == "same":
                p0 = prob(rng.choice(BIG + SMALL))
                probs = [p0] + [dict(p0, dseed=rng.randrange(10 ** 6)) for _ in range(rng.randint(1, 2))]
            elif order == "same-size":
                sh = rng.choice(BIG + SMALL)
                probs = [prob(sh), prob(list(reversed(sh)))]
            elif order == "mixed":
                probs = [prob(rng.choice(BIG + SMALL)) for _ in range(rng.randint(2, 3))]
            else:
                probs = [prob(rng.choice(BIG if w == "big" else SMALL)) for w in order.split("-")]
            # options of the object: mostly the defaults (the size-dependent behaviour lives there)
            opts = {}
            r = rng.random()
            if r < 0.45:
                pass
            elif r < 0.6:
                opts["maxiter"] = rng.choice([1, 2, 5, 20, 200])
            else:
                for key, vals in (("maxiter", [3, 50, 1000]), ("pgtol", ["1/1000", "1/100000", "1/10"]),
                                  ("factr", ["10000000", "10", "1000000000000"]), ("m", [3, 10]), ("maxls", [5, 20]),
                                  ("maxfun", [50, 15000]), ("callback", [1])):
                    if rng.random() < 0.35:
                        opts[key] = rng.choice(vals)
            via = rng.choice(["gcp_opt", "solve"])
            if via == "solve" and rng.random() < 0.5:
                # a start whose weights are not all one (direct solve() only: gcp_opt normalises its guess to unit weights);
                # the objective of start and result is recomputed WITH the weights (seed C13w)
                for q in probs:
                    q["weights"] = [rng.choice(["3", "1/4", "2", "1/2", "5/4", "6"]) for _ in range(q["rank"])]
            out.append({"service": rng.choice(["real", "real", "real", "start", "backtrack", "overshoot"]), "opts": opts,
                        "via": via, "order": order, "problems": probs})
        # sweep with the real optimiser: line-search budget x cut-offs x starts (an overshooting start makes a
        # small maxls abandon a line search: the last evaluated point is then not the returned solution)
        k = 0
        for maxls in (1, 2, 20):
            for cut in ({}, {"maxfun": rng.choice([2, 3, 4])}, {"maxfun": rng.choice([6, 9])},
                        {"maxiter": rng.choice([1, 2])}, {"maxiter": rng.choice([4, 7])}):
                for start in ("overshoot", "overshoot2", "regular"):
                    if tier == "quick" and start == "overshoot2" and cut:
                        continue
                    if start == "regular":
                        p = {"shape": rng.sample([2, 3, 4, 5], 3), "rank": rng.randint(1, 3), "sparse": False,
                             "objective": rng.choice(["gaussian", "poisson", "rayleigh", "custom"]),
                             "lb": rng.choice(["0", "1/4", "-1/2"]), "dseed": rng.randrange(10 ** 6)}
                    else:
                        p = {"shape": [4, 3, 5] if start == "overshoot" else rng.sample([3, 4, 5, 6], 3), "rank": 2,
                             "sparse": False, "objective": "gaussian" if start == "overshoot" else "custom",
                             "lb": "0", "dseed": rng.randrange(10 ** 6), "dscale": rng.choice(["20", "20", "50"]),
                             "init": ["1/2", "7/2"]}
                    probs = [p] + ([dict(p, dseed=rng.randrange(10 ** 6))] if k % 3 == 0 else [])
                    out.append({"service": "real", "opts": {"maxls": maxls, **cut}, "via": ["solve", "gcp_opt"][k % 2],
                                "order": "sweep-" + start, "problems": probs})
                    k += 1
        for start_seed in range(3 if tier == "quick" else 12):
            p = {"shape": [4, 3, 5], "rank": 2, "sparse": False, "objective": "gaussian", "lb": "0",
                 "dseed": rng.randrange(10 ** 6), "dscale": "20", "init": ["1/2", "7/2"]}
            out.append({"service": "overshoot", "opts": {}, "via": ["solve", "gcp_opt"][start_seed % 2],
                        "order": "sweep-stub", "problems": [p, dict(p, shape=[3, 2], dseed=rng.randrange(10 ** 6))]})
        return out

    @staticmethod
    def run(case, shared):
        opt = None
        results = []
        opts = case.get("opts")
        if opts is None:  # cases written before the options were part of the case
            opts = {"maxiter": case.get("maxiter", 20), "maxfun": 200}
        for p in case["problems"]:
            if opt is None or not shared:
                opt = O.LBFGSB(**lbfgsb_kwargs(opts))
            rec = {}
            real = O.fmin_l_bfgs_b
            svc = SERVICES[case["service"]] or real

            def wrapped(func, x0, fprime=None, approx_grad=False, bounds=None, rec=rec, svc=svc, **kw):
                # observe only: the objective closure updates the solver's model IN PLACE, so the
                # harness must never call it itself (that would move the model)
                rec["x0"] = np.array(x0, dtype=float).copy()
                rec["bounds"] = list(bounds)
                rec["kw"] = {k: (v if isinstance(v, (int, float)) else type(v).__qualname__) for k, v in kw.items()}
                rec["evals"] = []

                def observed(v, rec=rec):
                    rec["evals"].append(np.array(v, dtype=float).copy())
                    return func(v)
                x, f, d = svc(observed, x0, fprime=fprime, approx_grad=approx_grad, bounds=bounds, **kw)
                rec["x"] = np.array(x, dtype=float).copy()
                rec["f"] = float(f)
                rec["d"] = {k: int(d[k]) for k in ("nit", "funcalls", "warnflag") if k in d}
                rec["task"] = str(d.get("task", ""))
                return x, f, d

            def f(opt=opt, p=p, rec=rec, wrapped=wrapped):
                cfg_before, kw_before = snapshot(opt), kwargs_j(opt)
                with quiet():
                    data, fh, gh, lb, init = real_problem(p)
                    start = init.copy()
                    with patched(O, "fmin_l_bfgs_b", wrapped):
                        if case["via"] == "gcp_opt":
                            obj = (fh, gh, lb) if p["objective"] == "custom" else OBJECTIVES[p["objective"]]
                            res, m0, info = ttb.gcp_opt(data, p["rank"], obj, opt, init=init.copy(), printitn=0)
                            start = m0
                        else:
                            res, info = opt.solve(init.copy(), data, fh, gh, lb)
                    # everything below is recomputed in plain NumPy from weights / factors
                    arr = np.asarray(data.data, dtype=float)
                    shapes = [int(x) for x in data.shape]
                    w0 = tolist(start.weights)
                    f_start = np_objective(fh, arr, w0, start.factor_matrices)
                    f_res = np_objective(fh, arr, res.weights, res.factor_matrices)
                    dec = np_decode(shapes, p["rank"], rec["x"])
                    f_x0 = np_objective(fh, arr, w0, np_decode(shapes, p["rank"], rec["x0"]))
                    f_x = np_objective(fh, arr, w0, dec)
                    last = rec["evals"][-1] if rec["evals"] else rec["x"]
                return {"f_start": f_start, "f_res": f_res, "lb": None if not np.isfinite(lb) else float(lb),
                        "start": {"weights": w0, "factors": [tolist(x) for x in start.factor_matrices]},
                        "res": {"weights": tolist(res.weights), "factors": [tolist(x) for x in res.factor_matrices]},
                        "x0": tolist(rec["x0"]), "x": tolist(rec["x"]), "svc_f_start": f_x0, "svc_f": rec["f"],
                        "svc_f_at_x": f_x, "bounds": [[float(a), float(b)] for a, b in rec["bounds"]],
                        "final_f": float(info["final_f"]), "counts": rec["d"], "svc_kw": rec["kw"], "task": rec["task"],
                        "res_is_decoded_x": all(np.array_equal(a, b) for a, b in zip(res.factor_matrices, dec))
                        and len(dec) == len(res.factor_matrices),
                        "last_eval_differs": not np.array_equal(last, rec["x"]),
                        "last_evals": [tolist(v) for v in rec["evals"][-3:]],
                        "cfg_changed": config_change(cfg_before, snapshot(opt)),
                        "kw_before": kw_before, "kw_after": kwargs_j(opt)}
            results.append(call(f))
        return results

    def evaluate(self, cases):
        shared = [self.run(c, True) for c in cases]
        fresh = [self.run(c, False) for c in cases]
        reqs, index = [], []
        for ci, runs in enumerate(shared):
            for k, r in enumerate(runs):
                if "ok" in r:
                    o = r["ok"]
                    reqs.append({"op": "c13_tovec", "model": jval(o["start"])})
                    index.append((ci, k, "tovec"))
                    reqs.append({"op": "c13_update", "model": jval(o["start"]), "data": jval(o["x"])})
                    index.append((ci, k, "update"))
                    reqs.append({"op": "c13_lbfgsb_inplace", "model": jval(o["start"]), "evals": jval(o["last_evals"]),
                                 "x": jval(o["x"])})
                    index.append((ci, k, "inplace"))
                    kb = o["kw_before"]
                    if all(kb.get(key) is None or isinstance(kb.get(key), (int, str)) for key in OPT_KEYS) and \
                            not (isinstance(kb.get("callback"), str)) and set(kb) == set(OPT_KEYS):
                        reqs.append({"op": "c13_lbfgsb_opts", "opts": kb})
                        index.append((ci, k, "opts"))
        replies = drive(reqs)
        by = {}
        for key, rep in zip(index, replies):
            by[key] = rep
        out = []
        for ci, c in enumerate(cases):
            out.append(self._judge(c, shared[ci], fresh[ci], {k[1:]: v for k, v in by.items() if k[0] == ci}))
        return out

    @staticmethod
    def _same_run(a, b):
        """A solve on a used object against the same solve on a new object: model tensor to 1e-10,
        objective values to 1e-12, iteration / evaluation counts and everything else exactly."""
        if ("ok" in a) != ("ok" in b):
            return "one raises, the other does not"
        if "ok" not in a:
            return ""
        a, b = a["ok"], b["ok"]
        for key in ("counts", "svc_kw", "bounds", "kw_after", "lb"):
            if a[key] != b[key]:
                return f"{key}: {a[key]} on the used object, {b[key]} on a new one"
        for key in ("f_start", "f_res", "final_f", "svc_f"):
            if not close(a[key], b[key], 1e-12):
                return f"{key}: {a[key]} on the used object, {b[key]} on a new one"
        for key in ("x0", "x"):
            if len(a[key]) != len(b[key]) or not all(close(u, v, 1e-10) for u, v in zip(a[key], b[key])):
                return f"{key} differs beyond 1e-10"
        fa = [v for A in a["res"]["factors"] for row in A for v in row]
        fb = [v for A in b["res"]["factors"] for row in A for v in row]
        if len(fa) != len(fb) or not all(close(u, v, 1e-10) for u, v in zip(fa, fb)):
            return "returned model differs beyond 1e-10"
        return ""

    def _judge(self, c, shared, fresh, rep):
        sizes = [gen.numel(p["shape"]) for p in c["problems"]]
        tags = [c["service"], c["via"], f"solves{len(c['problems'])}", "order=" + c.get("order", "legacy"),
                "opts=" + ("default" if not c.get("opts") else "+".join(sorted(c["opts"]))),
                "sizes-differ" if len(set(sizes)) > 1 else "sizes-equal",
                "start-weights-nonunit" if any(p.get("weights") for p in c["problems"]) else "start-weights-unit"] \
            + sorted({p["objective"] for p in c["problems"]})
        for k, r in enumerate(shared):
            if "ok" not in r:
                return Verdict("violation", f"solve #{k + 1} raised: {r.get('exc')}: {r.get('msg')}", r, None, None, tags)
            o = r["ok"]
            if o["last_eval_differs"]:
                tags.append("last-eval-differs")
            if "ABNORMAL" in o["task"]:
                tags.append("abnormal-linesearch")
            # the service call honoured its contract (checked, not assumed)
            lo = [b[0] for b in o["bounds"]]
            feasible_start = all(x >= l for x, l in zip(o["x0"], lo))
            if feasible_start and not (o["svc_f_at_x"] <= o["svc_f_start"] or close(o["svc_f_at_x"], o["svc_f_start"], 1e-12)):
                return Verdict("violation", "optimiser service returned a worse point than the feasible start "
                               "(contract of the service)", r, None, None, tags + ["service-contract"])
            if any(x < l for x, l in zip(o["x"], lo)):
                return Verdict("violation", "optimiser service left the bounds (contract of the service)", r, None, None,
                               tags + ["service-contract"])
            # the property
            if feasible_start and not (o["f_res"] <= o["f_start"] or close(o["f_res"], o["f_start"], 1e-12)):
                return Verdict("violation", f"L-BFGS-B result has objective {o['f_res']} > start {o['f_start']}",
                               r, None, None, tags)
            if o["lb"] is not None and any(v < o["lb"] for A in o["res"]["factors"] for row in A for v in row):
                return Verdict("violation", "L-BFGS-B result violates the lower bound", r, None, None, tags)
            want_lb = -math.inf if o["lb"] is None else o["lb"]
            if any(b[0] != want_lb or b[1] != math.inf for b in o["bounds"]):
                return Verdict("violation", "bounds handed to the optimiser are not (lower_bound, inf)", r, None, None, tags)
            # wrapper == model: x0 = tovec(start), result = update(start, x)
            if not deep_eq(jval(o["x0"]), rep[(k, "tovec")]):
                return Verdict("violation", "start vector is not tovec(initial model) of the model", r, rep[(k, "tovec")],
                               None, tags)
            if not deep_eq(jval(o["res"]), rep[(k, "update")]):
                return Verdict("violation", "returned model is not update(initial model, optimiser answer) of the model",
                               r, rep[(k, "update")], None, tags)
            # ... also with the in-place evaluations replayed (last evaluated point may differ from x)
            if not deep_eq(jval(o["res"]), rep[(k, "inplace")]):
                return Verdict("violation", "returned model differs from the wrapper model run on the recorded "
                               "evaluations and the optimiser's answer", r, rep[(k, "inplace")], None, tags)
            # on the implementation alone: returned model == decode(x the optimiser returned), bitwise
            if not o["res_is_decoded_x"]:
                return Verdict("violation", "returned model is not the optimiser's solution vector decoded "
                               f"(last evaluated point {'differs from' if o['last_eval_differs'] else 'equals'} it; "
                               f"task {o['task']})", r, None, None, tags)
            # reported final objective = objective of the returned model (recomputed here), not worse than the start
            if not close(o["final_f"], o["f_res"], 1e-12):
                return Verdict("violation", f"info['final_f'] = {o['final_f']} is not the objective of the returned model "
                               f"({o['f_res']}; the optimiser reported {o['svc_f']}, task {o['task']})", r, None, None, tags)
            if feasible_start and not (o["final_f"] <= o["f_start"] or close(o["final_f"], o["f_start"], 1e-12)):
                return Verdict("violation", f"info['final_f'] = {o['final_f']} is above the start's objective {o['f_start']}",
                               r, None, None, tags)
            # reusable: the object's configuration is what it was, in every attribute ...
            if o["cfg_changed"]:
                return Verdict("violation", f"solve #{k + 1} changed the configuration of the LBFGSB object it was issued "
                               f"to: {o['cfg_changed']} (options before {o['kw_before']}, after {o['kw_after']})",
                               r, None, None, tags + ["reuse"])
            # ... equal to what the model leaves behind ...
            if (k, "opts") in rep and not deep_eq(o["kw_after"], rep[(k, "opts")]):
                return Verdict("violation", f"solve #{k + 1}: stored options after the solve differ from the model's",
                               o["kw_after"], rep[(k, "opts")], None, tags + ["reuse"])
            # ... and the solve is the solve a new object would have made
            fr = fresh[k] if k < len(fresh) else None
            if fr is not None:
                what = self._same_run(r, fr)
                if what:
                    return Verdict("violation", f"solve #{k + 1} on a used LBFGSB object differs from the same solve on "
                                   f"a new object: {what}", r, fr, None, tags + ["reuse"])
        return Verdict("ok", "", shared[-1] if shared else None, None, None, tags, True)

    def shrink(self, case):
        if len(case["problems"]) > 1:
            for i in range(len(case["problems"])):
                yield {**case, "problems": case["problems"][:i] + case["problems"][i + 1:]}
        if case.get("opts"):
            for key in case["opts"]:
                yield {**case, "opts": {k: v for k, v in case["opts"].items() if k != key}}


# ----------------------------------------------------------------------------
# fg_setup.setup: which data a loss accepts, directly and through gcp_opt
# ----------------------------------------------------------------------------
#: the specification (GCP losses as documented): the data a loss is defined for, whether it needs the additional
#: parameter, the lower bound of its model entries
DOMAIN = {"GAUSSIAN": None, "HUBER": None, "BERNOULLI_ODDS": "binary", "BERNOULLI_LOGIT": "binary",
          "POISSON": "natural", "POISSON_LOG": "natural", "RAYLEIGH": "nonneg", "GAMMA": "nonneg",
          "NEGATIVE_BINOMIAL": "nonneg", "BETA": "nonneg"}
NEEDS_PARAM = ("HUBER", "NEGATIVE_BINOMIAL", "BETA")
LOWER = {"GAUSSIAN": -math.inf, "BERNOULLI_ODDS": 0.0, "BERNOULLI_LOGIT": -math.inf, "POISSON": 0.0,
         "POISSON_LOG": -math.inf, "RAYLEIGH": 0.0, "GAMMA": 0.0, "HUBER": -math.inf, "NEGATIVE_BINOMIAL": 0.0,
         "BETA": 0.0}
DATA_CLASSES = ["binary-mixed", "binary-mixed", "binary-ones", "all-zero", "zero-two", "zero-one-half", "count", "count",
                "count-positive", "int-negative", "positive-small", "positive-small", "positive-large",
                "positive-mixed", "nonneg-zero", "nonneg-zero", "real-negative"]


def admissible(domain, entries):
    """Is the tensor with these entries (ALL entries, stored or not) in the domain of the loss?  Plain
    arithmetic on exact rationals."""
    xs = [Fraction(x) for x in entries]
    if domain is None:
        return True
    if domain == "binary":
        return all(x in (0, 1) for x in xs)
    if domain == "natural":
        return all(x.denominator == 1 and x >= 0 for x in xs)
    return all(x >= 0 for x in xs)


def class_entries(rng, klass, n):
    """n entries (strings of exact rationals) of a data class; the defining feature of the class is forced to
    occur (when n allows it)."""
    def force(xs, *need):
        pos = rng.sample(range(n), min(n, len(need)))
        for k, v in zip(pos, need):
            xs[k] = v
        return xs
    if klass == "binary-mixed":
        return force([rng.choice(["0", "1"]) for _ in range(n)], "0", "1")
    if klass == "binary-ones":
        return ["1"] * n
    if klass == "all-zero":
        return ["0"] * n
    if klass == "zero-two":
        return force([rng.choice(["0", "0", "2"]) for _ in range(n)], "2")
    if klass == "zero-one-half":
        return force([rng.choice(["0", "1", "1/2"]) for _ in range(n)], "1/2")
    if klass == "count":
        return force([rng.choice(["0", "0", "1", "1", "2", "3", "5"]) for _ in range(n)], rng.choice(["2", "3", "7"]), "0")
    if klass == "count-positive":
        return force([rng.choice(["1", "2", "3", "4"]) for _ in range(n)], rng.choice(["2", "5"]))
    if klass == "int-negative":
        return force([rng.choice(["0", "1", "2", "3"]) for _ in range(n)], rng.choice(["-1", "-2"]))
    if klass == "positive-small":       # all in (0, 1], something below 1
        return force([f"{rng.randint(1, 8)}/8" for _ in range(n)], rng.choice(["1/8", "3/8", "7/8"]), "1")
    if klass == "positive-large":       # all above 1
        return [rng.choice(["3/2", "2", "5/2", "3", "17/8"]) for _ in range(n)]
    mixed = [rng.choice(["1/4", "1/2", "1", "3/2", "2", "11/4", "3"]) for _ in range(n)]
    if klass == "positive-mixed":
        return mixed
    if klass == "nonneg-zero":
        return force(mixed, "0", rng.choice(["1/2", "3/2"]))
    if klass == "real-negative":
        return force(mixed, rng.choice(["-1/4", "-3/2", "-1"]))
    raise ValueError(klass)


def setup_data(c):
    """The data object of a gcp_setup case (None | tensor | sptensor) and what `setup` reads of it."""
    if c["rep"] == "none":
        return None, None
    shape = tuple(c["shape"])
    vals = [Fraction(x) for x in c["entries"]]
    if c["rep"] == "dense":
        dt = int if c.get("dtype") == "int" else float
        arr = np.array([dt(v) for v in vals], dtype=dt).reshape(shape, order="F")
        return ttb.tensor(arr, copy=True), {"sparse": False, "vals": [jval(v) for v in vals]}
    cells = gen.all_subs(c["shape"])
    stored = [(cells[k], vals[k]) for k in c["order"] if vals[k] != 0]
    data = gen.mk_sptensor(ttb, c["shape"], [q[0] for q in stored], [float(q[1]) for q in stored])
    return data, {"sparse": True, "vals": [jval(q[1]) for q in stored]}


class GcpSetup(Family):
    """`fg_setup.setup(objective, data, parameter)` directly and through `gcp_opt`: every objective x dense (float
    and integer arrays) / sparse (stored order shuffled) / no data x admissible and inadmissible data classes.  An
    admissible request is answered with the loss's lower bound, an inadmissible one refused; implementation ==
    Lean model (`setupS`) == specification (plain rational arithmetic on ALL entries of the tensor).  In particular a
    dense non-negative tensor with exact zeros MUST be accepted by the four non-negative losses (083ca8e) and a tensor
    with a negative integer MUST be refused by the Poisson losses (18649ab), in both representations."""
    name = "gcp_setup"
    theorems = ("C13_setup_table", "C13_setup_binary_dense", "C13_setup_binary_sparse", "C13_setup_natural_dense",
                "C13_setup_natural_sparse", "C13_setup_nonneg_dense", "C13_setup_nonneg_sparse",
                "C13_setup_nonneg_dense_zero_pinned_counterexample", "C13_setup_natural_negative_pinned_counterexample")

    def gen(self, rng, tier):
        out = []
        objs = list(DOMAIN)
        reps = 2 if tier == "quick" else 14
        k = 0
        for _ in range(reps):
            for obj in objs:
                for klass in sorted(set(DATA_CLASSES)):
                    for rep in ("dense", "sparse"):
                        # every objective x class x representation occurs in every run; shapes, values, the stored
                        # order, the array type and the entry point vary
                        k += 1
                        shape = gen.shape(rng, 1, 3, 4)
                        if gen.numel(shape) < 2 or (rep == "sparse" and rng.random() < 0.7 and gen.numel(shape) < 3):
                            shape = rng.choice([[2, 3], [3, 2, 2], [4], [2, 1, 3], [3, 4]])
                        n = gen.numel(shape)
                        entries = class_entries(rng, klass, n)
                        integral = all(Fraction(x).denominator == 1 for x in entries)
                        order = list(range(n))
                        rng.shuffle(order)
                        c = {"objective": obj, "klass": klass, "rep": rep, "shape": shape, "entries": entries,
                             "order": order if rng.random() < 0.8 else sorted(order),
                             "dtype": "int" if (rep == "dense" and integral and rng.random() < 0.35) else "float",
                             "param": rng.choice([None, "3/2", "2"]) if obj in NEEDS_PARAM else
                             rng.choice([None, None, None, "2"]),
                             "via": "setup"}
                        nnz = sum(1 for x in entries if Fraction(x) != 0)
                        # (gcp_opt on a 1-way tensor raises IndexError inside the estimate / the objective: CP of a
                        # vector is outside what the solvers are written for and outside this family)
                        if k % 3 == 0 and len(shape) >= 2 and (rep == "dense" or 0 < nnz < n):
                            c.update(via="gcp_opt", param=None, rank=rng.randint(1, 2), seed=rng.randrange(10 ** 6),
                                     solver=rng.choice(["sgd", "adam", "adagrad"] + (["lbfgsb"] * 3 if rep == "dense" else [])))
                        out.append(c)
        for obj in objs:     # no data at all: only the parameter decides
            for param in (None, "3/2"):
                out.append({"objective": obj, "klass": "no-data", "rep": "none", "shape": [], "entries": [], "order": [],
                            "dtype": "float", "param": param, "via": "setup"})
        return out

    @staticmethod
    def _run(c):
        with quiet():
            data, _ = setup_data(c)
            before = None if data is None else (lib_sparse_j(data) if isinstance(data, ttb.sptensor)
                                                else jval(np.asarray(data.data).flatten(order="F")))
            param = None if c["param"] is None else float(Fraction(c["param"]))
            if c["via"] == "setup":
                def f():
                    fh, gh, lb = setup(Objectives[c["objective"]], data, param)
                    if not (callable(fh) and callable(gh)):
                        raise AssertionError("setup returned something that is not a pair of callables")
                    return {"lb": jval(float(lb))}
                impl = call(f)
            else:
                r = np.random.RandomState(c["seed"])
                init = [0.3 + r.uniform(size=(s, c["rank"])) for s in c["shape"]]
                if c["solver"] == "lbfgsb":
                    opt = O.LBFGSB(maxiter=2)
                else:
                    opt = CLS[c["solver"]](rate=1e-3, epoch_iters=1, max_iters=1, printitn=0)

                def f():
                    state = np.random.get_state()
                    np.random.seed(c["seed"])
                    try:
                        m, m0, info = ttb.gcp_opt(data, c["rank"], Objectives[c["objective"]], opt, init=init, printitn=0)
                    finally:
                        np.random.set_state(state)
                    fm = [np.asarray(x, dtype=float) for x in m.factor_matrices]
                    return {"finite": bool(all(np.isfinite(x).all() for x in fm)),
                            "min": min(float(x.min()) for x in fm),
                            "shape_ok": [int(x.shape[0]) for x in fm] == list(c["shape"])
                            and all(x.shape[1] == c["rank"] for x in fm)}
                impl = call(f)
            after = None if data is None else (lib_sparse_j(data) if isinstance(data, ttb.sptensor)
                                               else jval(np.asarray(data.data).flatten(order="F")))
        return impl, before == after

    def evaluate(self, cases):
        runs = [self._run(c) for c in cases]
        reqs = []
        for c in cases:
            _, view = setup_data(c) if c["rep"] != "none" else (None, None)
            # gcp_opt cannot hand a parameter over: it calls setup(objective, data)
            reqs.append({"op": "c13_setup", "objective": c["objective"], "data": view,
                         "param": None if c["param"] is None else jval(Fraction(c["param"]))})
        models = drive(reqs)
        return [self._judge(c, impl, same, m) for c, (impl, same), m in zip(cases, runs, models)]

    @staticmethod
    def _judge(c, impl, data_unchanged, m):
        obj = c["objective"]
        dom = DOMAIN[obj]
        tags = [obj, "rep=" + c["rep"], "class=" + c["klass"], "via=" + c["via"], "dtype=" + c["dtype"],
                "param=" + ("given" if c["param"] is not None else "none")]
        data_ok = c["rep"] == "none" or admissible(dom, c["entries"])
        spec_ok = data_ok and (obj not in NEEDS_PARAM or c["param"] is not None)
        tags.append("spec=" + ("answer" if spec_ok else "refuse-data" if not data_ok else "refuse-parameter"))
        impl_ok, model_ok = "ok" in impl, "ok" in m
        if impl.get("reject"):
            tags.append("reject")
        what_data = f"{obj} on {c['rep']} data of class {c['klass']} (entries {c['entries'][:8]}...)"
        if not data_unchanged:
            return Verdict("violation", f"the call changed its data argument: {what_data}", impl, m, None, tags)
        if impl_ok != model_ok:
            return Verdict("violation", f"implementation {'answers' if impl_ok else 'refuses ' + str(impl.get('msg'))}, "
                           f"the model of setup {'answers' if model_ok else 'refuses'}: {what_data}", impl, m,
                           {"admissible": spec_ok}, tags, impl_ok)
        if impl_ok != spec_ok:
            xs = [Fraction(x) for x in c["entries"]]
            if dom == "nonneg" and c["rep"] == "dense" and not impl_ok and data_ok and min(xs) == 0:
                # the defect fixed by 083ca8e: asserted, no longer a listed finding
                what = ("a dense NON-NEGATIVE tensor with an exact zero is refused "
                        f"('{impl.get('msg')}'; its sparse form is accepted): {what_data}")
            elif dom == "natural" and impl_ok and all(x.denominator == 1 for x in xs) and min(xs) < 0:
                # the defect fixed by 18649ab
                what = f"a tensor with a negative entry is accepted as a count tensor: {what_data}"
            elif spec_ok:
                what = f"an admissible request is refused ({impl.get('exc')}: {impl.get('msg')}): {what_data}"
            else:
                what = ("a request outside the domain of the loss is answered: " if not data_ok else
                        "a request without the additional parameter the loss needs is answered: ") + what_data
            return Verdict("violation", what, impl, m, {"admissible": spec_ok}, tags, impl_ok)
        if not impl_ok:
            return Verdict("ok", "", impl, m, None, tags, False)
        o = impl["ok"]
        if c["via"] == "setup":
            if not deep_eq(o["lb"], jval(LOWER[obj])):
                return Verdict("violation", f"setup({obj}) returns the lower bound {o['lb']}, the loss has {LOWER[obj]}",
                               impl, m, None, tags)
            if not deep_eq(o["lb"], m["ok"]):
                return Verdict("violation", f"setup({obj}) returns the lower bound {o['lb']}, the model {m['ok']}",
                               impl, m, None, tags)
        else:
            if not (o["finite"] and o["shape_ok"]):
                return Verdict("violation", f"gcp_opt answered with a model that is not finite / not of the shape and "
                               f"rank asked for: {what_data}", impl, m, None, tags)
            if o["min"] < LOWER[obj]:
                return Verdict("violation", f"gcp_opt({obj}) returned a factor entry {o['min']} below the lower bound "
                               f"{LOWER[obj]}", impl, m, None, tags)
        return Verdict("ok", "", impl, m, None, tags, c["rep"] != "none")

    def shrink(self, case):
        c = case
        if c["via"] == "gcp_opt":
            yield {**c, "via": "setup"}
        if c["rep"] != "none" and len(c["shape"]) > 1:
            n = c["shape"][0]
            if n >= 2:   # keep the first mode only
                yield {**c, "shape": [n], "entries": c["entries"][:n], "order": [k for k in c["order"] if k < n]}


# ----------------------------------------------------------------------------
# gcp_opt: the three ways of giving the starting guess ("random", a list of factor matrices, a ktensor)
# ----------------------------------------------------------------------------
INIT_OBJECTIVES = {"gaussian": "GAUSSIAN", "poisson": "POISSON", "poisson_log": "POISSON_LOG",
                   "bernoulli_odds": "BERNOULLI_ODDS", "bernoulli_logit": "BERNOULLI_LOGIT", "rayleigh": "RAYLEIGH",
                   "gamma": "GAMMA"}
VALID_INITS = ["random", "random", "random", "list", "tuple", "ktensor", "ktensor-weights"]
BAD_INITS = ["wrong-shape-ktensor", "wrong-rank-ktensor", "wrong-order-ktensor", "wrong-shape-list", "wrong-rank-list",
             "ragged-list", "short-list", "other-string", "number", "none", "array"]


def inits_problem(c):
    """Admissible data for the objective of a gcp_opt_inits case (plain NumPy array + pyttb object)."""
    r = np.random.RandomState(c["dseed"])
    shape = tuple(c["shape"])
    obj = c["objective"]
    if obj in ("poisson", "poisson_log"):
        arr = r.poisson(1.5, size=shape).astype(float)
    elif obj in ("bernoulli_odds", "bernoulli_logit"):
        arr = (r.uniform(size=shape) < 0.5).astype(float)
    elif obj in ("rayleigh", "gamma"):
        arr = r.uniform(0.2, 2.0, size=shape)
    else:
        arr = r.normal(size=shape)
    if c["rep"] == "sparse":
        if obj == "gaussian":
            arr = arr * (r.uniform(size=shape) < 0.5)
        arr.flat[0] = 1.0                 # neither empty nor full: the default samplers need both kinds of cells
        arr.flat[arr.size - 1] = 0.0
        return arr, ttb.tensor(arr.copy()).to_sptensor()
    return arr, ttb.tensor(arr.copy())


def make_init(c, kind=None):
    """The `init` argument of a case (a fresh object at every call) and, for the valid kinds, its weights and
    factor matrices as plain arrays."""
    kind = kind or c["init"]
    r = np.random.RandomState(c["iseed"])
    shape, rank = list(c["shape"]), c["rank"]
    F = [0.1 + r.uniform(size=(s, rank)) for s in shape]
    w = np.ones(rank)
    if kind == "random":
        return "random", None
    if kind == "list":
        return [f.copy() for f in F], (w, F)
    if kind == "tuple":
        return tuple(f.copy() for f in F), (w, F)
    if kind == "ktensor":
        return ttb.ktensor([f.copy() for f in F]), (w, F)
    if kind == "ktensor-weights":
        w = np.array([float(Fraction(x)) for x in c["weights"]])
        return ttb.ktensor([f.copy() for f in F], w.copy()), (w, F)
    bigger = [0.1 + r.uniform(size=(s + (1 if k == len(shape) - 1 else 0), rank)) for k, s in enumerate(shape)]
    wider = [0.1 + r.uniform(size=(s, rank + 1)) for s in shape]
    if kind == "wrong-shape-ktensor":
        return ttb.ktensor(bigger), None
    if kind == "wrong-rank-ktensor":
        return ttb.ktensor(wider), None
    if kind == "wrong-order-ktensor":
        return ttb.ktensor([f.copy() for f in F[:-1]]), None
    if kind == "wrong-shape-list":
        return bigger, None
    if kind == "wrong-rank-list":
        return wider, None
    if kind == "ragged-list":
        return [f.copy() for f in F[:-1]] + [wider[-1]], None
    if kind == "short-list":
        return [f.copy() for f in F[:-1]], None
    if kind == "other-string":
        return c.get("string", "rand"), None
    if kind == "number":
        return 3, None
    if kind == "none":
        return None, None
    if kind == "array":
        return F[0].copy(), None
    raise ValueError(kind)


def init_state(init):
    if isinstance(init, ttb.ktensor):
        return ktensor_state(init)
    if isinstance(init, (list, tuple)):
        return [np.array(f, dtype=float).copy() for f in init]
    return []


class RecordingUniform:
    """np.random.uniform, passed through and written down (arguments and what came back)."""

    def __init__(self):
        self.real = np.random.uniform
        self.calls = []

    def __call__(self, low=0.0, high=1.0, size=None):
        out = self.real(low, high, size)
        self.calls.append((low, high, size, np.array(out, dtype=float).copy()))
        return out


class GcpOptInits(Family):
    """gcp_opt with init="random" (seeded), a list / tuple of factor matrices, a ktensor (unit and other weights)
    and ill-formed guesses, for L-BFGS-B and the three stochastic solvers on dense and sparse admissible data of
    several losses.  A well-formed request is answered; the starting model returned has unit weights and denotes
    the tensor the guess denotes (random: the drawn uniform(0,1) factors scaled to the norm of the data); the same
    seed gives the same start and the same result; a list start equals the same start given as a ktensor; the guess
    and the data are left as they were; an ill-formed guess is refused.  Reference: plain NumPy."""
    name = "gcp_opt_inits"
    theorems = ("C13_lbfgsb_not_worse", "C13_lower_bound_solve")

    def gen(self, rng, tier):
        out = []
        n = 40 if tier == "quick" else 260
        combos = [(rep, solver) for rep in ("dense", "sparse") for solver in ("lbfgsb", "sgd", "adam", "adagrad")
                  if not (rep == "sparse" and solver == "lbfgsb")]
        k = 0
        for i in range(n):
            rep, solver = combos[i % len(combos)]
            obj = rng.choice(["gaussian", "gaussian", "poisson", "poisson_log", "bernoulli_odds", "bernoulli_logit"]
                             + (["rayleigh", "gamma"] if rep == "dense" else []))
            shape = rng.sample([2, 3, 4, 5], rng.choice([2, 3])) if rng.random() < 0.8 else \
                rng.choice([[3, 3], [2, 1, 3], [4, 2, 2], [1, 4]])
            if rep == "sparse" and gen.numel(shape) < 4:
                shape = [3, 2]
            rank = rng.randint(1, 3)
            c = {"rep": rep, "solver": solver, "objective": obj, "shape": shape, "rank": rank,
                 "dseed": rng.randrange(10 ** 6), "iseed": rng.randrange(10 ** 6), "seed": rng.randrange(10 ** 6),
                 "seed2": rng.randrange(10 ** 6), "init": VALID_INITS[k % len(VALID_INITS)]}
            k += 1
            if c["init"] == "ktensor-weights":
                c["weights"] = gen_weights(rng, rank, 0.0)
                if obj not in ("gaussian", "poisson_log", "bernoulli_logit") or "0" in c["weights"]:
                    # a guess is rescaled to unit weights: keep it inside the bound of the loss, and non-degenerate
                    c["weights"] = [str(abs(Fraction(x)) or Fraction(3, 2)) for x in c["weights"]]
            out.append(c)
        # ill-formed guesses (and the one ill-formed pairing of data and optimiser), every kind in every run
        for j, bad in enumerate(BAD_INITS * (1 if tier == "quick" else 4)):
            rep, solver = combos[j % len(combos)]
            shape = rng.sample([2, 3, 4], rng.choice([2, 3]))
            if rep == "sparse" and gen.numel(shape) < 4:
                shape = [3, 2]
            out.append({"rep": rep, "solver": solver, "objective": "gaussian", "shape": shape, "rank": rng.randint(1, 2),
                        "dseed": rng.randrange(10 ** 6), "iseed": rng.randrange(10 ** 6), "seed": rng.randrange(10 ** 6),
                        "seed2": 0, "init": bad, "string": rng.choice(["rand", "Random", "nvecs", "", "random "])})
        for init in ("random", "list", "ktensor"):
            out.append({"rep": "sparse", "solver": "lbfgsb", "objective": "gaussian", "shape": [3, 2, 2], "rank": 2,
                        "dseed": rng.randrange(10 ** 6), "iseed": rng.randrange(10 ** 6), "seed": rng.randrange(10 ** 6),
                        "seed2": 0, "init": init, "bad_pairing": True})
        return out

    @staticmethod
    def _one(c, init, seed):
        """One gcp_opt call on fresh data / optimiser objects under a seed; everything recomputed in NumPy."""
        arr, data = inits_problem(c)
        if c["solver"] == "lbfgsb":
            opt = O.LBFGSB(maxiter=3)
        else:
            opt = CLS[c["solver"]](rate=1e-3, epoch_iters=2, max_iters=2, printitn=0)
        rec = RecordingUniform()
        before = init_state(init)
        state = np.random.get_state()
        np.random.seed(seed)
        try:
            with patched(np.random, "uniform", rec), lib.unit_spellings(rec), quiet():
                m, m0, info = ttb.gcp_opt(data, c["rank"], Objectives[INIT_OBJECTIVES[c["objective"]]], opt, init=init,
                                          printitn=0)
        finally:
            np.random.set_state(state)
        now = np.asarray(data.full().data if isinstance(data, ttb.sptensor) else data.data, dtype=float)
        return {"m0": ktensor_state(m0), "m": ktensor_state(m), "draws": rec.calls, "arr": arr,
                "data_changed": not np.array_equal(now, arr),
                "init_changed": not same_state(before, init_state(init)),
                "aliased": isinstance(init, ttb.ktensor) and (m0 is init or any(
                    a is b for a in m0.factor_matrices for b in init.factor_matrices)),
                "final": float(info["final_f"]) if "final_f" in info else None}

    def _run(self, c):
        kind = c["init"]
        if kind in BAD_INITS or c.get("bad_pairing"):
            init, _ = make_init(c)
            return {"main": call(self._one, c, init, c["seed"])}
        runs = {}
        init, parts = make_init(c)
        runs["main"] = call(self._one, c, init, c["seed"])
        if "ok" not in runs["main"]:
            return runs
        runs["again"] = call(self._one, c, make_init(c)[0], c["seed"])
        if kind == "random":
            runs["other"] = call(self._one, c, "random", c["seed2"])
        elif kind in ("list", "tuple"):
            runs["twin"] = call(self._one, c, make_init(c, "ktensor")[0], c["seed"])
        elif kind == "ktensor":
            runs["twin"] = call(self._one, c, make_init(c, "list")[0], c["seed"])
        runs["parts"] = parts
        return runs

    def evaluate(self, cases):
        return [self._judge(c, self._run(c)) for c in cases]

    @staticmethod
    def _judge(c, runs):
        kind, obj = c["init"], c["objective"]
        tags = ["init=" + kind, "rep=" + c["rep"], "solver=" + c["solver"], obj, f"N{len(c['shape'])}", f"R{c['rank']}"]
        main = runs["main"]
        if kind in BAD_INITS or c.get("bad_pairing"):
            tags.append("ill-formed")
            if "ok" in main:
                return Verdict("violation", f"gcp_opt answered an ill-formed request (init: {kind}"
                               f"{', sparse data with L-BFGS-B' if c.get('bad_pairing') else ''})", None, None, None, tags)
            return Verdict("ok", "", main, None, None, tags + ["reject"], False)
        if "ok" not in main:
            return Verdict("violation", f"gcp_opt(init={kind}) on admissible {c['rep']} {obj} data with {c['solver']} raised "
                           f"{main.get('exc')}: {main.get('msg')}", main, None, None, tags)
        o = main["ok"]
        shape, rank = list(c["shape"]), c["rank"]
        arr = o["arr"]
        w0, F0 = o["m0"][0], o["m0"][1:]
        w1, F1 = o["m"][0], o["m"][1:]
        fh, _gh, lb = setup(Objectives[INIT_OBJECTIVES[obj]], None)

        def bad(what):
            return Verdict("violation", f"gcp_opt(init={kind}, {c['solver']}, {c['rep']} {obj}): {what}",
                           {"m0_weights": tolist(w0), "m0": [tolist(x) for x in F0]}, None, None, tags)
        # the starting model handed back
        if [int(f.shape[0]) for f in F0] != shape or any(f.shape[1] != rank for f in F0) or len(w0) != rank:
            return bad(f"the starting model has shape {[f.shape for f in F0]}, asked for {shape} with {rank} components")
        if not all(np.isfinite(f).all() for f in F0) or not np.isfinite(w0).all():
            return bad("the starting model is not finite")
        if not np.array_equal(w0, np.ones(rank)):
            return bad(f"the starting model has weights {tolist(w0)} (the solvers work on unit weights)")
        full0 = np_full(w0, F0)
        scale = max(1.0, float(np.abs(full0).max()))
        if kind == "random":
            d = o["draws"][: len(shape)]
            if len(d) < len(shape):
                return bad(f"{len(d)} uniform draws for a {len(shape)}-way guess")
            for n_, (low, high, size, _out) in enumerate(d):
                if (low, high) != (0, 1) or tuple(np.atleast_1d(size).tolist()) != (shape[n_], rank):
                    return bad(f"factor {n_} of the random guess drawn as uniform({low}, {high}, {size}); "
                               f"uniform(0, 1, ({shape[n_]}, {rank})) expected")
            U = [x[3] for x in d]
            fullU = np_full(np.ones(rank), U)
            nx, nu = float(np.sqrt(np.sum(arr ** 2))), float(np.sqrt(np.sum(fullU ** 2)))
            ref = fullU * (nx / nu)
            if not np.allclose(full0, ref, rtol=1e-9, atol=1e-12 * scale):
                return bad("the random starting model is not the drawn uniform(0,1) factors scaled to the norm of the data")
            if any((f < 0).any() for f in F0):
                return bad("the random starting model has negative factor entries")
        else:
            w, F = runs["parts"]
            if not np.allclose(full0, np_full(w, F), rtol=1e-9, atol=1e-12 * scale):
                return bad("the starting model does not denote the tensor the guess denotes")
        if o["init_changed"]:
            return bad("the guess handed in was modified")
        if o["aliased"]:
            return bad("the starting model handed back shares its arrays with the guess handed in")
        if o["data_changed"]:
            return bad("the data tensor was modified")
        # the result
        if [int(f.shape[0]) for f in F1] != shape or any(f.shape[1] != rank for f in F1):
            return bad("the result has another shape / rank than asked for")
        if not all(np.isfinite(f).all() for f in F1):
            return bad("the result is not finite")
        if np.isfinite(lb) and any((f < lb).any() for f in F1):
            return bad(f"a factor entry of the result is below the lower bound {lb}")
        feasible = not np.isfinite(lb) or all((f >= lb).all() for f in F0)
        if c["solver"] == "lbfgsb" and feasible:
            f0, f1 = np_objective(fh, arr, w0, F0), np_objective(fh, arr, w1, F1)
            if not (f1 <= f0 or close(f1, f0, 1e-12)):
                return bad(f"L-BFGS-B result has objective {f1} > start {f0}")
            if o["final"] is not None and not close(o["final"], f1, 1e-10):
                return bad(f"final_f = {o['final']} is not the objective of the result ({f1})")
        # same request, same seed: same start, same result
        for other, label in (("again", "the same request under the same seed"),
                             ("twin", "the same guess given as a " + ("ktensor" if kind != "ktensor" else "list"))):
            if other not in runs:
                continue
            r2 = runs[other]
            if "ok" not in r2:
                return bad(f"{label} raised {r2.get('exc')}: {r2.get('msg')}")
            if not same_state(o["m0"], r2["ok"]["m0"]):
                return bad(f"{label} starts from another model")
            if not same_state(o["m"], r2["ok"]["m"]):
                return bad(f"{label} gives another result")
        if kind == "random":
            r3 = runs["other"]
            if "ok" not in r3:
                return bad(f"the same request under another seed raised {r3.get('exc')}: {r3.get('msg')}")
            tags.append("other-seed-other-start" if not same_state(o["m0"], r3["ok"]["m0"]) else "other-seed-same-start")
        if not feasible:
            tags.append("start-below-bound")
        return Verdict("ok", "", {"m0_weights": tolist(w0)}, None, None, tags, True)

    def shrink(self, case):
        c = case
        if c["rank"] > 1:
            yield {**c, "rank": 1, **({"weights": c["weights"][:1]} if c.get("weights") else {})}
        if len(c["shape"]) > 2:
            yield {**c, "shape": c["shape"][:2]}


def families():
    return [Samplers(), Plans(), SolverScripted(), SolverReal(), Lbfgsb(), GcpSetup(), GcpOptInits()]
