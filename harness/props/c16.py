"""C16 — export followed by import reproduces the object exactly: correspondence families.

Every case really writes a file with pyttb.export_data (or by hand, from the model's
`encodeBase`, for the index-base and malformed-file families) under /verif/.work/c16.<pid>/,
tokenises the real file, compares it line by line with the Lean model's `encode`, imports
it with pyttb.import_data, compares the imported object bit for bit with the exported one
(the property on the implementation) and with the model's `decode` of the real file's tokens.
Values cross the pipe as decimal strings of their 64-bit patterns.
"""
from __future__ import annotations

import logging
import math
import os
import re
import shutil
import struct
import warnings

import numpy as np
import pyttb as ttb
from pyttb.export_data import export_data
from pyttb.import_data import import_data

from harness import gen
from harness.lib import WORK, Family, Verdict, call, drive

RULE = ("cases are drawn from random.Random(VERIF_SEED): dense tensors, sparse tensors (empty / one / some / all "
        "cells stored; sorted, reversed, shuffled stored order; a quarter with extents and subscripts between 2**53 and "
        "2**62), dense tensors whose .data buffer is F-contiguous, C-ordered (grown by assignment beyond the extent "
        "with scalar / subscript / slice keys, or .data set) or a strided view, Kruskal tensors (rank 1..4, non-square factors) and "
        "matrices of order 1..4 (5 in thorough) with extents 1..4 incl. singleton modes; values are doubles sampled "
        "over the whole exponent range (random bit patterns with uniformly drawn exponent field, subnormals, "
        "neighbours of powers of two and of ten from 1e-323 to 1e308, DBL_MIN/DBL_MAX, 17-significant-digit worst "
        "cases, both signs, +0.0 and -0.0); index bases 0, 1, 2 (and a few others) on hand-written files; a "
        "separate stream of malformed files (unknown header, size line of the wrong length, truncated data, ...). "
        "Family digits: every binade boundary 2^k, 2^k -+ 1 ulp for -1074 <= k <= 1023 (quick: a random eighth), the "
        "extremes, worst cases and sampled values, both signs, zeros, 48 per real file, alternately dense and sparse; "
        "for each value also the neighbouring decimals / doubles and the 16-digit token, so that the model's decisions "
        "come out both ways. "
        "A case is non-trivial when the implementation accepts the file and the object holds at least one value; "
        "distinct = distinct case hash")
ASSUMPTIONS = [
    "parse(fmt v) = v for '%.16e' (17 significant digits, written by ndarray.tofile and read back by "
    "np.fromfile(sep=' ') / NumPy's str -> float64 item assignment) is no longer a bare assumption: C16_digits_roundtrip / "
    "C16_digits_discharges_hypothesis prove it for every finite double (normal, subnormal, both zeros) from two "
    "contracts of libc/NumPy - (1) the printed token is a nearest 17-digit decimal of the value, (2) the value read "
    "is a nearest finite double of the token (ties in any way).  These two contracts are what remains outside the "
    "Lean theorems; family 'digits' checks both exactly (Fraction arithmetic, and the model's proved-sound decision "
    "procedures) on every binade boundary 2^k, 2^k -+ 1 ulp, -1074 <= k <= 1023, and on sampled values; the "
    "composition parse(fmt v) = v is still checked on every value token of every exported file",
    "str(int) / '%d' and int() / np.int64() are mutually inverse on the integers that occur (checked token by token "
    "against the model's integer tokens)",
    "every line of an exported file is its tokens joined by single blanks (checked on every exported file), so "
    "that the file can be seen as a list of lines of tokens",
]
TRUSTED_EXTRA = ["the tokeniser of harness/props/c16.py (str.split, int(), float()) that turns the real file into "
                 "the model's tokens"]
EXHAUSTIVE = {"quick": False, "thorough": False}

_INT = re.compile(r"^[+-]?[0-9]+$")


# ----------------------------------------------------------------------------
# doubles <-> bit patterns
# ----------------------------------------------------------------------------
def bits(x) -> str:
    return str(struct.unpack("<Q", struct.pack("<d", float(x)))[0])


def unbits(b) -> float:
    return struct.unpack("<d", struct.pack("<Q", int(b)))[0]


_WORST = [
    5e-324, 2.2250738585072011e-308, 2.2250738585072014e-308, 1.7976931348623157e308, 4.9406564584124654e-324,
    9007199254740993.0, 9007199254740991.0, 0.1, 0.2, 0.1 + 0.2, 1.0000000000000002, 0.9999999999999999,
    4.35, 0.285, 1.005, 2.675, 8.41e21, 9.5367431640625e-07, 5.0000000000000009e-01, 1.2345678901234567e+89,
    8.9884656743115795e+307, 1.7976931348623155e+308, 3.0000000000000004e-308, 6.9294956446009195e+15,
    1.4916681462400413e-154, 1.3407807929942597e+154, 7.2057594037927933e+16, 1e23, 8.533e+68, 3.5844466002796428e+298,
    2.4703282292062327e-324, 1.00000000000000011102230246251565404236316680908203125,
    1.00000000000000033306690738754696212708950042724609375, 123456789012345678.0, math.pi, math.e, 1 / 3,
]


def value(rng, allow_zero=True) -> float:
    """One finite double; the classes cover the whole exponent range."""
    k = rng.randrange(12)
    if k == 0:
        x = float(rng.randint(-9, 9)) + rng.choice([0.0, 0.5, 0.25, 0.1])
    elif k in (1, 2, 3):  # random bit pattern, exponent field uniform over all finite binades (0 = subnormal)
        e = rng.randrange(0, 2047)
        x = unbits((rng.getrandbits(1) << 63) | (e << 52) | rng.getrandbits(52))
    elif k == 4:  # subnormals
        x = unbits(rng.choice([1, 2, 3, (1 << 52) - 1, rng.getrandbits(52) | 1, rng.getrandbits(rng.randint(1, 52)) | 1]))
    elif k == 5:  # powers of ten and their neighbours
        p = float(f"1e{rng.randint(-323, 308)}")
        x = rng.choice([p, np.nextafter(p, math.inf), np.nextafter(p, 0.0)])
    elif k == 6:  # powers of two and their neighbours
        p = math.ldexp(1.0, rng.randint(-1074, 1023))
        x = rng.choice([p, np.nextafter(p, math.inf), np.nextafter(p, 0.0)])
    elif k == 7:  # 1e+-300 region, extremes
        x = rng.choice([1e300, 1e-300, 3.7e305, 2.9e-305, 1.7976931348623157e308, 2.2250738585072014e-308,
                        np.nextafter(1.7976931348623157e308, 0.0), np.nextafter(2.2250738585072014e-308, 0.0),
                        np.nextafter(2.2250738585072014e-308, 1.0), rng.uniform(1, 10) * 10.0 ** rng.randint(295, 307),
                        rng.uniform(1, 10) * 10.0 ** rng.randint(-307, -295)])
    elif k == 8:
        x = rng.choice(_WORST)
    elif k == 9:  # 17 significant digits typed in decimal
        x = float("%d.%016de%+d" % (rng.randint(1, 9), rng.getrandbits(53) % 10 ** 16, rng.randint(-307, 307)))
    elif k == 10:
        x = rng.choice([0.0, -0.0]) if allow_zero else rng.choice([1.0, -1.0])
    else:
        x = rng.uniform(-1, 1)
    x = float(x)
    if rng.random() < 0.35:
        x = -x
    if not math.isfinite(x):
        x = 1.7976931348623157e308
    if x == 0.0 and not allow_zero:
        x = 5e-324 if rng.random() < 0.5 else -1.5
    return x


def values(rng, n, allow_zero=True):
    return [bits(value(rng, allow_zero)) for _ in range(n)]


# ----------------------------------------------------------------------------
# objects: JSON form (as sent to the model), real pyttb objects, canonical form
# ----------------------------------------------------------------------------
DENSE_ROUTES = ("grow_scalar", "grow_subs", "grow_slice", "attr_C", "attr_view")


def build_dense(o):
    """A dense tensor with the given shape and (F-order) values, reached through the route named in the
    case.  The logical content is always the same; what differs is the memory layout of `.data`:
      ctor        ttb.tensor(array)                       -> F-contiguous buffer
      grow_*      a smaller tensor grown by assignment beyond its extent (scalar key / subscript-array
                  key / slice key): the setters allocate a C-ordered buffer; the remaining values are
                  then written in place through subscript assignment
      attr_C      the public attribute `.data` set to a C-ordered array
      attr_view   `.data` set to a strided view (neither C- nor F-contiguous)
    export_data must write the same file for all of them."""
    s = tuple(o["shape"])
    vals = np.array([unbits(b) for b in o["data"]], dtype=float)
    full = vals.reshape(s, order="F")
    route = o.get("route", "ctor")
    if route.startswith("grow"):
        s0 = [min(a, b) for a, b in zip(o.get("from", s), s)]
        if tuple(s0) == s:  # (after shrinking) make the start strictly smaller somewhere
            big = [j for j, k in enumerate(s0) if k > 1]
            if big:
                s0[big[-1]] -= 1
            else:
                route = "ctor"
        if len(s) == 1 and route != "ctor":
            route = "grow_subs"  # a 1-way tensor can only be grown with a subscript-array key
    if route == "ctor":
        return ttb.tensor(full, copy=True)
    if route.startswith("grow"):
        T = ttb.tensor(np.asfortranarray(full[tuple(slice(0, k) for k in s0)]), copy=True)
        corner = tuple(k - 1 for k in s)
        if route == "grow_scalar":
            T[corner] = full[corner]
        elif route == "grow_subs":
            T[np.array([corner])] = full[corner]
        else:
            T[tuple(slice(0, k) for k in s)] = full
        T[np.array(gen.all_subs(list(s)))] = vals  # inside the extents now: written in place
        return T
    T = ttb.tensor(full, copy=True)
    if route == "attr_C":
        T.data = np.ascontiguousarray(full)
    elif route == "attr_view":
        big = np.zeros((2 * s[0],) + s[1:], order="F")
        big[::2] = full
        T.data = big[::2]
    else:
        raise ValueError(route)
    return T


def contiguity(x):
    f = x.data.flags
    return "data=" + (("F" if f["F_CONTIGUOUS"] else "") + ("C" if f["C_CONTIGUOUS"] else "") or "neither")


def build(o):
    """JSON object -> real object handed to export_data."""
    t = o["t"]
    if t == "dense":
        return build_dense(o)
    if t == "sparse":
        return gen.mk_sptensor(ttb, o["shape"], o["subs"], [unbits(b) for b in o["vals"]])
    if t == "ktensor":
        fs = [np.array([unbits(b) for b in F["data"]], dtype=float).reshape(tuple(F["shape"]), order="C")
              for F in o["factors"]]
        return ttb.ktensor(fs, np.array([unbits(b) for b in o["weights"]], dtype=float))
    if t == "matrix":
        a = np.array([unbits(b) for b in o["data"]], dtype=float).reshape(tuple(o["shape"]), order="C")
        if o.get("layout") == "F":
            a = np.asfortranarray(a)
        return a
    raise ValueError(t)


def _vb(a, order):
    a = np.asarray(a)
    if a.dtype != np.float64:
        return ["dtype:" + str(a.dtype)]
    return [bits(x) for x in a.flatten(order=order)]


def canon(x):
    """real object -> JSON form with bit patterns (type, shape, values, order of nonzeros)."""
    if isinstance(x, ttb.tensor):
        return {"t": "dense", "shape": [int(s) for s in x.shape], "data": _vb(x.data, "F")}
    if isinstance(x, ttb.sptensor):
        subs = np.asarray(x.subs)
        if subs.size and not np.issubdtype(subs.dtype, np.integer):
            return {"t": "sparse", "shape": "subs dtype " + str(subs.dtype)}
        return {"t": "sparse", "shape": [int(s) for s in x.shape],
                "subs": [] if subs.size == 0 else [[int(i) for i in r] for r in subs],
                "vals": [] if np.asarray(x.vals).size == 0 else _vb(np.asarray(x.vals).reshape(-1), "C")}
    if isinstance(x, ttb.ktensor):
        return {"t": "ktensor", "weights": _vb(x.weights, "C"),
                "factors": [{"shape": [int(s) for s in F.shape], "data": _vb(F, "C")} for F in x.factor_matrices]}
    if isinstance(x, np.ndarray):
        return {"t": "matrix", "shape": [int(s) for s in x.shape], "data": _vb(x, "C")}
    return {"t": "unknown:" + type(x).__name__}


def strip_layout(o):
    """drop what only says how the real object is built (memory layout, construction route)"""
    return {k: v for k, v in o.items() if k not in ("layout", "route", "from")}


def nvalues(o):
    if o["t"] == "ktensor":
        return len(o["weights"]) + sum(len(F["data"]) for F in o["factors"])
    return len(o.get("data", o.get("vals", [])))


def model_obj_eq(impl, model):
    """implementation object (bit patterns) == model object ({"int": n} stands for float(n))."""
    if isinstance(model, dict) and set(model) == {"int"}:
        return isinstance(impl, str) and impl == bits(float(model["int"]))
    if isinstance(impl, dict) and isinstance(model, dict):
        return impl.keys() == model.keys() and all(model_obj_eq(impl[k], model[k]) for k in impl)
    if isinstance(impl, list) and isinstance(model, list):
        return len(impl) == len(model) and all(model_obj_eq(a, b) for a, b in zip(impl, model))
    return impl == model


# ----------------------------------------------------------------------------
# files
# ----------------------------------------------------------------------------
class Workdir:
    def __enter__(self):
        WORK.mkdir(exist_ok=True)
        self.d = WORK / f"c16.{os.getpid()}"
        self.d.mkdir(exist_ok=True)
        self.n = 0
        return self

    def path(self):
        self.n += 1
        return str(self.d / f"f{self.n}.tns")

    def __exit__(self, *a):
        shutil.rmtree(self.d, ignore_errors=True)


def read_lines(path):
    """-> (lines of text tokens, tidy?) ; tidy = every line is its tokens joined by single blanks
    and the file ends with a line end."""
    with open(path, "r", newline="") as fp:
        text = fp.read()
    tidy = text.endswith("\n") and "\r" not in text and "\t" not in text
    rows = text.split("\n")
    if rows and rows[-1] == "":
        rows.pop()
    out = []
    for r in rows:
        toks = r.split()
        if r != " ".join(toks):
            tidy = False
        out.append(toks)
    return out, tidy


def lex(tok):
    """text token -> model token.  The numeric reading is done here by the real parsers."""
    if _INT.match(tok):
        return "i:" + str(int(tok))
    try:
        return "v:" + bits(float(tok))
    except ValueError:
        return "w:" + tok


def render(mtok):
    """model token -> text as export_data would print it."""
    k, body = mtok[:2], mtok[2:]
    if k == "v:":
        return "%.16e" % unbits(body)
    return body


def write_lines(path, lines):
    with open(path, "w") as fp:
        for ln in lines:
            fp.write(" ".join(ln) + "\n")


def compare_file(real, model):
    """real text lines vs the model's token lines.  -> (problem or None, is_property_violation, #values checked)"""
    checked = 0
    if len(real) != len(model):
        return f"file has {len(real)} lines, model {len(model)}", False, checked
    for n, (rl, ml) in enumerate(zip(real, model)):
        if len(rl) != len(ml):
            return f"line {n + 1}: {len(rl)} tokens, model {len(ml)}", False, checked
        for rt, mt in zip(rl, ml):
            k, body = mt[:2], mt[2:]
            if k == "v:":
                try:
                    ok = bits(float(rt)) == body
                    arr = np.fromstring(rt, dtype=float, sep=" ")
                    ok = ok and arr.shape == (1,) and bits(arr[0]) == body
                except ValueError:
                    ok = False
                if not ok:
                    return (f"line {n + 1}: value token {rt!r} does not read back as the double written "
                            f"({unbits(body)!r}, bits {body})"), True, checked
                checked += 1
            elif k == "i:":
                if rt != body:
                    subs_line = len(ml) > 1 and ml[-1].startswith("v:") and ml[0].startswith("i:")
                    return f"line {n + 1}: integer token {rt!r}, expected {body}", subs_line, checked
            elif rt != body:
                return f"line {n + 1}: token {rt!r}, expected {body!r}", False, checked
    return None, False, checked


def do_import(path, base=None):
    def f():
        with warnings.catch_warnings():
            warnings.simplefilter("ignore")  # np.fromfile's "could not be read to its end" on malformed files
            y = import_data(path) if base is None else import_data(path, index_base=base)
        return canon(y)
    logging.disable(logging.WARNING)  # "Selected no copy, but input factor matrices aren't F ordered"
    try:
        return call(f)
    finally:
        logging.disable(logging.NOTSET)


# ----------------------------------------------------------------------------
# round trip families
# ----------------------------------------------------------------------------
class RoundTrip(Family):
    """export_data -> real file -> import_data, for one kind of object."""
    kind = ""

    def obj(self, rng, tier):
        raise NotImplementedError

    def count(self, tier):
        return 120 if tier == "quick" else 1500

    def gen(self, rng, tier):
        return [{"obj": self.obj(rng, tier)} for _ in range(self.count(tier))]

    def tags(self, o):
        return []

    def evaluate(self, cases):
        out = []
        with Workdir() as wd:
            real, tidy, imps, built, extra = [], [], [], [], []
            reqs = []
            for c in cases:
                o = c["obj"]
                p = wd.path()
                x = build(o)
                built.append(canon(x))
                extra.append([contiguity(x), "route=" + o.get("route", "ctor")] if isinstance(x, ttb.tensor) else [])
                export_data(x, p)
                lines, td = read_lines(p)
                real.append(lines)
                tidy.append(td)
                imps.append(do_import(p))
                reqs.append({"op": "c16.encode", "obj": strip_layout(o), "base": 1})
                reqs.append({"op": "c16.decode", "file": [[lex(t) for t in ln] for ln in lines], "base": 1})
            replies = drive(reqs)
            for i, c in enumerate(cases):
                o = strip_layout(c["obj"])
                enc, dec = replies[2 * i], replies[2 * i + 1]
                imp = imps[i]
                nv = nvalues(o)
                tags = [o["t"], f"N{len(o.get('shape', o.get('factors', [])))}", f"values={min(nv, 8) if nv < 8 else '8+'}"]
                tags += self.tags(c["obj"]) + extra[i]
                if built[i] != o:
                    raise RuntimeError(f"harness: constructed object differs from the case: {built[i]} vs {o}")
                if not enc["wf"]:
                    raise RuntimeError(f"harness: generated an object outside the theorem's precondition: {o}")
                # 1. the property on the implementation: import(export(x)) == x, bit for bit
                if "ok" not in imp:
                    out.append(Verdict("violation", f"import_data rejects the file export_data wrote: {imp.get('exc')}: {imp.get('msg')}",
                                       imp, {"ok": o}, {"ok": o}, tags))
                    continue
                if imp["ok"] != o:
                    out.append(Verdict("violation", "import_data(export_data(x)) differs from x (type, shape, values bit for bit, "
                                       "subscripts, stored order)", imp, {"ok": o}, {"ok": o}, tags))
                    continue
                # 2. the file against the model's encode (premise parse(fmt v) = v on every value token)
                prob, is_prop, checked = compare_file(real[i], enc["file"])
                # one tag per value token whose text read back bit for bit: the distribution report then
                # shows the total number of values on which the premise parse(fmt v) = v was checked
                tags += ["value_tokens_read_back_bit_for_bit"] * checked
                if prob is None and not tidy[i]:
                    prob, is_prop = "a line of the exported file is not its tokens joined by single blanks", False
                if prob is not None:
                    out.append(Verdict("violation" if is_prop else "corr", "exported file vs model encode: " + prob,
                                       {"file": real[i]}, {"file": enc["file"]}, None, tags))
                    continue
                # 3. the imported object against the model's decode of the real file
                if "ok" not in dec or not model_obj_eq(imp["ok"], dec["ok"]):
                    out.append(Verdict("corr", "import_data differs from the model's decode of the same file", imp, dec, {"ok": o}, tags))
                    continue
                out.append(Verdict("ok", "", imp, dec, {"ok": o}, tags, nontrivial=nv > 0))
        return out

    def shrink(self, case):
        for o in shrink_obj(case["obj"]):
            yield {"obj": o}


def _shape(rng, tier, nmin=1):
    return gen.shape(rng, nmin, 5 if tier == "thorough" else 4, 4, distinct=rng.random() < 0.6)


class Dense(RoundTrip):
    name = "dense"
    theorems = ("C16_roundtrip_dense",)

    def obj(self, rng, tier):
        s = _shape(rng, tier)
        if rng.random() < 0.5:  # at least two non-singleton modes, so that the memory orders differ
            s = _shape(rng, tier, 2)
            for j in rng.sample(range(len(s)), 2):
                s[j] = max(s[j], rng.randint(2, 4))
        o = {"t": "dense", "shape": s, "data": values(rng, gen.numel(s))}
        if rng.random() < 0.5 and max(s) > 1:
            o["route"] = rng.choice(DENSE_ROUTES)
            if o["route"].startswith("grow"):
                s0 = [rng.randint(1, k) for k in s]
                if s0 == s:
                    j = rng.choice([j for j, k in enumerate(s) if k > 1])
                    s0[j] = rng.randint(1, s[j] - 1)
                o["from"] = s0
        return o


class Sparse(RoundTrip):
    name = "sparse"
    theorems = ("C16_roundtrip_sparse", "C16_one_based")

    def obj(self, rng, tier):
        if rng.random() < 0.25:
            return self.huge(rng)
        s = _shape(rng, tier)
        order = rng.choice(["sorted", "reversed", "shuffled", "shuffled"])
        klass = rng.choice(["empty", "one", "one", "all"] + ["some"] * 6)
        subs, _ = gen.sparse_entries(rng, s, klass=klass, order=order)
        o = {"t": "sparse", "shape": s, "subs": subs, "vals": values(rng, len(subs), allow_zero=False)}
        # explicitly STORED zeros of either sign are legal stored values (the constructor keeps them) and must come
        # back bit for bit like every other double (seed C16y wrote whole numbers with "%d": -0.0 came back +0.0)
        if subs and rng.random() < 0.4:
            for i in rng.sample(range(len(subs)), rng.randint(1, min(3, len(subs)))):
                o["vals"][i] = bits(rng.choice([-0.0, -0.0, 0.0]))
        return o

    @staticmethod
    def huge(rng):
        """Extents and subscripts beyond 2**53 (not exactly representable as doubles), below 2**62 so that
        subscript + index base stays inside int64.  Only the coordinate lists exist: nothing here (and
        nothing in export/import) allocates memory in proportion to the extents."""
        def extent():
            k = rng.randrange(6)
            if k == 0:
                return 2 ** 53 + rng.randint(1, 9)
            if k == 1:
                return 2 ** rng.randint(54, 62) + rng.choice([0, 1, 2, 3])
            if k == 2:
                return rng.randint(2 ** 53, 2 ** 62)
            if k == 3:
                return 2 ** 62
            return rng.randint(1, 4)

        def sub(ext):
            cand = [0, ext - 1, ext - 2, ext // 2, 2 ** 53 - 1, 2 ** 53, 2 ** 53 + 1, 2 ** 53 + 2, 2 ** 53 + 3,
                    2 ** 54 + 1, 2 ** 55 + 1, 2 ** 55 - 1, 2 ** 60 + 1, 2 ** 62 - 1, 2 ** 62 - 2,
                    2 ** rng.randint(53, 61) + rng.randint(1, 99), rng.randrange(ext) | 1, rng.randrange(ext)]
            cand = [c for c in cand if 0 <= c < ext]
            big = [c for c in cand if c >= 2 ** 53]
            return rng.choice(big) if big and rng.random() < 0.7 else rng.choice(cand)

        n = rng.randint(1, 4)
        s = [extent() for _ in range(n)]
        if max(s) < 2 ** 53:
            s[rng.randrange(n)] = 2 ** 53 + rng.randint(2, 9)
        rows = []
        for _ in range(rng.choice([1, 1, 2, 3, 5, 8])):
            r = [sub(e) for e in s]
            if r not in rows:
                rows.append(r)
        return {"t": "sparse", "shape": s, "subs": rows, "vals": values(rng, len(rows), allow_zero=False)}

    def tags(self, o):
        if max(o["shape"]) >= 2 ** 53:
            big = sum(1 for r in o["subs"] for i in r if i >= 2 ** 53)
            return ["extent>=2^53", "subs>=2^53:" + ("0" if big == 0 else "1+")]
        n, cells = len(o["subs"]), gen.numel(o["shape"])
        key = [list(reversed(r)) for r in o["subs"]]
        order = "sorted" if key == sorted(key) else ("reversed" if key == sorted(key, reverse=True) else "unsorted")
        return ["nnz=" + ("0" if n == 0 else "1" if n == 1 else "all" if n == cells else "some"),
                "order=" + (order if n > 1 else "-")]


class Ktensor(RoundTrip):
    name = "ktensor"
    theorems = ("C16_roundtrip_ktensor",)

    def obj(self, rng, tier):
        s = _shape(rng, tier)
        if rng.random() < 0.3:
            s = [rng.randint(1, 6) for _ in s]
        r = rng.randint(1, 4)
        return {"t": "ktensor", "weights": values(rng, r),
                "factors": [{"shape": [n, r], "data": values(rng, n * r)} for n in s]}

    def tags(self, o):
        r = len(o["weights"])
        return [f"rank={r}", "nonsquare" if any(F["shape"][0] != r for F in o["factors"]) else "square"]


class Matrix(RoundTrip):
    name = "matrix"
    theorems = ("C16_roundtrip_matrix",)

    def obj(self, rng, tier):
        k = rng.random()
        if k < 0.7:
            s = [rng.randint(1, 5), rng.randint(1, 5)]
            if rng.random() < 0.5:
                while s[0] == s[1]:
                    s[1] = rng.randint(1, 5)
        elif k < 0.85:
            s = [rng.randint(1, 6)]
        else:
            s = _shape(rng, tier, 3)
        o = {"t": "matrix", "shape": s, "data": values(rng, gen.numel(s))}
        if rng.random() < 0.4:
            o["layout"] = "F"  # Fortran-contiguous in memory: the file must not depend on it
        return o

    def tags(self, o):
        return ["layout=" + o.get("layout", "C"), "square" if len(set(o["shape"])) == 1 and len(o["shape"]) == 2 else "nonsquare"]


class ValueSweep(RoundTrip):
    """The premise parse(fmt v) = v over the whole exponent range, systematically: every power of ten
    1e-323 .. 1e308 and every power of two 2^-1074 .. 2^1023 with both neighbours, both signs, plus the
    worst-case list; packed into 1-way dense tensors (np.fromfile reads the values), sparse tensors
    (float() of the last token of a line reads them) and Kruskal weights.  Thorough: all of them; quick:
    a random tenth."""
    name = "value_sweep"
    theorems = ("C16_roundtrip_dense", "C16_roundtrip_sparse", "C16_roundtrip_ktensor")

    def gen(self, rng, tier):
        pool = list(_WORST)
        for k in range(-323, 309):
            p = float(f"1e{k}")
            pool += [p, float(np.nextafter(p, math.inf)), float(np.nextafter(p, 0.0))]
        for k in range(-1074, 1024):
            p = math.ldexp(1.0, k)
            pool += [p, float(np.nextafter(p, math.inf)), float(np.nextafter(p, 0.0))]
        pool = [x for x in pool if math.isfinite(x) and x != 0.0]
        pool = [x if rng.random() < 0.7 else -x for x in pool]
        rng.shuffle(pool)
        if tier == "quick":
            pool = pool[:len(pool) // 10]
        out = []
        n = 48
        for i in range(0, len(pool), n):
            v = [bits(x) for x in pool[i:i + n]]
            k = (i // n) % 3 if len(v) >= 8 else 0
            if k == 0:
                out.append({"obj": {"t": "dense", "shape": [len(v)], "data": v}})
            elif k == 1:
                subs = [[j] for j in range(len(v))]
                rng.shuffle(subs)
                out.append({"obj": {"t": "sparse", "shape": [len(v)], "subs": subs, "vals": v}})
            else:
                r = min(4, len(v))
                rows = (len(v) - r) // r
                out.append({"obj": {"t": "ktensor", "weights": v[:r],
                                    "factors": [{"shape": [rows, r], "data": v[r:r + rows * r]}]}})
        return out


# ----------------------------------------------------------------------------
# index base
# ----------------------------------------------------------------------------
def _any_obj(rng, tier, weights=(1, 6, 1, 1)):
    fam = rng.choices([Dense, Sparse, Ktensor, Matrix], weights=weights)[0]
    return fam().obj(rng, tier)


class IndexBase(Family):
    """Files written by hand from the model's encodeBase(b), read with import_data(index_base=b)."""
    name = "index_base"
    theorems = ("C16_index_base", "C16_one_based")

    def gen(self, rng, tier):
        out = []
        for _ in range(100 if tier == "quick" else 1200):
            o = strip_layout(_any_obj(rng, tier))
            b = rng.choice([0, 0, 0, 1, 1, 2, 2, -1, 3, 10])
            out.append({"obj": o, "base": b})
        return out

    def evaluate(self, cases):
        out = []
        encs = drive([{"op": "c16.encode", "obj": c["obj"], "base": c["base"]} for c in cases])
        with Workdir() as wd:
            imps, reqs = [], []
            for c, enc in zip(cases, encs):
                p = wd.path()
                lines = [[render(t) for t in ln] for ln in enc["file"]]
                write_lines(p, lines)
                # the explicit default must behave as no argument
                imps.append(do_import(p, c["base"]) if c["base"] != 1 or len(imps) % 2 else do_import(p))
                real, _ = read_lines(p)
                reqs.append({"op": "c16.decode", "file": [[lex(t) for t in ln] for ln in real], "base": c["base"]})
            decs = drive(reqs)
        for c, enc, imp, dec in zip(cases, encs, imps, decs):
            o = c["obj"]
            nv = nvalues(o)
            tags = [o["t"], f"base={c['base']}"]
            if not enc["wf"]:
                raise RuntimeError(f"harness: generated an object outside the theorem's precondition: {o}")
            if o["t"] == "sparse":
                # every subscript token of the hand-written file is stored subscript + base
                want = [[str(i + c["base"]) for i in r] for r in o["subs"]]
                got = [[t[2:] for t in ln[:-1]] for ln in enc["file"][4:]]
                if want != got:
                    raise RuntimeError("harness: model encodeBase does not write subscript + base")
            if "ok" not in imp:
                out.append(Verdict("violation", f"import_data(index_base={c['base']}) rejects a file whose subscripts are written "
                                   f"with base {c['base']}: {imp.get('exc')}: {imp.get('msg')}", imp, dec, {"ok": o}, tags))
            elif imp["ok"] != o:
                out.append(Verdict("violation", f"a file written with index base {c['base']} is not read back correctly with "
                                   f"index_base={c['base']}", imp, dec, {"ok": o}, tags))
            elif "ok" not in dec or not model_obj_eq(imp["ok"], dec["ok"]):
                out.append(Verdict("corr", "import_data differs from the model's decode of the same file", imp, dec, {"ok": o}, tags))
            else:
                out.append(Verdict("ok", "", imp, dec, {"ok": o}, tags, nontrivial=nv > 0))
        return out

    def shrink(self, case):
        for o in shrink_obj(case["obj"]):
            yield {"obj": o, "base": case["base"]}


# ----------------------------------------------------------------------------
# malformed files
# ----------------------------------------------------------------------------
MUTATIONS = ("header", "header", "sizelen", "sizelen", "blank_size", "nonint_order", "truncated", "nnz_big", "nnz_small",
             "sub_oob", "sub_neg", "wrong_base", "kt_cols", "kt_rank_line", "kt_header", "int_value", "extra_data",
             "empty_file")
#: the rejections the property (theorem C16_decode_rejects) speaks about
SPEC_REJECTS = ("header", "sizelen", "blank_size", "empty_file")


def mutate(lines, mut):
    """Apply a mutation (a JSON dict, deterministic) to text lines.  Returns new lines or None
    when the mutation does not apply to this file."""
    L = [list(ln) for ln in lines]
    k = mut["kind"]
    head = L[0][0]
    if k == "header":
        L[0][0] = mut["word"]
    elif k == "sizelen":
        if mut["how"] == "order+1":
            L[1][0] = str(int(L[1][0]) + 1)
        elif mut["how"] == "order-1":
            L[1][0] = str(int(L[1][0]) - 1)
        elif mut["how"] == "drop":
            L[2] = L[2][:-1]
            if not L[2]:
                return None
        else:
            L[2] = L[2] + ["2"]
    elif k == "blank_size":
        L[2] = []
    elif k == "nonint_order":
        L[1][0] = L[1][0] + ".0"
    elif k == "truncated":
        if len(L) <= 3 + (head in ("sptensor", "ktensor")):
            return None
        if head == "sptensor" and L[3][0] == "0":
            return None
        if len(L[-1]) > 1 and head != "sptensor":
            L[-1] = L[-1][:-1]
        else:
            L.pop()
    elif k in ("nnz_big", "nnz_small"):
        if head != "sptensor":
            return None
        n = int(L[3][0])
        if k == "nnz_small" and n == 0:
            return None
        L[3][0] = str(n + 1 if k == "nnz_big" else n - 1)
    elif k == "sub_oob":
        if head != "sptensor" or len(L) < 5:
            return None
        j = mut["col"] % (len(L[4]) - 1)
        L[4][j] = str(int(L[2][j]) + 1 + mut.get("plus", 0))
    elif k == "sub_neg":
        if head != "sptensor" or len(L) < 5:
            return None
        n = 4 + mut["row"] % (len(L) - 4)
        L[n][mut["col"] % (len(L[n]) - 1)] = str(mut["to"])
    elif k == "wrong_base":
        if head != "sptensor":
            return None
    elif k == "kt_header":
        if head != "ktensor":
            return None
        j = mut["col"] % len(L[2])
        L[2][j] = str(max(0, int(L[2][j]) + mut["delta"]))
    elif k == "kt_cols":
        if head != "ktensor":
            return None
        # give the last factor one column less (consistently with its own size line)
        i = max(n for n, ln in enumerate(L) if ln == ["matrix"])
        c = int(L[i + 2][1])
        if c < 2:
            return None
        L[i + 2][1] = str(c - 1)
        for n in range(i + 3, len(L)):
            L[n] = L[n][:-1]
    elif k == "kt_rank_line":
        if head != "ktensor":
            return None
        r = int(L[3][0]) + mut["delta"]
        if r < 1:
            return None
        L[3][0] = str(r)
    elif k == "int_value":
        pos = [(n, j) for n, ln in enumerate(L) for j, t in enumerate(ln) if lex(t).startswith("v:")]
        if not pos:
            return None
        n, j = pos[mut["at"] % len(pos)]
        L[n][j] = str(mut["int"])
    elif k == "extra_data":
        if head == "ktensor":
            return None
        L.append([render("v:" + bits(1.5))])
    elif k == "empty_file":
        L = [] if mut.get("how") == "nothing" else [[]] + L
    else:
        raise ValueError(k)
    return L


class Malformed(Family):
    """Hand-written files that deviate from the format: implementation and model must agree on
    accept / reject (and on the object when accepted); an unknown header word and a size line of the
    wrong length must be rejected."""
    name = "malformed"
    theorems = ("C16_decode_rejects",)

    def gen(self, rng, tier):
        out = []
        for _ in range(150 if tier == "quick" else 1500):
            kind = rng.choice(MUTATIONS)
            w = (1, 1, 1, 1)
            if kind in ("nnz_big", "nnz_small", "sub_oob", "sub_neg", "wrong_base"):
                w = (0, 1, 0, 0)
            elif kind in ("kt_cols", "kt_rank_line", "kt_header"):
                w = (0, 0, 1, 0)
            o = strip_layout(_any_obj(rng, tier, w))
            mut = {"kind": kind}
            if kind == "header":
                real = {"dense": "tensor", "sparse": "sptensor", "ktensor": "ktensor", "matrix": "matrix"}[o["t"]]
                mut["word"] = rng.choice([real.capitalize(), real.upper(), real + "s", real[:-1], "tensors", "sparse", "array",
                                          "ttensor", "tenmat", "sptenmat", "sumtensor", "symktensor", "0", "3", "#" + real, "tensor,"])
            elif kind == "sizelen":
                mut["how"] = rng.choice(["order+1", "order-1", "drop", "add"])
            elif kind == "sub_oob":
                mut["col"] = rng.randrange(8)
                mut["plus"] = rng.choice([0, 0, 1, 5])
            elif kind == "sub_neg":
                mut["row"], mut["col"], mut["to"] = rng.randrange(64), rng.randrange(8), rng.choice([0, 0, -1, -5])
            elif kind == "wrong_base":  # a 1-based file read with another base: shifted or rejected
                mut["base"] = rng.choice([0, 2, 2, 3, -1])
            elif kind == "kt_header":
                mut["col"], mut["delta"] = rng.randrange(8), rng.choice([1, -1, 2])
            elif kind == "kt_rank_line":
                mut["delta"] = rng.choice([1, -1])
            elif kind == "int_value":
                mut["at"] = rng.randrange(1000)
                mut["int"] = rng.choice([0, 1, 7, -3, 12, 2 ** 53 + 1, 10 ** 22, 10 ** 23, -(10 ** 30)])
            elif kind == "empty_file":
                mut["how"] = rng.choice(["nothing", "blank_first_line"])
            out.append({"obj": o, "mut": mut})
        return out

    def evaluate(self, cases):
        out = []
        encs = drive([{"op": "c16.encode", "obj": c["obj"], "base": 1} for c in cases])
        with Workdir() as wd:
            imps, reqs, applied = [], [], []
            for c, enc in zip(cases, encs):
                lines = mutate([[render(t) for t in ln] for ln in enc["file"]], c["mut"])
                applied.append(lines is not None)
                if lines is None:  # mutation does not apply: the file stays valid
                    lines = [[render(t) for t in ln] for ln in enc["file"]]
                p = wd.path()
                write_lines(p, lines)
                base = c["mut"].get("base", 1) if applied[-1] else 1
                imps.append(do_import(p, None if base == 1 else base))
                real, _ = read_lines(p)
                reqs.append({"op": "c16.decode", "file": [[lex(t) for t in ln] for ln in real], "base": base})
            decs = drive(reqs)
        for c, ap, imp, dec in zip(cases, applied, imps, decs):
            kind = c["mut"]["kind"] if ap else "unchanged"
            acc = "ok" in imp
            tags = [c["obj"]["t"], "mut=" + kind, "accepted" if acc else "rejected"]
            if kind in SPEC_REJECTS and acc:
                out.append(Verdict("violation", f"import_data accepts a malformed file ({kind}: "
                                   f"{c['mut'].get('word', c['mut'].get('how', ''))})", imp, dec, {"reject": True}, tags))
            elif acc != ("ok" in dec) or (acc and not model_obj_eq(imp["ok"], dec["ok"])):
                out.append(Verdict("corr", f"import_data and the model's decode disagree on a malformed file ({kind})",
                                   imp, dec, None, tags))
            else:
                out.append(Verdict("ok", "", {"reject": True} if not acc else imp, dec, None, tags, nontrivial=False))
        return out

    def shrink(self, case):
        for o in shrink_obj(case["obj"]):
            yield {"obj": o, "mut": case["mut"]}


# ----------------------------------------------------------------------------
# degenerate objects (outside the property's quantifier; model <-> code only)
# ----------------------------------------------------------------------------
class Degenerate(Family):
    """Objects with an empty mode and the rank-0 Kruskal tensor: not in the property's scope, but the
    model (and, for empty modes, the theorems) cover them, so the model is tied to the code here too.
    A disagreement is a correspondence failure, never a property violation."""
    name = "degenerate"
    theorems = ()

    def gen(self, rng, tier):
        v = values(rng, 12)
        return [
            {"obj": {"t": "dense", "shape": [0, 3], "data": []}},
            {"obj": {"t": "dense", "shape": [2, 0, 2], "data": []}},
            {"obj": {"t": "dense", "shape": [0], "data": []}},
            {"obj": {"t": "matrix", "shape": [0, 2], "data": []}},
            {"obj": {"t": "matrix", "shape": [3, 0], "data": []}},
            {"obj": {"t": "ktensor", "weights": v[:2], "factors": [{"shape": [0, 2], "data": []}, {"shape": [3, 2], "data": v[2:8]}]}},
            {"obj": {"t": "ktensor", "weights": v[:1], "factors": [{"shape": [2, 1], "data": v[1:3]}, {"shape": [0, 1], "data": []}]}},
            {"obj": {"t": "ktensor", "weights": [], "factors": [{"shape": [3, 0], "data": []}, {"shape": [2, 0], "data": []}]}},
        ]

    def evaluate(self, cases):
        out = []
        with Workdir() as wd:
            reqs, imps, reals = [], [], []
            for c in cases:
                p = wd.path()
                x = build(c["obj"])
                export_data(x, p)
                real, _ = read_lines(p)
                reals.append(real)
                imps.append(do_import(p))
                reqs.append({"op": "c16.encode", "obj": c["obj"], "base": 1})
                reqs.append({"op": "c16.decode", "file": [[lex(t) for t in ln] for ln in real], "base": 1})
            rep = drive(reqs)
        for i, c in enumerate(cases):
            enc, dec, imp = rep[2 * i], rep[2 * i + 1], imps[i]
            tags = [c["obj"]["t"], "wf" if enc["wf"] else "outside-precondition", "accepted" if "ok" in imp else "rejected"]
            prob, _, _ = compare_file(reals[i], enc["file"])
            if prob is not None:
                out.append(Verdict("corr", "exported file vs model encode: " + prob, {"file": reals[i]}, {"file": enc["file"]}, None, tags, False))
            elif ("ok" in imp) != ("ok" in dec) or ("ok" in imp and not model_obj_eq(imp["ok"], dec["ok"])):
                out.append(Verdict("corr", "import_data differs from the model's decode of the same file", imp, dec, None, tags, False))
            elif enc["wf"] and ("ok" not in imp or imp["ok"] != c["obj"]):
                out.append(Verdict("corr", "round trip of an object with an empty mode", imp, dec, {"ok": c["obj"]}, tags, False))
            else:
                out.append(Verdict("ok", "", imp if "ok" in imp else {"reject": True}, dec, None, tags, nontrivial=False))
        return out


# ----------------------------------------------------------------------------
# digits: the two contracts behind parse(fmt v) = v (C16_digits_*)
# ----------------------------------------------------------------------------
from fractions import Fraction

_TOKEN = re.compile(r"^(-?)([0-9])\.([0-9]+)e([+-][0-9]{2,3})$")
_TWO1024 = Fraction(2) ** 1024


def decompose(x):
    """finite nonzero double -> (neg, m, e) with |x| = m * 2**e, the model's B64"""
    b = int(bits(x))
    ex, fr = (b >> 52) & 2047, b & ((1 << 52) - 1)
    return (b >> 63 == 1, fr, -1074) if ex == 0 else (b >> 63 == 1, (1 << 52) + fr, ex - 1075)


def token_decimal(tok):
    """'-D.DDDDe+XX' -> (neg, d, k, P) with value (-1)^neg * d * 10**k and P digits printed; None if not of that form"""
    m = _TOKEN.match(tok)
    if not m:
        return None
    frac = m.group(3)
    return (m.group(1) == "-", int(m.group(2) + frac), int(m.group(4)) - len(frac), 1 + len(frac))


def dec_value(neg, d, k):
    y = Fraction(d) * Fraction(10) ** k
    return -y if neg else y


def spec_nearest_dec(x, neg, d, k, P):
    """Is (-1)^neg d 10^k a nearest P-digit decimal of the nonzero Fraction x?  By locating |x| between two
    consecutive multiples of the unit 10^k0 of its decade (exact floor) - not by comparing with neighbours."""
    if not (10 ** (P - 1) <= d < 10 ** P) or neg != (x < 0):
        return False
    a = abs(x)
    k0 = len(str(a.numerator)) - len(str(a.denominator)) - P  # first guess, then adjust exactly
    while a < Fraction(10) ** (k0 + P - 1):
        k0 -= 1
    while a >= Fraction(10) ** (k0 + P):
        k0 += 1
    u = Fraction(10) ** k0
    lo = (a / u).numerator // (a / u).denominator
    best = min(abs(a - lo * u), abs(a - (lo + 1) * u))
    return abs(a - Fraction(d) * Fraction(10) ** k) == best


def spec_nearest_bin(y, p):
    """Is the finite nonzero double p a nearest finite double of the Fraction y?  (exact; the competitor
    beyond the largest finite value is 2**1024, below the least subnormal it is zero)"""
    fp = Fraction(p)
    for q in (math.nextafter(p, math.inf), math.nextafter(p, -math.inf)):
        fq = (_TWO1024 if q > 0 else -_TWO1024) if math.isinf(q) else Fraction(q)
        if abs(y - fp) > abs(y - fq):
            return False
    return True


class Digits(Family):
    """The two libc/NumPy contracts that C16_digits_roundtrip turns into parse(fmt v) = v, on the real code
    path: values are exported by export_data (ndarray.tofile(format='%.16e'), i.e. C printf) and re-imported
    by import_data (dense: np.fromfile(sep=' '); sparse: NumPy's str -> float64 conversion on item assignment).  For every value v with printed token t
    and re-read value p: (1) t is a nearest 17-digit decimal of v (exact, Fraction), (2) p is a nearest
    double of t (exact, Fraction + math.nextafter), (3) the model's decision procedures nearestDecB /
    nearestBinB and its decomposition of bit patterns agree - also on perturbed inputs (neighbouring decimal,
    neighbouring double, the 16-digit token '%.15e' % v) so that both outcomes of each decision occur.
    Values: every binade boundary 2^k and 2^k -+ 1 ulp for -1074 <= k <= 1023 (subnormals included), the
    extremes, and the sampled values of the other families; both signs; zeros (dense only)."""
    name = "digits"
    theorems = ("C16_digits_roundtrip", "C16_digits_nearest_decision_sound", "C16_digits_nearest_bin_decision_sound",
                "C16_digits_discharges_hypothesis", "C16_digits_16_not_enough")
    PER = 48

    def gen(self, rng, tier):
        pool = []
        for k in range(-1074, 1024):
            p = math.ldexp(1.0, k)
            pool += [(p, "pow2"), (math.nextafter(p, math.inf), "pow2+1ulp"), (math.nextafter(p, 0.0), "pow2-1ulp")]
        pool = [(x, w) for x, w in pool if x != 0.0 and math.isfinite(x)]
        if tier == "quick":
            rng.shuffle(pool)
            pool = pool[:len(pool) // 8]
        pool += [(x, "worst") for x in _WORST] + [(0.1 + 0.2, "worst"), (1.7976931348623157e308, "max"), (5e-324, "min")]
        pool += [(value(rng, allow_zero=False), "sampled") for _ in range(300 if tier == "quick" else 4000)]
        pool = [(x if rng.random() < 0.6 else -x, w) for x, w in pool]
        rng.shuffle(pool)
        out = []
        for i in range(0, len(pool), self.PER):
            chunk = pool[i:i + self.PER]
            via = "dense" if (i // self.PER) % 2 == 0 else "sparse"
            vals = [bits(x) for x, _ in chunk]
            what = [w for _, w in chunk]
            if via == "dense" and (i // self.PER) % 4 == 0:
                vals += [bits(0.0), bits(-0.0)]
                what += ["zero", "zero"]
            out.append({"via": via, "vals": vals, "what": what})
        return out

    @staticmethod
    def obj(case):
        n = len(case["vals"])
        if case["via"] == "dense":
            return {"t": "dense", "shape": [n], "data": case["vals"]}
        return {"t": "sparse", "shape": [n], "subs": [[j] for j in range(n)], "vals": case["vals"]}

    def evaluate(self, cases):
        out = []
        reqs, info = [], []
        with Workdir() as wd:
            for c in cases:
                o = self.obj(c)
                p = wd.path()
                export_data(build(o), p)
                lines, _ = read_lines(p)
                toks = [ln[0] for ln in lines[3:]] if c["via"] == "dense" else [ln[-1] for ln in lines[4:]]
                imp = do_import(p)
                back = imp["ok"].get("data", imp["ok"].get("vals")) if "ok" in imp else None
                info.append((toks, back, imp))
        # requests: per nonzero value the real triple and three perturbations
        plan = []
        for ci, c in enumerate(cases):
            toks, back, imp = info[ci]
            if back is None or len(toks) != len(c["vals"]) or len(back) != len(c["vals"]):
                continue
            for vi, vb in enumerate(c["vals"]):
                v = unbits(vb)
                td = token_decimal(toks[vi])
                if v == 0.0 or td is None or not math.isfinite(unbits(back[vi])):
                    continue
                neg, d, k, P = td
                pb = back[vi]
                t15 = "%.15e" % v
                n15, d15, k15, P15 = token_decimal(t15)
                variants = [("real", vb, pb, neg, d, k, P),
                            ("dec+1", vb, pb, neg, d + 1, k, P),
                            ("dec-1", vb, pb, neg, d - 1, k, P),
                            ("bin-next", vb, bits(math.nextafter(unbits(pb), math.inf)), neg, d, k, P),
                            ("p16", vb, bits(float(t15)), n15, d15, k15, P15),
                            ("p16-orig", vb, vb, n15, d15, k15, P15)]
                for (lab, b1, b2, ng, dd, kk, PP) in variants:
                    plan.append((ci, vi, lab, b1, b2, ng, dd, kk, PP))
                    reqs.append({"op": "c16.digits", "bits": b1, "pbits": b2, "P": PP, "neg": ng, "d": str(dd), "k": kk})
        replies = drive(reqs) if reqs else []
        by_case = {}
        for pl, rp in zip(plan, replies):
            by_case.setdefault(pl[0], []).append((pl, rp))
        for ci, c in enumerate(cases):
            toks, back, imp = info[ci]
            tags = ["via=" + c["via"]] + sorted(set(c["what"]))
            if back is None or len(toks) != len(c["vals"]) or len(back) != len(c["vals"]):
                out.append(Verdict("violation", "import_data does not return the values export_data wrote", imp,
                                   None, {"vals": c["vals"]}, tags))
                continue
            bad = None
            nsub = nbound = 0
            for vi, vb in enumerate(c["vals"]):
                v, pv = unbits(vb), unbits(back[vi])
                if back[vi] != vb:
                    bad = ("violation", f"value {v!r} printed as {toks[vi]} is read back as {pv!r}")
                    break
                if v == 0.0:
                    want = ("-" if vb != bits(0.0) else "") + "0.0000000000000000e+00"
                    if toks[vi] != want:
                        bad = ("corr", f"zero {v!r} printed as {toks[vi]}, expected {want}")
                        break
                    continue
                td = token_decimal(toks[vi])
                if td is None or td[3] != 17:
                    bad = ("corr", f"token {toks[vi]} of {v!r} is not of the form D.DDDDDDDDDDDDDDDDe+XX")
                    break
                neg, d, k, P = td
                if not spec_nearest_dec(Fraction(v), neg, d, k, 17):
                    bad = ("corr", f"contract 1: token {toks[vi]} is not a nearest 17-digit decimal of {v!r}")
                    break
                if not spec_nearest_bin(dec_value(neg, d, k), pv):
                    bad = ("corr", f"contract 2: {pv!r} is not a nearest double of the token {toks[vi]}")
                    break
                nsub += decompose(v)[1] < (1 << 52)
                nbound += 1
            model_seen = set()
            if bad is None:
                for (pl, rp) in by_case.get(ci, []):
                    _, vi, lab, b1, b2, ng, dd, kk, PP = pl
                    v, pv = unbits(b1), unbits(b2)
                    exp_x = dict(zip(("neg", "m", "e"), decompose(v)))
                    got_x = rp.get("x") or {}
                    if (got_x.get("neg"), got_x.get("m"), got_x.get("e"), got_x.get("wf")) != \
                            (exp_x["neg"], str(exp_x["m"]), exp_x["e"], True):
                        bad = ("corr", f"model decomposition of {v!r}: {got_x} vs {exp_x}")
                        break
                    want_dec = spec_nearest_dec(Fraction(v), ng, dd, kk, PP)
                    want_bin = None if (pv == 0.0 or not math.isfinite(pv)) else spec_nearest_bin(dec_value(ng, dd, kk), pv)
                    if rp.get("nearest_dec") != want_dec:
                        bad = ("corr", f"[{lab}] nearest {PP}-digit decimal of {v!r}: d={dd} k={kk}: model says "
                                       f"{rp.get('nearest_dec')}, exact arithmetic says {want_dec}")
                        break
                    if rp.get("nearest_bin") != want_bin:
                        bad = ("corr", f"[{lab}] nearest double of d={dd} k={kk}: {pv!r}: model says "
                                       f"{rp.get('nearest_bin')}, exact arithmetic says {want_bin}")
                        break
                    model_seen.add(f"model:dec={want_dec}")
                    model_seen.add(f"model:bin={want_bin}")
                    if lab == "p16" and b2 != b1:
                        model_seen.add("16-digits-lose-the-value")
            tags += sorted(model_seen) + ["subnormal"] * min(nsub, 1) + ["values_two_contracts_checked"] * nbound
            if bad is not None:
                out.append(Verdict(bad[0], bad[1], {"tokens": toks, "back": back}, None, {"vals": c["vals"]}, tags))
            else:
                out.append(Verdict("ok", "", {"back": back}, {"back": c["vals"]}, {"back": c["vals"]}, tags, nontrivial=nbound > 0))
        return out

    def shrink(self, case):
        n = len(case["vals"])
        if n > 1:
            for lo, hi in ((0, n // 2), (n // 2, n)):
                yield {"via": case["via"], "vals": case["vals"][lo:hi], "what": case["what"][lo:hi]}
            for i in range(n):
                yield {"via": case["via"], "vals": [case["vals"][i]], "what": [case["what"][i]]}



# ----------------------------------------------------------------------------
# shrinking
# ----------------------------------------------------------------------------
def shrink_obj(o):
    t = o["t"]
    simple = lambda n: [bits(k + 1.5) for k in range(n)]  # noqa: E731
    if t in ("dense", "matrix"):
        s, d = o["shape"], o["data"]
        # shorten the slowest index (last for F order, first for C order): the data are a prefix
        slow = len(s) - 1 if t == "dense" else 0
        if s[slow] > 1:
            s2 = list(s)
            s2[slow] -= 1
            yield {**o, "shape": s2, "data": d[:gen.numel(s2)]}
        elif len(s) > 1:
            s2 = s[:-1] if t == "dense" else s[1:]
            yield {**o, "shape": s2, "data": d}
        if d != simple(len(d)):
            yield {**o, "data": simple(len(d))}
        for i in range(len(d)):
            if d[i] != bits(1.5):
                yield {**o, "data": d[:i] + [bits(1.5)] + d[i + 1:]}
    elif t == "sparse":
        for i in range(len(o["subs"])):
            yield {**o, "subs": o["subs"][:i] + o["subs"][i + 1:], "vals": o["vals"][:i] + o["vals"][i + 1:]}
        if o["vals"] != simple(len(o["vals"])):
            yield {**o, "vals": simple(len(o["vals"]))}
        s = o["shape"]
        tight = [max([r[j] for r in o["subs"]] + [0]) + 1 for j in range(len(s))]
        if tight != s:
            yield {**o, "shape": tight}
        for j in range(len(s)):
            if len(s) > 1 and all(r[j] == 0 for r in o["subs"]):
                yield {**o, "shape": s[:j] + s[j + 1:], "subs": [r[:j] + r[j + 1:] for r in o["subs"]]}
            if s[j] > 1 and all(r[j] < s[j] - 1 for r in o["subs"]):
                yield {**o, "shape": s[:j] + [s[j] - 1] + s[j + 1:]}
    elif t == "ktensor":
        fs, w = o["factors"], o["weights"]
        r = len(w)
        if len(fs) > 1:
            yield {**o, "factors": fs[:-1]}
        if r > 1:
            yield {**o, "weights": w[:-1],
                   "factors": [{"shape": [F["shape"][0], r - 1],
                                "data": [x for k, x in enumerate(F["data"]) if k % r != r - 1]} for F in fs]}
        for i, F in enumerate(fs):
            if F["shape"][0] > 1:
                F2 = {"shape": [F["shape"][0] - 1, r], "data": F["data"][:-r]}
                yield {**o, "factors": fs[:i] + [F2] + fs[i + 1:]}
        flat = simple(r + sum(len(F["data"]) for F in fs))
        o2 = {**o, "weights": flat[:r], "factors": []}
        k = r
        for F in fs:
            o2["factors"].append({"shape": F["shape"], "data": flat[k:k + len(F["data"])]})
            k += len(F["data"])
        if o2 != o:
            yield o2


def families():
    return [Dense(), Sparse(), Ktensor(), Matrix(), ValueSweep(), IndexBase(), Malformed(), Degenerate(), Digits()]
