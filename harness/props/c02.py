"""C02 — multilinear products equal their definition in every representation."""
from __future__ import annotations

import itertools
import logging
import math

import numpy as np
import pyttb as ttb

from harness import gen
from harness.lib import Family, Verdict, call, deep_eq, drive, jval

RULE = ("dense / sparse / Kruskal / Tucker / sum holders of small-integer data on shapes of order 1..4 (extents 1..4, "
        "singleton modes, repeated extents); every non-empty subset of modes for N<=3 (quick) / N<=4 (thorough) under "
        "dims (sorted and shuffled), exclude_dims, one multiplicand per selected mode and one per mode of the tensor; "
        "transpose flag; sparse operands with no / one / few / half / many / all entries so that results stay sparse, "
        "sit exactly at 50 % fill, or densify; all modes contracted (scalar); Kruskal operands with non-unit, negative "
        "and zero weights, weight vectors that are all ones / contain no one / mix exact ones with other values / "
        "contain zeros / are negative / fractional (every pattern for every holder kind and mttkrp branch), Tucker "
        "cores that are all ones / superdiagonal ones / zero, sum tensors with repeated, zero and unit-weight parts; "
        "every array operand handed over in C order, F order, as a strided view of a larger buffer, as a transposed "
        "view, and mixed (vectors also as column / row arrays where accepted); scale with every accepted factor kind "
        "(pyttb.tensor, sptensor, 1-d ndarray, raw N-d ndarray in each layout) over every non-empty subset of modes "
        "of shapes with pairwise distinct extents; ALWAYS (not sampled) one case per outcome of every data-dependent "
        "decision: tensor.mttkrps for every value of min_split on orders 3..6 plus the lopsided 4-way shapes, factor "
        "list and Kruskal operand, factors without zeros; the Tucker innerprod / norm size switches (tensor smaller / "
        "equal / larger than the core, first core larger / equal / smaller); the sparse ttv and contract densify "
        "switch (fill none / one / half / half+1 / full) for vector and multiway results with the contracted modes "
        "leading / trailing / inner and several non-adjacent stored entries per result cell; every sparse operand "
        "stored in lexicographic, first-index-fastest, reversed or shuffled order (tagged stored:*); every sparse "
        "result must store each subscript once and its own full() must equal the sum of its stored entries; "
        "ktensor.mask with dense / sparse masks of the same or smaller extents, ttensor.reconstruct with index vectors "
        "(repeats, any order) and mixing matrices on any subset of modes in any order, Tucker tensors with a sparse "
        "core (full, ttv with scalar / dense-core / sparse-core results); "
        "family dtypes (ALWAYS, every tier): every dense kernel, and the sparse / Tucker ones whose vals / core / "
        "factors can carry a type (incl. Tucker ttm and reconstruct), on data stored as int8 / uint8 / int16 / int32 / "
        "int64 / float32 / bool (float64 = control) with positive magnitudes for which one product of two entries "
        "already leaves the type (or its 24-bit significand, or {0,1}), multiplicands / second operands / factors "
        "stored in the same type and in float64; ttv with ONE bare vector of each type on dense / sparse / Tucker / "
        "Kruskal holders; the result is compared with the exact Lean spec value of the stored integers (exactly when "
        "it fits 53 bits, to 1e-12 relative otherwise) and every combination is asserted, except float32 norm "
        "(DTYPE_PENDING: single-precision rounding, tagged pending-deviation, not a defect); tensor.ttt and sparse "
        "scale on same-typed non-float64 operands are the known findings K02-ttt-storage-dtype / "
        "K02-sp-scale-storage-dtype, accepted only when the result is exactly numpy's arithmetic in that type; "
        "the same array held five ways; "
        "family ttsv: tensor.ttsv ALWAYS on every cubical shape of order 1..5 (extents 1..3, order 5 with extent 3 and "
        "extent 4 in the thorough tier) x skip_dim absent / 0 .. N-1 x version absent / 1 / 2, vectors with zeros and "
        "negative entries handed over as 1-d array / list / tuple / column / row, skip_dim positional or keyword; "
        "non-cubical shapes whose multiplied modes match the vector (valid under version=1, refused by the default); "
        "refused requests (skip_dim -2 / -1 / N / N+1, version 0 / 3, non-cubical, wrong vector length) and the wrong "
        "vector length that is never looked at (nothing multiplied); result kind asserted (scalar / 1-d / 2-d array / "
        "tensor, also for extent 1: fixed F02-ttsv-extent1-scalar, corpus witness), and ttsv in the dtypes family, both "
        "versions, every storage type asserted (fixed F02-ttsv-storage-dtype, corpus witness); "
        "family tucker_sparse_core: innerprod / norm / mttkrp of a Tucker tensor whose core is an sptensor storing "
        "nothing / one entry / half / every entry in every stored order, non-cubical cores, factors with negative "
        "entries; other operand dense / sparse / Kruskal / Tucker with a dense or sparse core, both call orders; ALWAYS "
        "one case per outcome of the size switches (tensor smaller / equal / larger than the core, first core larger / "
        "equal / smaller) x sparsity class; mttkrp for every mode n with a factor list and a Kruskal operand (every "
        "weight pattern); "
        "plus a malformed stream (wrong sizes, contradictory mode designations, a mode listed twice, a mode index that "
        "is not a mode, factor lists of the wrong length). Each implementation result is compared with the Lean spec value (sum over indices) and with "
        "the Lean model. ttv with ONE bare ndarray multiplicand on every mode (singleton modes: length-1 vectors) of every representation, "
        "dims / exclude_dims / nothing designated (family ttv_bare_vector). non-trivial = accepted and operand has a non-zero entry; distinct = distinct case hash")
ASSUMPTIONS = [
    "values are small integers, so every float operation of the implementation is exact (dtypes family: the "
    "exact result fits 53 bits, or the comparison allows 1e-12 relative)",
    "np.transpose / F-order reshape / matmul / dot / fancy gather / numpy_groupies.aggregate have the entry-wise "
    "semantics of the model primitives",
]
EXHAUSTIVE = {"quick": False, "thorough": False}

logging.getLogger().setLevel(logging.ERROR)  # pyttb warns about every non-F-ordered array it has to copy

REDUCERS = {
    "sum": np.sum,
    "sumsq": lambda v: np.sum(np.asarray(v) * np.asarray(v)),
    "sumabs": lambda v: np.sum(np.abs(v)),
    "max": np.max,
    "min": np.min,
    "prod": np.prod,
    "count": lambda v: float(np.count_nonzero(v)),
}
#: reducers that do not change when zeros are inserted into the argument list (and are permutation invariant)
ZERO_INSENSITIVE = {"sum", "sumsq", "sumabs", "count"}


# ----------------------------------------------------------------------------
# holders: JSON <-> pyttb <-> numpy
# ----------------------------------------------------------------------------
def fnum(x):
    """case number (int or "n/d") -> exact Fraction"""
    from fractions import Fraction
    if isinstance(x, str):
        n, _, d = x.partition("/")
        return Fraction(int(n), int(d or 1))
    return Fraction(x)


def fl(x):
    """case number -> float (exact: denominators are powers of two)"""
    return float(fnum(x))


#: memory layouts / views in which an array operand is handed to the implementation
LAYOUTS = ["C", "F", "strided", "T"]


def lay_arr(a, lay, k=0, dtype=float):
    """the same logical array in another memory layout (C / F contiguous, a strided view of a bigger
    buffer, a transposed view); "mix" picks one per operand index k; `dtype` = storage type of the array"""
    a = np.asarray(a).astype(dtype) if dtype is not float else np.asarray(a, dtype=float)
    if lay == "mix":
        lay = LAYOUTS[k % len(LAYOUTS)]
    if lay in (None, "C") or a.ndim == 0:
        return np.ascontiguousarray(a)
    if lay == "F":
        return np.asfortranarray(a)
    if lay == "T":
        return np.ascontiguousarray(a.T).T
    if lay == "strided":
        big = np.full(tuple(2 * s + 1 for s in a.shape), 77.0).astype(a.dtype)
        view = big[tuple(slice(1, None, 2) for _ in a.shape)]
        view[...] = a
        return view
    if lay == "col":
        return np.ascontiguousarray(a).reshape(-1, 1)
    if lay == "row":
        return np.ascontiguousarray(a).reshape(1, -1)
    raise ValueError(lay)


#: patterns of Kruskal weight vectors (shortcuts on "all weights are 1" / "no weight is 1" / zeros)
WEIGHT_PATTERNS = ["ones", "none1", "mixed1", "zero", "neg", "frac", "any"]


def weights_of(rng, R, pattern=None):
    pattern = pattern or rng.choice(WEIGHT_PATTERNS)
    non1 = [-3, -2, -1, 2, 3, "1/2", "-3/2", "5/4"]
    if pattern == "ones":
        return [1] * R
    if pattern == "none1":
        return [rng.choice(non1) for _ in range(R)]
    if pattern == "mixed1":  # some exactly 1, some not (needs R >= 2 to be a real mix)
        w = [1] + [rng.choice(non1) for _ in range(R - 1)]
        if R >= 3 and rng.random() < 0.5:
            w[1] = 1
        rng.shuffle(w)
        return w
    if pattern == "zero":
        w = [0] + [rng.choice([1] + non1) for _ in range(R - 1)]
        rng.shuffle(w)
        return w
    if pattern == "neg":
        return [rng.choice([-1, -2, -3, "-1/2"]) for _ in range(R)]
    if pattern == "frac":
        return [rng.choice(["1/2", "-3/2", "5/4", "3/4", 1]) for _ in range(R)]
    return [rng.choice([-2, -1, 0, 1, 2, 3, "1/2"]) for _ in range(R)]


def mat_rows(a):
    return [[int(x) for x in row] for row in np.asarray(a).tolist()]


def rand_mat(rng, r, c, zero_share=0.15, lo=-3, hi=3):
    return gen.matrix(rng, r, c, lo, hi, zero_share)


def h_dense(A):
    A = np.asarray(A)
    return {"kind": "dense", "shape": list(A.shape), "data": [int(x) for x in A.flatten(order="F")]}


SP_ORDERS = ["lex", "colex", "reversed", "lexrev", "shuffled", "shuffled"]


def stored_order(subs):
    """tag describing the order in which a sparse holder stores its subscripts"""
    rows = [tuple(r) for r in subs]
    if len(rows) < 2:
        return "trivial"
    if rows == sorted(rows):
        return "lex"
    if rows == sorted(rows, reverse=True):
        return "lexrev"
    key = lambda r: tuple(reversed(r))  # noqa: E731
    if rows == sorted(rows, key=key):
        return "colex"
    if rows == sorted(rows, key=key, reverse=True):
        return "colexrev"
    return "shuffled"


def sparse_orders_of(h):
    if h["kind"] == "sparse":
        return [stored_order(h["subs"])]
    if h["kind"] == "sum":
        return [o for p in h["parts"] for o in sparse_orders_of(p)]
    return []


def min_split_rule(shape):
    """the documented rule of tensor.min_split: modes go left while that lowers m_left + m_right"""
    m_left, m_right, idx_min = shape[0], gen.numel(shape[1:]), 0
    for idx in range(1, len(shape)):
        m_right //= shape[idx]
        if m_left < m_right:
            idx_min = idx
            m_left *= shape[idx]
        else:
            break
    return idx_min


def shapes_by_split(N, max_cells=200, smax=7):
    """{split index: [shapes]} for N-way shapes with extents 2..smax, enumerated in a fixed order"""
    out = {}
    for shp in itertools.product(range(2, smax + 1), repeat=N):
        if gen.numel(shp) <= max_cells:
            out.setdefault(min_split_rule(list(shp)), []).append(list(shp))
    return out


def h_sparse(A, rng=None, order=None):
    A = np.asarray(A)
    subs = [list(map(int, s)) for s in np.argwhere(A != 0)]
    # stored order: lexicographic rows (what np.unique / from_aggregator produce), first-index-fastest
    # (what find() of a dense tensor produces), either of them reversed, or shuffled
    order = order or (rng.choice(SP_ORDERS) if rng else "lex")
    if order == "lex":
        subs.sort()
    elif order in ("sorted", "colex"):
        subs.sort(key=lambda r: list(reversed(r)))
    elif order == "reversed":
        subs.sort(key=lambda r: list(reversed(r)), reverse=True)
    elif order == "lexrev":
        subs.sort(reverse=True)
    elif rng:
        rng.shuffle(subs)
        if len(subs) > 1 and subs == sorted(subs):   # a shuffle that came out sorted is not a shuffle
            subs[0], subs[-1] = subs[-1], subs[0]
    return {"kind": "sparse", "shape": list(A.shape), "subs": subs, "vals": [int(A[tuple(s)]) for s in subs]}


def h_kruskal(rng, shape, R=None, weights=None, lo=-2, hi=2):
    R = R or rng.randint(1, 3)
    if weights is None:
        weights = weights_of(rng, R)
    return {"kind": "kruskal", "weights": list(weights), "factors": [rand_mat(rng, s, R, 0.15, lo, hi) for s in shape]}


def h_tucker(rng, shape, lo=-2, hi=2, cs=None):
    cs = list(cs) if cs is not None else [rng.randint(1, 3) for _ in shape]
    core = np.array(gen.dense_data(rng, cs, 0.2), dtype=int).reshape(cs, order="F") if cs else np.array(1)
    core = np.clip(core, -3, 3)
    pat = rng.choice(["rand", "rand", "ones", "diag1", "zero", "mixed1"])
    if pat == "ones":
        core = np.ones_like(core)
    elif pat == "zero":
        core = np.zeros_like(core)
    elif pat == "diag1" and cs:
        core = np.zeros_like(core)
        for r in range(min(cs)):
            core[(r,) * len(cs)] = 1
    elif pat == "mixed1" and core.size:
        flat = core.flatten(order="F")
        flat[rng.randrange(flat.size)] = 1
        core = flat.reshape(cs, order="F")
    return {"kind": "tucker", "core": {"shape": cs, "data": [int(x) for x in core.flatten(order="F")]},
            "factors": [rand_mat(rng, s, c, 0.15, lo, hi) for s, c in zip(shape, cs)]}


def tucker_of_kruskal(K):
    R = len(K["weights"])
    N = len(K["factors"])
    cs = [R] * N
    core = np.zeros(cs, dtype=int)
    for r in range(R):
        core[(r,) * N] = K["weights"][r]
    return {"kind": "tucker", "core": {"shape": cs, "data": [int(x) for x in core.flatten(order="F")]},
            "factors": K["factors"]}


def to_array(h):
    """numpy array (F-order semantics) denoted by a holder / canonical result"""
    k = h["kind"]
    if k == "scalar":
        return np.array(h["value"], dtype=object)
    if k == "dense":
        return np.array(h["data"], dtype=object).reshape(tuple(h["shape"]), order="F")
    if k == "vec":
        return np.array(h["data"], dtype=object)
    if k == "sparse":
        A = np.zeros(tuple(h["shape"]), dtype=object)
        for s, v in zip(h["subs"], h["vals"]):
            A[tuple(s)] += v
        return A
    if k == "kruskal":
        shape = [len(f) for f in h["factors"]]
        A = np.zeros(tuple(shape), dtype=object)
        for i in itertools.product(*[range(s) for s in shape]):
            tot = 0
            for r, w in enumerate(h["weights"]):
                p = fnum(w) if isinstance(w, str) else w
                for n, f in enumerate(h["factors"]):
                    p *= f[i[n]][r]
                tot += p
            A[i] = tot
        return A
    if k == "tucker":
        core = to_array({"kind": "dense", **h["core"]})
        shape = [len(f) for f in h["factors"]]
        A = np.zeros(tuple(shape), dtype=object)
        cidx = list(itertools.product(*[range(s) for s in h["core"]["shape"]]))
        for i in itertools.product(*[range(s) for s in shape]):
            tot = 0
            for j in cidx:
                p = core[j]
                if p == 0:
                    continue
                for n, f in enumerate(h["factors"]):
                    p *= f[i[n]][j[n]]
                tot += p
            A[i] = tot
        return A
    if k == "sum":
        return sum(to_array(p) for p in h["parts"])
    raise ValueError(k)


def h_shape(h):
    k = h["kind"]
    if k in ("dense", "sparse"):
        return list(h["shape"])
    if k in ("kruskal", "tucker"):
        return [len(f) for f in h["factors"]]
    return h_shape(h["parts"][0])


def build(h, lay=None):
    """pyttb object for a holder; `lay` = memory layout of the arrays handed to the constructors"""
    k = h["kind"]
    dt = h.get("dtype")   # storage type of the data / vals / core (dtypes family); None = float64
    if k == "dense" and dt:
        a = np.array([int(x) for x in h["data"]], dtype=object).astype(dt).reshape(tuple(h["shape"]), order="F")
        return ttb.tensor(lay_arr(a, lay, 0, np.dtype(dt)), copy=True)
    if k == "dense":
        a = np.array([fl(x) for x in h["data"]], dtype=float).reshape(tuple(h["shape"]), order="F")
        return ttb.tensor(lay_arr(a, lay), copy=True)
    if k == "sparse" and dt and len(h["subs"]):
        vals = np.array([int(x) for x in h["vals"]], dtype=object).astype(dt).reshape(-1, 1)
        return ttb.sptensor(np.array(h["subs"], dtype=int), vals, tuple(h["shape"]))
    if k == "sparse":
        return gen.mk_sptensor(ttb, h["shape"], h["subs"], h["vals"])
    if k == "tucker" and dt:
        core = build({"kind": "dense", "dtype": dt, **h["core"]}, lay)
        fdt = np.dtype(h.get("fdtype") or "float64")
        return ttb.ttensor(core, [lay_arr(np.array(f, dtype=object).astype(fdt).reshape(len(f), c), lay, j, fdt)
                                  for j, (f, c) in enumerate(zip(h["factors"], h["core"]["shape"]))])
    if k == "kruskal":
        R = len(h["weights"])
        fs = [lay_arr(np.array(f, dtype=float).reshape(len(f), R), lay, j) for j, f in enumerate(h["factors"])]
        return ttb.ktensor(fs, np.array([fl(w) for w in h["weights"]], dtype=float))
    if k == "tucker":
        core = build({"kind": "dense", **h["core"]}, lay)
        return ttb.ttensor(core, [lay_arr(np.array(f, dtype=float).reshape(len(f), c), lay, j)
                                  for j, (f, c) in enumerate(zip(h["factors"], h["core"]["shape"]))])
    if k == "sum":
        return ttb.sumtensor([build(p, lay) for p in h["parts"]])
    raise ValueError(k)


def sort_sparse(j):
    pairs = sorted(zip([tuple(r) for r in j["subs"]], range(len(j["subs"]))))
    return {"kind": "sparse", "shape": j["shape"], "subs": [list(p[0]) for p in pairs],
            "vals": [j["vals"][p[1]] for p in pairs]}


def canon(r):
    """canonical JSON of an implementation result"""
    if isinstance(r, (bool, np.bool_, int, np.integer)):
        return {"kind": "scalar", "value": int(r)}
    if isinstance(r, (float, np.floating)):
        return {"kind": "scalar", "value": jval(float(r))}
    if isinstance(r, ttb.tensor):
        return {"kind": "dense", "shape": [int(s) for s in r.shape], "data": jval(np.asarray(r.data).flatten(order="F"))}
    if isinstance(r, ttb.sptensor):
        subs = np.asarray(r.subs)
        vals = np.asarray(r.vals)
        out = sort_sparse({"shape": [int(s) for s in r.shape],
                           "subs": [] if subs.size == 0 else jval(subs.astype(int)),
                           "vals": [] if vals.size == 0 else jval(vals.reshape(-1))})
        if gen.numel(out["shape"]) <= 4096:   # what the implementation itself reads back from the result
            out["_full"] = jval(np.asarray(r.full().data).flatten(order="F"))
        return out
    if isinstance(r, ttb.ktensor):
        return {"kind": "kruskal", "weights": jval(np.asarray(r.weights).reshape(-1)),
                "factors": [jval(np.asarray(f)) for f in r.factor_matrices]}
    if isinstance(r, ttb.ttensor):
        c = canon(r.core)
        if c["kind"] == "sparse":
            core = {k: v for k, v in c.items() if k != "_full"}
        else:
            core = {"shape": c["shape"], "data": c["data"]}
        return {"kind": "tucker", "core": core, "factors": [jval(np.asarray(f)) for f in r.factor_matrices]}
    if isinstance(r, ttb.sumtensor):
        return {"kind": "sum", "parts": [canon(p) for p in r.parts]}
    if isinstance(r, np.ndarray):
        if r.ndim == 0:
            return {"kind": "scalar", "value": jval(r.item())}
        if r.ndim == 1:
            return {"kind": "vec", "data": jval(r)}
        if r.ndim == 2:
            return {"kind": "mat", "rows": jval(r)}
    if isinstance(r, list):
        return [canon(x) for x in r]
    raise TypeError(f"canon: {type(r)}")


def strip_reads(got):
    """remove the read-back side channel from a canonical implementation result; return the complaints:
    a sparse result must store every subscript once and expand to the sum of its stored entries"""
    bad = []
    if isinstance(got, list):
        for g in got:
            bad += strip_reads(g)
    elif isinstance(got, dict):
        if got.get("kind") == "sparse":
            rows = [tuple(r) for r in got["subs"]]
            if len(set(rows)) != len(rows):
                bad.append("a sparse result stores the same subscript more than once")
            full = got.pop("_full", None)
            if full is not None:
                shp, vals = value_of({k: v for k, v in got.items()})
                from harness.lib import jnum, num_eq
                if len(vals) != len(full) or not all(num_eq(a, jnum(b)) for a, b in zip(full, vals)):
                    bad.append("full() of a sparse result differs from the sum of its stored entries")
        elif got.get("kind") == "sum":
            for p_ in got["parts"]:
                bad += strip_reads(p_)
    return bad


def canon_model(m):
    """same canonical form for a model reply"""
    if isinstance(m, list):
        if m and isinstance(m[0], list) and (not m[0] or not isinstance(m[0][0], list)):
            return {"kind": "mat", "rows": m}
        return [canon_model(x) for x in m]
    if isinstance(m, dict) and m.get("kind") == "sparse":
        return sort_sparse(m)
    if isinstance(m, dict) and m.get("kind") == "sum":
        return {"kind": "sum", "parts": [canon_model(p) for p in m["parts"]]}
    if isinstance(m, dict) and m.get("kind") == "tucker":
        if m["core"].get("kind") == "sparse":
            return {"kind": "tucker", "core": sort_sparse(m["core"]), "factors": m["factors"]}
        return {"kind": "tucker", "core": {"shape": m["core"]["shape"], "data": m["core"]["data"]}, "factors": m["factors"]}
    if isinstance(m, dict) and m.get("kind") in ("dense", "kruskal", "scalar", "vec"):
        keys = {"dense": ("kind", "shape", "data"), "kruskal": ("kind", "weights", "factors"),
                "scalar": ("kind", "value"), "vec": ("kind", "data")}[m["kind"]]
        return {k: m[k] for k in keys}
    return m


def value_of(c):
    """(shape, flat F-order list of exact values) denoted by a canonical result"""
    from fractions import Fraction
    from harness.lib import frac
    if isinstance(c, dict) and c.get("kind") == "mat":
        rows = c["rows"]
        A = np.array([[frac(x) for x in row] for row in rows], dtype=object)
        return [len(rows), len(rows[0]) if rows else 0], list(A.flatten(order="F"))
    if c["kind"] in ("scalar",):
        return [], [frac(c["value"])]

    def fr(h):
        if h["kind"] == "dense":
            return {**h, "data": [frac(x) for x in h["data"]]}
        if h["kind"] == "vec":
            return {**h, "data": [frac(x) for x in h["data"]]}
        if h["kind"] == "sparse":
            return {**h, "vals": [frac(x) for x in h["vals"]]}
        if h["kind"] == "kruskal":
            return {**h, "weights": [frac(x) for x in h["weights"]], "factors": [[[frac(x) for x in r] for r in f] for f in h["factors"]]}
        if h["kind"] == "tucker":
            if h["core"].get("kind") == "sparse":
                core = {**h["core"], "vals": [frac(x) for x in h["core"]["vals"]]}
            else:
                core = {"shape": h["core"]["shape"], "data": [frac(x) for x in h["core"]["data"]]}
            return {**h, "core": core, "factors": [[[frac(x) for x in r] for r in f] for f in h["factors"]]}
        if h["kind"] == "sum":
            return {**h, "parts": [fr(p) for p in h["parts"]]}
        return h
    A = to_array(fr(c))
    return list(A.shape), [Fraction(x) for x in A.flatten(order="F")]


def same_value(a, b):
    """exact equality of what two canonical results denote (float impl vs exact spec: rounding rule of lib)"""
    sa, va = value_of(a)
    sb, vb = value_of(b)
    if sa != sb or len(va) != len(vb):
        return False
    from harness.lib import jnum, num_eq
    return all(num_eq(jnum(x), jnum(y)) for x, y in zip(va, vb))


# ----------------------------------------------------------------------------
# mode designations
# ----------------------------------------------------------------------------
def designate(rng, N, sel, conv, mults_by_mode, shuffle=True):
    """-> (mults list, dims, excl) realising the selection `sel` under convention `conv`"""
    sel = sorted(sel)
    rest = [d for d in range(N) if d not in sel]
    if conv == "dimsP":
        listed = list(sel)
        if shuffle and rng is not None:
            rng.shuffle(listed)
        return [mults_by_mode[d] for d in listed], listed, None
    if conv == "dimsN":
        listed = list(sel)
        if shuffle and rng is not None:
            rng.shuffle(listed)
        if len(sel) == N:  # one per listed dim is the reading of tt_dimscheck when both lengths coincide
            listed = list(sel)
        return [mults_by_mode[d] for d in range(N)], listed, None
    if conv == "exP":
        ex = list(rest)
        if shuffle and rng is not None:
            rng.shuffle(ex)
        return [mults_by_mode[d] for d in sel], None, ex
    if conv == "exN":
        ex = list(rest)
        if shuffle and rng is not None:
            rng.shuffle(ex)
        return [mults_by_mode[d] for d in range(N)], None, ex
    if conv == "none":  # all modes, nothing designated
        return [mults_by_mode[d] for d in range(N)], None, None
    raise ValueError(conv)


def subsets(N):
    out = []
    for k in range(1, N + 1):
        out += [list(c) for c in itertools.combinations(range(N), k)]
    return out


CONVS = ["dimsP", "dimsN", "exP", "exN"]


def pick_shape(rng, nmin=1, nmax=4, smax=4):
    s = gen.shape(rng, nmin, nmax, smax)
    while gen.numel(s) > 72:
        s = gen.shape(rng, nmin, nmax, smax)
    return s


def distinct_shape(rng, N, lo=2, hi=5):
    """pairwise distinct extents >= 2 (non-palindromic in every pair of modes)"""
    return rng.sample(range(lo, max(hi, lo + N - 1) + 1), N)


def rand_array(rng, shape, zero_share=0.3, lo=-4, hi=4):
    vals = [0 if rng.random() < zero_share else rng.choice([v for v in range(lo, hi + 1) if v]) for _ in range(gen.numel(shape))]
    return np.array(vals, dtype=int).reshape(tuple(shape), order="F")


def rand_holder(rng, kind, shape):
    if kind == "dense":
        return h_dense(rand_array(rng, shape, rng.choice([0.0, 0.3, 0.6])))
    if kind == "sparse":
        cls = rng.choice(["empty", "one", "few", "half", "many", "all"])
        n = gen.numel(shape)
        k = {"empty": 0, "one": 1, "few": max(1, n // 5), "half": n // 2, "many": (3 * n) // 4, "all": n}[cls]
        k = min(k, n)
        A = np.zeros(n, dtype=int)
        for p in rng.sample(range(n), k):
            A[p] = rng.choice([-4, -3, -2, -1, 1, 2, 3, 4])
        return h_sparse(A.reshape(tuple(shape), order="F"), rng)
    if kind == "kruskal":
        return h_kruskal(rng, shape)
    if kind == "tucker":
        return h_tucker(rng, shape)
    if kind == "sum":
        kinds = [rng.choice(["dense", "sparse", "kruskal", "tucker"]) for _ in range(rng.randint(1, 3))]
        parts = [rand_holder(rng, k, shape) for k in kinds]
        how = rng.random()
        if how < 0.15:      # the same part twice
            parts.append(parts[0])
        elif how < 0.3:     # a part that is identically zero
            parts.append(h_sparse(np.zeros(tuple(shape), dtype=int)))
        elif how < 0.4:     # a Kruskal part with unit weights next to one without
            parts.append(h_kruskal(rng, shape, weights=None))
            parts.append(h_kruskal(rng, shape, R=2, weights=[1, 1]))
        return {"kind": "sum", "parts": parts}
    raise ValueError(kind)


def five_ways(rng, shape):
    """the same array held as dense, sparse, Kruskal, Tucker and sum"""
    R = rng.randint(1, 3)
    w = [x if not isinstance(x, str) else rng.choice([-2, 2, 3]) for x in weights_of(rng, R)]
    K = h_kruskal(rng, shape, R=R, weights=w, lo=-2, hi=2)
    A = to_array(K).astype(int)
    T = tucker_of_kruskal(K)
    D1 = rand_array(rng, shape, 0.5, -2, 2)
    K2 = h_kruskal(rng, shape, R=1, weights=[rng.choice([-1, 1, 2])], lo=-1, hi=1)
    rest = A - D1 - to_array(K2).astype(int)
    S = {"kind": "sum", "parts": [h_dense(D1), K2, h_sparse(rest, rng)]}
    return {"dense": h_dense(A), "sparse": h_sparse(A, rng), "kruskal": K, "tucker": T, "sum": S}


def nonzero_holder(h):
    try:
        return bool(np.any(to_array(h) != 0))
    except Exception:  # noqa: BLE001
        return True


# ----------------------------------------------------------------------------
# one generic family: every case carries "op"
# ----------------------------------------------------------------------------
def arr(v):
    return None if v is None else np.array(v, dtype=int)


def mat_arg(rows):
    return {"rows": rows, "m": len(rows), "n": len(rows[0]) if rows else 0}


def run_impl(c):
    op = c["op"]
    lay = c.get("lay")
    X = build(c["X"], lay) if "X" in c else None
    mdt = np.dtype(c["mdtype"]) if c.get("mdtype") else float   # storage type of vectors / matrices / factors

    def marr(v):
        return np.array(v, dtype=float) if mdt is float else np.array(v, dtype=object).astype(mdt)
    if op == "ttv":
        vlay = c.get("vlay", lay)
        vs = [lay_arr(marr(v), vlay, j, mdt) for j, v in enumerate(c["vs"])]
        kw = {}
        if c["dims"] is not None:
            kw["dims"] = arr(c["dims"])
        if c["excl"] is not None:
            kw["exclude_dims"] = arr(c["excl"])
        if c.get("bare"):   # ONE vector handed over as it is, not inside a list
            return canon(X.ttv(vs[0], **kw))
        return canon(X.ttv(vs, **kw))
    if op == "ttm":
        Ms = [lay_arr(marr(m["rows"]).reshape(m["m"], m["n"]), lay, j, mdt) for j, m in enumerate(c["Ms"])]
        kw = {"transpose": c["tr"]}
        if c["dims"] is not None:
            kw["dims"] = arr(c["dims"])
        if c["excl"] is not None:
            kw["exclude_dims"] = arr(c["excl"])
        if c.get("single"):
            return canon(X.ttm(Ms[0], int(c["dims"][0]), transpose=c["tr"]))
        return canon(X.ttm(Ms, **kw))
    if op in ("mttkrp", "mttkrps"):
        U = c["U"]
        if "kruskal" in U:
            Uo = build({"kind": "kruskal", **U["kruskal"]}, lay)
        else:
            Uo = [lay_arr(marr(f), lay, j, mdt) for j, f in enumerate(U["list"])]
        if op == "mttkrp":
            return canon(np.asarray(X.mttkrp(Uo, c["n"])))
        return [canon(np.asarray(v)) for v in X.mttkrps(Uo)]
    if op == "innerprod":
        return canon(X.innerprod(build(c["Y"], lay)))
    if op == "norm":
        return canon(X.norm())
    if op == "contract":
        return canon(X.contract(c["a"], c["b"]))
    if op == "collapse":
        f = REDUCERS[c["fun"]]
        if c.get("deffun"):   # the reducer the implementation uses when none is given
            return canon(X.collapse() if c["dims"] is None else X.collapse(arr(c["dims"])))
        if c["dims"] is None:
            return canon(X.collapse(fun=f) if c["X"]["kind"] == "dense" else X.collapse(function_handle=f))
        return canon(X.collapse(arr(c["dims"]), f))
    if op == "scale":
        F = c["F"]
        fk = c.get("fk", F["kind"])
        if F["kind"] == "array":
            Fo = lay_arr(marr(F["data"]), lay, 0, mdt)
        elif fk == "ndarray":   # a raw N-d numpy array over the scaled modes, in the requested layout
            Fo = lay_arr(marr(F["data"]).reshape(tuple(F["shape"]), order="F"), lay, 0, mdt)
        else:
            Fo = build(F, lay)
        return canon(X.scale(Fo, arr(c["dims"])))
    if op == "ttt":
        Y = build(c["Y"], lay)
        if not c["xd"] and c.get("outer"):
            return canon(X.ttt(Y))
        return canon(X.ttt(Y, arr(c["xd"]), arr(c["yd"])))
    if op == "full":
        return canon(X.full())
    if op == "mask":
        return {"kind": "vec", "data": jval(np.asarray(X.mask(build(c["W"], lay))).reshape(-1))}
    if op == "reconstruct":
        if c["samples"] is None:
            return canon(X.reconstruct())
        samples = []
        for j, smp in enumerate(c["samples"]):
            if "idx" in smp:
                samples.append(np.array(smp["idx"], dtype=int))
            else:
                samples.append(lay_arr(marr(smp["rows"]).reshape(smp["m"], smp["n"]), lay, j, mdt))
        if c["modes"] is None:
            return canon(X.reconstruct(samples))
        return canon(X.reconstruct(samples, list(c["modes"])))
    if op == "ttsv":
        xconv = c.get("xconv", "array")
        x = [float(fnum(v)) for v in c["x"]]
        if mdt is not float:      # dtypes family: the vector is stored in a narrow type
            xo = marr(c["x"])
        elif xconv == "array":
            xo = lay_arr(np.array(x, dtype=float), lay if lay in ("C", "F", "strided") else "C")
        elif xconv in ("col", "row"):
            xo = lay_arr(np.array(x, dtype=float), xconv)
        elif xconv == "tuple":
            xo = tuple(x)
        else:
            xo = list(x)
        args, kw = [xo], {}
        if c["skip"] is not None:
            if c.get("skip_pos"):
                args.append(c["skip"])
            else:
                kw["skip_dim"] = c["skip"]
        if c["ver"] != "none":
            kw["version"] = int(c["ver"])
        return canon(X.ttsv(*args, **kw))
    if op == "tucker_sp":
        if c["what"] == "full":
            return canon(X.full())
        if c["what"] == "norm":
            return canon(X.norm())
        if c["what"] == "innerprod":
            Y = build(c["Y"], lay)
            return canon(Y.innerprod(X) if c.get("rev") else X.innerprod(Y))
        if c["what"] == "mttkrp":
            U = c["U"]
            if "kruskal" in U:
                Uo = build({"kind": "kruskal", **U["kruskal"]}, lay)
            else:
                Uo = [lay_arr(np.array(f, dtype=float), lay, j) for j, f in enumerate(U["list"])]
            return canon(np.asarray(X.mttkrp(Uo, c["n"])))
        vs = [lay_arr(np.array(v, dtype=float), lay, j) for j, v in enumerate(c["vs"])]
        kw = {}
        if c["dims"] is not None:
            kw["dims"] = arr(c["dims"])
        if c["excl"] is not None:
            kw["exclude_dims"] = arr(c["excl"])
        return canon(X.ttv(vs, **kw))
    raise ValueError(op)


def request(c):
    op = c["op"]
    r = {k: v for k, v in c.items() if k not in ("op", "valid", "tag", "single", "outer", "lay", "vlay", "fk", "mdtype", "dt", "deffun", "bare",
                                                "xconv", "skip_pos", "Yd")}
    if r.get("rev") is not True:
        r.pop("rev", None)
    r["op"] = "c02_" + op
    if op == "ttm":
        pass
    return r


class C02Family(Family):
    """shared evaluation: impl vs spec (the property) and impl vs model (correspondence)"""

    def evaluate(self, cases):
        impls = [call(run_impl, c) for c in cases]
        replies = drive([request(c) for c in cases])
        out = []
        for c, impl, rep in zip(cases, impls, replies):
            out.append(self.judge(c, impl, rep))
        return out

    def judge(self, c, impl, rep):
        op = c["op"]
        kind = c["X"]["kind"] if "X" in c else "-"
        tags = [op, f"{op}:{kind}", f"N{len(h_shape(c['X']))}"] + list(c.get("tag", []))
        model, spec = rep["model"], rep["spec"]
        m_rej = isinstance(model, dict) and model.get("reject") is True
        i_rej = "ok" not in impl
        valid = c.get("valid", True)
        if not valid:
            tags.append("malformed")
            ok = (i_rej == m_rej)
            return Verdict("ok" if ok else "corr", "" if ok else "acceptance of a malformed request differs from the model",
                           impl, model, None, tags, False)
        if i_rej:
            return Verdict("violation", f"{op} raised on a valid request: {impl.get('exc')}: {impl.get('msg')}",
                           impl, model, spec, tags + ["raised"])
        got = impl["ok"]
        for o in sorted(set(sparse_orders_of(c["X"]))) if "X" in c else []:
            tags.append(f"stored:{o}")
        reads_bad = strip_reads(got)
        if reads_bad:
            return Verdict("violation", f"{op} on a {kind} holder: {reads_bad[0]}", impl, model, spec, tags + ["bad-sparse-result"])
        mval = canon_model(model["ok"]) if not m_rej else None
        sval = canon_model(spec)
        if op == "tucker_sp" and c["what"] in ("norm", "innerprod", "mttkrp"):
            op = c["what"]      # judged like the plain operation; the tags keep "tucker_sp"
            kind = "tucker(sparse core)"
        if op == "norm":
            # the implementation returns sqrt(normSq) (ktensor: sqrt(abs(.)))
            from harness.lib import frac
            s = frac(sval) if not isinstance(sval, dict) else frac(sval["value"])
            want = math.sqrt(float(s))
            gv = float(frac(got["value"]))
            ok_spec = (gv == want) or abs(gv - want) <= 1e-12 * max(1.0, want)
            ok_model = (not m_rej) and frac(mval) == s
            exact = gv == want
            tags.append("exact" if exact else "rounded")
        elif op == "mttkrps":
            ok_spec = len(got) == len(sval) and all(same_value(g, s) for g, s in zip(got, sval))
            ok_model = (not m_rej) and deep_eq(got, mval)
        elif op == "mask":
            from harness.lib import num_eq as _ne
            ok_spec = len(got["data"]) == len(sval) and all(_ne(a, b) for a, b in zip(got["data"], sval))
            ok_model = (not m_rej) and len(got["data"]) == len(mval) and all(_ne(a, b) for a, b in zip(got["data"], mval))
            tags.append(f"mask:{c['W']['kind']}")
        elif op in ("innerprod",):
            sv = {"kind": "scalar", "value": sval}
            ok_spec = same_value(got, sv)
            ok_model = (not m_rej) and same_value(got, {"kind": "scalar", "value": mval})
        else:
            ok_spec = same_value(got, sval)
            ok_model = (not m_rej) and deep_eq(got, mval)
            if isinstance(got, dict):
                tags.append(f"{op}->{got['kind']}")
        nt = nonzero_holder(c["X"])
        if not ok_spec:
            return Verdict("violation", f"{op} on a {kind} holder differs from the sum over indices", impl, model, spec, tags, nt)
        if not ok_model:
            return Verdict("corr", f"{op} on a {kind} holder differs from the model", impl, model, spec, tags, nt)
        return Verdict("ok", "", impl, model, spec, tags, nt)

    def shrink(self, case):
        return []


def vec(rng, n, zero_share=0.15):
    return [0 if rng.random() < zero_share else rng.choice([-3, -2, -1, 1, 2, 3]) for _ in range(n)]


def spec_sel(N, mults, dims, excl, conv, sel):
    """(sel sorted, multiplicands in sel order) – computed from the convention, not from pyttb"""
    sel = sorted(sel)
    return sel


class TtvFam(C02Family):
    name = "ttv"
    theorems = ("C02_ttv_dense", "C02_ttv_dense_dims", "C02_ttv_sparse", "C02_ttv_sparse_dims", "C02_ttv_spec_set",
                "C02_dims_any_order", "C02_exclude_dims", "C02_list_len_P", "C02_list_len_N_vs_P",
                "C02_ttv_kruskal_rejects_repeated_mode", "C02_sum_rejects")

    def case(self, rng, X, sel, conv, shuffle=True, tag=()):
        shape = h_shape(X)
        N = len(shape)
        byMode = {d: vec(rng, shape[d]) for d in range(N)}
        vs, dims, excl = designate(rng, N, sel, conv, byMode, shuffle)
        sel = sorted(sel)
        c = {"op": "ttv", "X": X, "vs": vs, "dims": dims, "excl": excl, "sel": sel, "ws": [byMode[d] for d in sel],
             "tag": [conv, f"sel{len(sel)}of{N}"] + list(tag)}
        if X["kind"] == "kruskal" and rng.random() < 0.5:   # ktensor.ttv also takes column / row arrays
            c["vlay"] = rng.choice(["col", "row"])
            c["tag"].append(f"vec:{c['vlay']}")
        return c

    def gen(self, rng, tier):
        out = []
        kinds = ["dense", "sparse", "kruskal", "tucker", "sum"]
        nmax_enum = 3 if tier == "quick" else 4
        # enumerated subsets x conventions
        for N in range(1, nmax_enum + 1):
            reps = 1 if tier == "quick" else 2
            for _ in range(reps):
                for kind in kinds:
                    shape = pick_shape(rng, N, N)
                    for sel in subsets(N):
                        convs = CONVS if (tier == "thorough" or N <= 2) else rng.sample(CONVS, 2)
                        for conv in convs:
                            if conv.startswith("ex") and len(sel) == N and rng.random() < 0.5:
                                conv2 = "none"
                            else:
                                conv2 = conv
                            X = rand_holder(rng, kind, shape)
                            out.append(self.case(rng, X, sel, conv2))
        # random N = 4 in quick
        if tier == "quick":
            for _ in range(20):
                shape = pick_shape(rng, 4, 4, 3)
                X = rand_holder(rng, rng.choice(kinds), shape)
                out.append(self.case(rng, X, rng.choice(subsets(4)), rng.choice(CONVS)))
        # the 50 % switch of the sparse code, hit on purpose: exactly k result cells are non-zero.
        # ALWAYS one case per (result kind: vector / multiway) x (fill below / at / just above / full / none)
        # x (contracted modes leading / trailing / in the middle), each result cell fed by SEVERAL stored entries
        # that are not adjacent in the stored order, stored in every order; then random ones.
        plans = []
        for shape, sel in (([3, 4], [0]), ([4, 3], [1]), ([2, 3, 4], [2]), ([2, 4, 3], [0]), ([3, 2, 4], [1]),
                           ([2, 2, 3, 2], [2, 3]), ([2, 3, 2, 2], [0, 1]), ([2, 3, 4], [1, 2]), ([4, 2, 3], [0, 2])):
            rem_ = [d for d in range(len(shape)) if d not in sel]
            total_ = gen.numel([shape[d] for d in rem_])
            for k_ in sorted({0, 1, total_ // 2, total_ // 2 + 1, total_}):
                plans.append((shape, sel, k_))
        if tier == "quick":
            plans = plans[::2] + rng.sample(plans[1::2], 6)
        nsw = 15 if tier == "quick" else 150
        for it in range(len(plans) + nsw):
            if it < len(plans):
                shape, sel, kfix = plans[it]
                shape, sel = list(shape), list(sel)
                N = len(shape)
            else:
                kfix = None
                N = rng.randint(2, 4)
                shape = pick_shape(rng, N, N)
                sel = rng.choice([s for s in subsets(N) if len(s) < N])
            rem = [d for d in range(N) if d not in sel]
            rshape = [shape[d] for d in rem]
            cells = gen.all_subs(rshape)
            total = len(cells)
            k = kfix if kfix is not None else rng.choice(
                sorted({0, 1, total // 2, min(total, total // 2 + 1), max(0, (total - 1) // 2), total}))
            A = np.zeros(tuple(shape), dtype=int)
            pool = cells
            edge = rng.choice(["any", "last-empty", "first-empty"]) if kfix is None else "any"
            if edge == "last-empty" and k < total:      # trailing result cells stay empty (length inferred from data?)
                pool = cells[:-1]
            elif edge == "first-empty" and k < total:
                pool = cells[1:]
            for cell in rng.sample(pool, min(k, len(pool))):
                full = [0] * N
                for d, x in zip(rem, cell):
                    full[d] = x
                # several stored entries per result cell (positive vectors and values: no cancellation)
                selcells = gen.all_subs([shape[d] for d in sel])
                for sc in rng.sample(selcells, min(len(selcells), rng.randint(1, 3))):
                    for d, x in zip(sel, sc):
                        full[d] = x
                    A[tuple(full)] = rng.choice([1, 2, 3])
            X = h_sparse(A, rng, order=SP_ORDERS[it % len(SP_ORDERS)])
            c = self.case(rng, X, sel, rng.choice(CONVS),
                          tag=[f"fill:{'lt' if 2*k < total else ('eq' if 2*k == total else 'gt')}",
                               "res:vector" if len(rem) == 1 else "res:multiway",
                               "sel:trailing" if sel == list(range(N - len(sel), N)) else
                               ("sel:leading" if sel == list(range(len(sel))) else "sel:inner")])
            # vectors without zeros so that the fill is exactly k
            shp = shape
            byMode = {d: [rng.choice([1, 2, 3]) for _ in range(shp[d])] for d in range(N)}
            vs, dims, excl = designate(rng, N, sel, "dimsP", byMode, True)
            c.update({"vs": vs, "dims": dims, "excl": excl, "ws": [byMode[d] for d in sorted(sel)]})
            out.append(c)
        # malformed
        for _ in range(10 if tier == "quick" else 40):
            shape = pick_shape(rng, 2, 3)
            N = len(shape)
            X = rand_holder(rng, rng.choice(kinds), shape)
            sel = rng.choice(subsets(N))
            c = self.case(rng, X, sel, "dimsP", shuffle=False)
            how = rng.choice(["size", "both", "count", "repeated"])
            if how == "size":
                c["vs"][0] = c["vs"][0] + [1]
            elif how == "both":
                c["excl"] = [0]
            elif how == "repeated":     # a mode listed twice, with a vector of the right length for each listing
                d0 = c["dims"][0]
                c["dims"] = list(c["dims"]) + [d0]
                c["vs"] = list(c["vs"]) + [list(c["vs"][0])]
                c["tag"] = list(c["tag"]) + ["bad:repeated-mode"]
            else:
                if len(c["vs"]) + 1 == N:
                    c["vs"] = c["vs"] + [[1]] + [[1]]
                else:
                    c["vs"] = c["vs"] + [[1]]
                if len(c["vs"]) in (len(sel), N):
                    continue
            c["valid"] = False
            out.append(c)
        return with_layouts(rng, out)


class TtmFam(C02Family):
    name = "ttm"
    theorems = ("C02_ttm_dense_mode", "C02_ttm_dense", "C02_ttm_spec_peel", "C02_ttm_sparse_mode", "C02_ttm_sparse",
                "C02_ttm_sparse_eq_dense", "C02_ttm_tucker", "C02_dims_any_order", "C02_exclude_dims",
                "C02_list_len_P", "C02_list_len_N_vs_P", "C02_ttm_tucker_rejects")

    def case(self, rng, X, sel, conv, tr, single=False):
        shape = h_shape(X)
        N = len(shape)
        byMode = {}
        for d in range(N):
            p = rng.randint(1, 3)
            byMode[d] = mat_arg(rand_mat(rng, shape[d], p) if tr else rand_mat(rng, p, shape[d]))
        Ms, dims, excl = designate(rng, N, sel, conv, byMode, True)
        sel = sorted(sel)
        c = {"op": "ttm", "X": X, "Ms": Ms, "dims": dims, "excl": excl, "tr": tr, "sel": sel,
             "msel": [byMode[d] for d in sel], "tag": [conv, "T" if tr else "plain", f"sel{len(sel)}of{N}"]}
        if single:
            c["single"] = True
            c["tag"].append("single")
        return c

    def gen(self, rng, tier):
        out = []
        kinds = ["dense", "sparse", "tucker"]
        nmax_enum = 3 if tier == "quick" else 4
        for N in range(1, nmax_enum + 1):
            for kind in kinds:
                shape = pick_shape(rng, N, N, 3 if N == 4 else 4)
                for sel in subsets(N):
                    convs = CONVS if tier == "thorough" else rng.sample(CONVS, 2)
                    for conv in convs:
                        conv2 = "none" if (conv.startswith("ex") and len(sel) == N and rng.random() < 0.5) else conv
                        for tr in ((False, True) if tier == "thorough" else (rng.random() < 0.5,)):
                            out.append(self.case(rng, rand_holder(rng, kind, shape), sel, conv2, tr))
                for n in range(N):
                    out.append(self.case(rng, rand_holder(rng, kind, shape), [n], "dimsP", rng.random() < 0.5,
                                         single=(kind != "tucker")))
        if tier == "quick":
            for _ in range(12):
                shape = pick_shape(rng, 4, 4, 3)
                out.append(self.case(rng, rand_holder(rng, rng.choice(kinds), shape), rng.choice(subsets(4)),
                                     rng.choice(CONVS), rng.random() < 0.5))
        for _ in range(6 if tier == "quick" else 30):  # malformed: wrong matrix size
            shape = pick_shape(rng, 2, 3)
            c = self.case(rng, rand_holder(rng, rng.choice(kinds), shape), rng.choice(subsets(len(shape))), "dimsP", False)
            m = c["Ms"][0]
            m["rows"] = [r + [1] for r in m["rows"]]
            m["n"] += 1
            c["valid"] = False
            out.append(c)
        return with_layouts(rng, out)


def k_operand(rng, shape, as_kruskal, R=None, weights=None, pattern=None):
    """operand of an mttkrp: factor list, or Kruskal tensor whose weights follow `pattern`
    (all ones / none one / ones mixed with others / with zeros / negative / fractional)"""
    if as_kruskal and weights is None:
        pattern = pattern or rng.choice(WEIGHT_PATTERNS)
        R = R or (rng.randint(2, 3) if pattern in ("mixed1", "zero") else rng.randint(1, 3))
        weights = weights_of(rng, R, pattern)
    R = R or (len(weights) if weights else rng.randint(1, 3))
    fs = [rand_mat(rng, s, R) for s in shape]
    if as_kruskal:
        return {"kruskal": {"weights": weights, "factors": fs}}, fs, weights
    return {"list": fs}, fs, [1] * R


def with_layouts(rng, cases):
    """every case gets a memory layout for its array operands (the model is layout-free)"""
    for c in cases:
        if "lay" not in c:
            c["lay"] = rng.choice(["C", "F", "strided", "T", "mix"])
            c.setdefault("tag", [])
            c["tag"] = list(c["tag"]) + [f"lay:{c['lay']}"]
    return cases


class MttkrpFam(C02Family):
    name = "mttkrp"
    theorems = ("C02_mttkrp_dense", "C02_mttkrp_dense_kruskal", "C02_mttkrp_weights_spec", "C02_mttkrp_sparse",
                "C02_mttkrp_parts", "C02_mttkrp_parts_kruskal_eq_list", "C02_mttkrp_sum", "C02_mttkrp_sum_kruskal",
                "C02_get_mttkrp_factors_rejects", "C02_mttkrp_parts_rejects", "C02_mttkrp_tucker_rejects", "C02_sum_rejects")

    def gen(self, rng, tier):
        out = []
        kinds = ["dense", "sparse", "kruskal", "tucker", "sum"]
        reps = 2 if tier == "quick" else 10
        pat = 0
        for N in range(2, 5):
            for kind in kinds:
                for _ in range(reps):
                    shape = pick_shape(rng, N, N, 3 if N == 4 else 4)
                    for n in range(N):
                        for ask in (False, True):
                            # every weight pattern comes round for every holder kind and branch
                            pattern = WEIGHT_PATTERNS[pat % len(WEIGHT_PATTERNS)]
                            pat += int(ask)
                            U, fs, lam = k_operand(rng, shape, ask, pattern=pattern)
                            br = "first" if n == 0 else ("last" if n == N - 1 else "middle")
                            out.append({"op": "mttkrp", "X": rand_holder(rng, kind, shape), "U": U, "n": n, "fs": fs,
                                        "lam": lam, "tag": [br] + ([f"kruskalU", f"w:{pattern}"] if ask else ["listU"])})
        for _ in range(3 if tier == "quick" else 20):  # malformed: a factor with the wrong number of rows
            shape = pick_shape(rng, 2, 3)
            U, fs, lam = k_operand(rng, shape, False)
            n = rng.randrange(len(shape))
            m = (n + 1) % len(shape)
            U["list"][m] = U["list"][m] + [U["list"][m][0]]
            out.append({"op": "mttkrp", "X": rand_holder(rng, rng.choice(kinds), shape), "U": U, "n": n, "fs": fs,
                        "lam": lam, "valid": False})
        for _ in range(4 if tier == "quick" else 30):  # malformed: n is not a mode / a list with one factor too many or too few
            shape = pick_shape(rng, 2, 3)
            N = len(shape)
            ask = rng.random() < 0.4
            U, fs, lam = k_operand(rng, shape, ask)
            kind = rng.choice(kinds)
            how = rng.choice(["mode", "count"])
            if how == "mode":
                n = N + rng.choice([0, 1])
            else:
                n = rng.randrange(N)
                key = "kruskal" if ask else "list"
                L = U[key]["factors"] if ask else U[key]
                if rng.random() < 0.5:
                    L.append([list(r) for r in L[-1]])
                else:
                    L.pop()
            out.append({"op": "mttkrp", "X": rand_holder(rng, kind, shape), "U": U, "n": n, "fs": fs, "lam": lam,
                        "valid": False, "tag": [f"bad:{how}"]})
        return with_layouts(rng, out)


class MttkrpsFam(C02Family):
    name = "mttkrps"
    theorems = ("C02_mttkrps_dense_at", "C02_min_split_bound", "C02_mttkrps_dense", "C02_mttkrps_dense_kruskal")

    def gen(self, rng, tier):
        out = []

        def add(shape, ask, tag):
            # distinct-looking factors: no zeros, R >= 2, so that a wrong Khatri-Rao order cannot cancel
            R = rng.randint(2, 3)
            fs = [gen.matrix(rng, s_, R, -3, 3, 0.0) for s_ in shape]
            if ask:
                w = weights_of(rng, R, rng.choice(["none1", "mixed1", "neg", "frac"]))
                U, lam = {"kruskal": {"weights": w, "factors": fs}}, w
            else:
                U, lam = {"list": fs}, [1] * R
            A = rand_array(rng, shape, 0.1, -3, 3)
            out.append({"op": "mttkrps", "X": h_dense(A), "U": U, "fs": fs, "lam": lam,
                        "tag": ["kruskalU" if ask else "listU", f"N{len(shape)}", f"split{min_split_rule(shape)}"] + tag})

        # ALWAYS: every outcome of the split decision for every order 3..6 (extents kept small for 5 and 6),
        # i.e. partial products that contract 0, 1, 2, ... modes at once on either side of the split
        for N, cells, smax in ((3, 120, 7), (4, 200, 7), (5, 200, 4), (6, 260, 3)):
            table = shapes_by_split(N, cells, smax)
            for split in sorted(table):
                cands = [sh for sh in table[split] if len(set(sh)) > 1] or table[split]
                picks = rng.sample(cands, min(len(cands), 1 if tier == "quick" else 3))
                for shape in picks:
                    for ask in (False, True):
                        add(shape, ask, ["enumerated"])
        # the lopsided 4-way shapes named in the code's own comment plus singleton-mode variants
        for shape in ([6, 4, 3, 2], [7, 2, 3, 2], [2, 2, 3, 5], [2, 3, 2, 7], [1, 2, 3, 4], [4, 1, 1, 3], [2, 2, 2, 2, 2],
                      [2, 1, 2, 3, 2], [2, 2, 1, 2, 2, 2]):
            add(shape, rng.random() < 0.5, ["fixed"])
        for _ in range(12 if tier == "quick" else 150):
            shape = pick_shape(rng, 2, 4, 4)
            add(shape, rng.random() < 0.5, ["sampled"])
        return with_layouts(rng, out)


class InnerFam(C02Family):
    name = "innerprod"
    theorems = ("C02_innerprod_dense", "C02_innerprod_sparse_sparse", "C02_innerprod_sparse_dense",
                "C02_norm_dense", "C02_norm_sparse", "C02_innerprod_parts_rejects")

    def gen(self, rng, tier):
        out = []
        xk = ["dense", "sparse", "kruskal", "tucker", "sum"]
        yk = ["dense", "sparse", "kruskal", "tucker"]
        reps = 2 if tier == "quick" else 12
        for _ in range(reps):
            for a in xk:
                for b in yk:
                    shape = pick_shape(rng, 1, 4, 4 if tier == "thorough" else 3)
                    out.append({"op": "innerprod", "X": rand_holder(rng, a, shape), "Y": rand_holder(rng, b, shape),
                                "tag": [f"{a}x{b}"]})
        # the size switches of the Tucker code, ONE CASE PER OUTCOME: tensor smaller / equal / larger than the
        # core (innerprod with a dense or sparse tensor, norm), first core larger / equal / smaller than the
        # second (innerprod of two Tucker tensors)
        for shape, cs, tagv in (([2, 2], [3, 3], "tensor<core"), ([2, 3], [2, 3], "tensor=core"), ([3, 4], [2, 2], "tensor>core"),
                                ([2, 1, 2], [2, 3, 1], "tensor<core"), ([3, 2, 2], [1, 2, 2], "tensor>core")):
            for yk_ in ("dense", "sparse", "kruskal"):
                T = h_tucker(rng, shape, cs=cs)
                out.append({"op": "innerprod", "X": T, "Y": rand_holder(rng, yk_, shape), "tag": ["switch:" + tagv]})
                out.append({"op": "innerprod", "X": rand_holder(rng, yk_, shape), "Y": T, "tag": ["switch:" + tagv, "reversed"]})
            out.append({"op": "norm", "X": h_tucker(rng, shape, cs=cs), "tag": ["switch:" + tagv]})
        for shape, c1, c2, tagv in (([3, 3], [3, 2], [2, 2], "core1>core2"), ([3, 3], [2, 2], [2, 2], "core1=core2"),
                                    ([3, 2, 2], [1, 2, 1], [2, 2, 2], "core1<core2")):
            out.append({"op": "innerprod", "X": h_tucker(rng, shape, cs=c1), "Y": h_tucker(rng, shape, cs=c2),
                        "tag": ["switch:" + tagv]})
        for _ in range(6 if tier == "quick" else 40):
            shape = [rng.randint(1, 2) for _ in range(rng.randint(1, 3))]
            T = h_tucker(rng, shape)
            out.append({"op": "innerprod", "X": T, "Y": rand_holder(rng, rng.choice(yk), shape), "tag": ["smallshape"]})
            out.append({"op": "norm", "X": T, "tag": ["smallshape"]})
        for _ in range(reps * 3):
            for a in ["dense", "sparse", "kruskal", "tucker"]:
                shape = pick_shape(rng, 1, 4, 3)
                out.append({"op": "norm", "X": rand_holder(rng, a, shape)})
        # malformed: shapes differ
        for _ in range(4 if tier == "quick" else 20):
            shape = pick_shape(rng, 2, 3)
            s2 = list(shape)
            s2[0] += 1
            out.append({"op": "innerprod", "X": rand_holder(rng, rng.choice(yk), shape),
                        "Y": rand_holder(rng, rng.choice(yk), s2), "valid": False})
        return with_layouts(rng, out)


class ContractCollapseScaleFam(C02Family):
    name = "contract_collapse_scale"
    theorems = ("C02_contract_dense", "C02_contract_sparse", "C02_collapse_dense", "C02_collapse_sparse",
                "C02_collapse_sum_ok", "C02_scale_dense", "C02_scale_sparse")

    def gen(self, rng, tier):
        out = []
        reps = 1 if tier == "quick" else 5
        for _ in range(reps):
            for kind in ("dense", "sparse"):
                # contract: every ordered pair of equal-extent modes
                for N in range(2, 5):
                    shape = pick_shape(rng, N, N, 3)
                    a, b = rng.sample(range(N), 2)
                    shape[b] = shape[a]
                    for (p, q) in itertools.permutations(range(N), 2):
                        if shape[p] == shape[q]:
                            out.append({"op": "contract", "X": rand_holder(rng, kind, shape), "a": p, "b": q})
                    out.append({"op": "contract", "X": rand_holder(rng, kind, shape), "a": a, "b": a, "valid": False})
                    if N > 2:
                        s2 = list(shape)
                        s2[b] = s2[a] + 1
                        out.append({"op": "contract", "X": rand_holder(rng, kind, s2), "a": a, "b": b, "valid": False})
                # contract: the densify switch of the sparse code, ONE CASE PER OUTCOME (fill of the result below /
                # at / above 50 %, nothing on the diagonal), several diagonal entries per result cell, every stored order
                if kind == "sparse":
                    for shape, (p_, q_) in (([2, 3, 2], (0, 2)), ([3, 3, 4], (1, 0)), ([2, 2, 2, 3], (0, 1)), ([3, 2, 3, 2], (2, 0))):
                        rem_ = [d for d in range(len(shape)) if d not in (p_, q_)]
                        cells_ = gen.all_subs([shape[d] for d in rem_])
                        for k_ in sorted({0, 1, len(cells_) // 2, len(cells_) // 2 + 1, len(cells_)}):
                            A = np.zeros(tuple(shape), dtype=int)
                            for cell in rng.sample(cells_, k_):
                                for dg in rng.sample(range(shape[p_]), rng.randint(1, shape[p_])):
                                    idx = [0] * len(shape)
                                    for d, x in zip(rem_, cell):
                                        idx[d] = x
                                    idx[p_] = idx[q_] = dg
                                    A[tuple(idx)] = rng.choice([1, 2, 3])
                            for _ in range(2):  # off-diagonal clutter
                                idx = [rng.randrange(e) for e in shape]
                                if idx[p_] != idx[q_]:
                                    A[tuple(idx)] = rng.choice([-2, 2])
                            fill = "lt" if 2 * k_ < len(cells_) else ("eq" if 2 * k_ == len(cells_) else "gt")
                            out.append({"op": "contract", "X": h_sparse(A, rng, order=SP_ORDERS[(k_ + len(out)) % len(SP_ORDERS)]),
                                        "a": p_, "b": q_, "tag": [f"fill:{fill}"]})
                # collapse: every subset, sorted / shuffled / default
                for N in range(1, 5 if tier == "thorough" else 4):
                    shape = distinct_shape(rng, N, 2, 4) if N <= 3 else pick_shape(rng, N, N, 3)
                    for sel in subsets(N):
                        for fn in (["sum"] + rng.sample(["sumsq", "sumabs", "count", "max", "min", "prod"], 2 if tier == "quick" else 6)):
                            dims = list(sel)
                            rng.shuffle(dims)
                            if len(sel) == N and rng.random() < 0.5:
                                dims = None
                            X = rand_holder(rng, kind, shape)
                            out.append({"op": "collapse", "X": X, "dims": dims, "fun": fn, "sel": sorted(sel),
                                        "tag": [fn, f"sel{len(sel)}of{N}"]})
                # scale: every non-empty subset of modes, distinct extents (so that a C-order / F-order or a
                # mode-order slip cannot cancel), every accepted kind of factor, every memory layout
                for N in range(1, 5 if tier == "thorough" else 4):
                    shape = distinct_shape(rng, N)
                    for sel in subsets(N):
                        fshape = [shape[d] for d in sel]
                        plans = [("tensor", None)]
                        if kind == "sparse":
                            plans.append(("sptensor", None))
                        if len(sel) == 1:
                            plans += [("array", "C"), ("array", "strided")]
                        if kind == "dense":   # raw N-d ndarray factors (1-d for a single mode)
                            lays = ["C", "F", "strided", "T"]
                            k0 = rng.randrange(4)
                            plans += [("ndarray", "C"), ("ndarray", lays[1 + k0 % 3])]
                            if tier == "thorough":
                                plans += [("ndarray", l) for l in lays]
                        for fk, flay in plans:
                            FA = rand_array(rng, fshape, 0.2)
                            if fk == "sptensor":
                                F = h_sparse(FA, rng)
                            elif fk == "array":
                                F = {"kind": "array", "data": [int(x) for x in FA]}
                            else:
                                F = h_dense(FA)
                            dims = list(sel)
                            rng.shuffle(dims)
                            c = {"op": "scale", "X": rand_holder(rng, kind, shape), "F": F, "dims": dims, "fk": fk,
                                 "sel": sorted(sel), "tag": [f"F:{fk}", f"sel{len(sel)}of{N}", f"Fmodes{min(len(sel), 2)}"]}
                            if flay:
                                c["lay"] = flay
                                c["tag"].append(f"Flay:{flay}")
                            out.append(c)
                    # malformed factor shape
                    FA = rand_array(rng, [shape[0] + 1], 0.2)
                    out.append({"op": "scale", "X": rand_holder(rng, kind, shape), "F": h_dense(FA), "dims": [0], "sel": [0],
                                "valid": False})
        return with_layouts(rng, out)


class TttFam(C02Family):
    name = "ttt"
    theorems = ("C02_ttt_dense",)

    def gen(self, rng, tier):
        out = []
        for _ in range(40 if tier == "quick" else 400):
            s1 = pick_shape(rng, 1, 3 if tier == "quick" else 4, 3)
            s2 = pick_shape(rng, 1, 3, 3)
            k = rng.randint(0, min(len(s1), len(s2)))
            xd = rng.sample(range(len(s1)), k)
            yd = rng.sample(range(len(s2)), k)
            for a, b in zip(xd, yd):
                s2[b] = s1[a]
            c = {"op": "ttt", "X": rand_holder(rng, "dense", s1), "Y": rand_holder(rng, "dense", s2), "xd": xd, "yd": yd,
                 "tag": [f"common{k}", "scalar" if (k == len(s1) == len(s2)) else ("outer" if k == 0 else "partial")]}
            if k == 0 and rng.random() < 0.5:
                c["outer"] = True
            out.append(c)
        for _ in range(4 if tier == "quick" else 20):
            s1 = pick_shape(rng, 2, 3, 3)
            s2 = list(s1)
            s2[0] += 1
            out.append({"op": "ttt", "X": rand_holder(rng, "dense", s1), "Y": rand_holder(rng, "dense", s2), "xd": [0], "yd": [0],
                        "valid": False})
        # repeated extents (added after seed C02u): with pairwise distinct extents the pairing of contracted modes is
        # forced by the sizes, so a wrong pairing can only be rejected; with repeated extents every ordered pairing of
        # equal-sized modes is a different, valid request.  Enumerated: operands of equal shape, of permuted shape and
        # with one extra mode, every ordered k-subset pairing whose extents match (sampled down in the quick tier).
        import itertools
        pairs = []
        for s1 in ([3, 3], [2, 2], [3, 3, 2], [2, 3, 2], [2, 2, 2], [3, 3, 3], [2, 3, 3], [2, 2, 2, 2], [2, 3, 2, 3]):
            n = len(s1)
            others = [list(s1), list(reversed(s1)), list(s1) + [2], [s1[-1]] + list(s1[:-1])]
            seen = set()
            for s2 in others:
                if tuple(s2) in seen:
                    continue
                seen.add(tuple(s2))
                for k in range(1, min(n, len(s2)) + 1):
                    for xd in itertools.permutations(range(n), k):
                        for yd in itertools.permutations(range(len(s2)), k):
                            if all(s1[a] == s2[b] for a, b in zip(xd, yd)):
                                pairs.append((s1, s2, list(xd), list(yd)))
        # keep the requests in which the two lists are NOT the same ordering (the everyday ones are covered above)
        crossed = [p for p in pairs if p[2] != p[3]]
        full = [p for p in crossed if len(p[2]) == len(p[0]) == len(p[1])]
        part = [p for p in crossed if p not in full]
        if tier == "quick":
            full = rng.sample(full, min(len(full), 60))
            part = rng.sample(part, min(len(part), 60))
        else:
            full = rng.sample(full, min(len(full), 600))
            part = rng.sample(part, min(len(part), 600))
        for s1, s2, xd, yd in full + part:
            k = len(xd)
            out.append({"op": "ttt", "X": rand_holder(rng, "dense", list(s1)), "Y": rand_holder(rng, "dense", list(s2)),
                        "xd": xd, "yd": yd,
                        "tag": [f"common{k}", "repeated-extents",
                                "scalar" if (k == len(s1) == len(s2)) else "partial",
                                "same-shape" if list(s1) == list(s2) else "other-shape"]})
        return with_layouts(rng, out)


class FullFam(C02Family):
    name = "full"
    theorems = ("C02_tucker_full", "C02_sum_full")

    def gen(self, rng, tier):
        out = []
        for _ in range(15 if tier == "quick" else 150):
            shape = pick_shape(rng, 1, 4, 3)
            out.append({"op": "full", "X": rand_holder(rng, rng.choice(["tucker", "sum", "kruskal"]), shape)})
        return with_layouts(rng, out)


class CrossFam(Family):
    """the same array held five ways gives the same answer"""
    name = "cross_representation"
    theorems = ()

    def gen(self, rng, tier):
        out = []
        for _ in range(12 if tier == "quick" else 120):
            shape = pick_shape(rng, 2, 4 if tier == "thorough" else 3, 3)
            N = len(shape)
            H = five_ways(rng, shape)
            sel = rng.choice(subsets(N))
            byMode = {d: vec(rng, shape[d]) for d in range(N)}
            conv = rng.choice(CONVS)
            vs, dims, excl = designate(rng, N, sel, conv, byMode, True)
            U, fs, lam = k_operand(rng, shape, rng.random() < 0.5)
            Y = rand_holder(rng, rng.choice(["dense", "sparse", "kruskal", "tucker"]), shape)
            out.append({"H": H, "vs": vs, "dims": dims, "excl": excl, "sel": sorted(sel), "ws": [byMode[d] for d in sorted(sel)],
                        "U": U, "fs": fs, "lam": lam, "n": rng.randrange(N), "Y": Y,
                        "lay": rng.choice(["C", "F", "strided", "T", "mix"])})
        return out

    def evaluate(self, cases):
        out = []
        reqs = []
        for c in cases:
            Hd = c["H"]["dense"]
            reqs.append({"op": "c02_ttv", "X": Hd, "vs": c["vs"], "dims": c["dims"], "excl": c["excl"], "sel": c["sel"], "ws": c["ws"]})
            reqs.append({"op": "c02_mttkrp", "X": Hd, "U": c["U"], "n": c["n"], "fs": c["fs"], "lam": c["lam"]})
            reqs.append({"op": "c02_innerprod", "X": Hd, "Y": c["Y"]})
        reps = drive(reqs)
        for k, c in enumerate(cases):
            spec_ttv, spec_mt, spec_ip = (canon_model(reps[3 * k + j]["spec"]) for j in range(3))
            bad = None
            arrays = {kk: to_array(h) for kk, h in c["H"].items()}
            ref = arrays["dense"]
            if not all(np.array_equal(a, ref) for a in arrays.values()):
                out.append(Verdict("corr", "generator: the five holders do not hold the same array", None, None, None, ["gen-bug"], False))
                continue
            impl = {}
            for kk, h in c["H"].items():
                lay = c.get("lay")
                cc = {"op": "ttv", "X": h, "vs": c["vs"], "dims": c["dims"], "excl": c["excl"], "lay": lay}
                r1 = call(run_impl, cc)
                r2 = call(run_impl, {"op": "mttkrp", "X": h, "U": c["U"], "n": c["n"], "lay": lay})
                r3 = call(run_impl, {"op": "innerprod", "X": h, "Y": c["Y"], "lay": lay})
                impl[kk] = (r1, r2, r3)
                for r, s, nm in ((r1, spec_ttv, "ttv"), (r2, spec_mt, "mttkrp"), (r3, {"kind": "scalar", "value": spec_ip}, "innerprod")):
                    if "ok" in r:
                        rb = strip_reads(r["ok"])
                        if rb:
                            bad = bad or f"{nm} of the {kk} holder: {rb[0]}"
                    if "ok" not in r:
                        bad = bad or f"{nm} raised for the {kk} holder: {r.get('exc')}"
                    elif not same_value(r["ok"], s):
                        bad = bad or f"{nm} of the {kk} holder differs from the value for the array it holds"
            out.append(Verdict("violation" if bad else "ok", bad or "", {k2: [x.get("ok", x) for x in v] for k2, v in impl.items()},
                               None, [spec_ttv, spec_mt, spec_ip], [f"N{len(h_shape(c['H']['dense']))}"], True))
        return out


def sparse_core_tucker(rng, shape):
    """Tucker holder with a sparse core (+ the same object with the core expanded, for the spec side)"""
    T = h_tucker(rng, shape)
    cs = T["core"]["shape"]
    A = np.array(T["core"]["data"], dtype=int).reshape(tuple(cs), order="F") if cs else np.array(1)
    keep = rng.choice([0.0, 0.3, 0.6, 1.0])
    A = np.where(np.array([rng.random() < keep for _ in range(A.size)]).reshape(A.shape), A, 0)
    Xd = {"kind": "tucker", "core": {"shape": cs, "data": [int(x) for x in A.flatten(order="F")]}, "factors": T["factors"]}
    sp = h_sparse(A, rng)
    X = {"kind": "tucker", "core": sp, "factors": T["factors"]}
    return X, Xd


class ExtrasFam(C02Family):
    """operations DESIGN listed as not modelled: ktensor.mask, ttensor.reconstruct, Tucker with a sparse core"""
    name = "mask_reconstruct_sparsecore"
    theorems = ("C02_mask_kruskal", "C02_mask_kruskal_rejects", "C02_tucker_full_sparse_core", "C02_ttv_tucker_sparse_core",
                "C02_tucker_sparse_core_den", "C02_reconstruct_tucker", "C02_tucker_refactor_full", "C02_reconstruct_trivial")

    def gen(self, rng, tier):
        out = []
        n = 12 if tier == "quick" else 120
        # ktensor.mask: dense and sparse masks of the same or smaller extents, every stored order
        for it in range(n):
            shape = pick_shape(rng, 1, 4, 3)
            K = h_kruskal(rng, shape)
            wshape = [rng.randint(1, e) if rng.random() < 0.3 else e for e in shape]
            W01 = (rand_array(rng, wshape, rng.choice([0.2, 0.6, 1.0]), 1, 2) != 0).astype(int) * rng.choice([1, 2, -3])
            if it % 2 == 0:
                W = h_dense(W01)
            else:
                W = h_sparse(W01, rng, order=SP_ORDERS[it % len(SP_ORDERS)])
            out.append({"op": "mask", "X": K, "W": W, "tag": ["mask"]})
        # ALWAYS: a mask without any non-zero, sparse (nothing stored) and dense (all zeros), several orders
        for shape in ([3], [2, 3], [2, 1, 3], pick_shape(rng, 2, 4, 3)):
            Z = np.zeros(tuple(shape), dtype=int)
            out.append({"op": "mask", "X": h_kruskal(rng, shape), "W": h_sparse(Z), "tag": ["mask", "mask:empty"]})
            out.append({"op": "mask", "X": h_kruskal(rng, shape), "W": h_dense(Z), "tag": ["mask", "mask:empty"]})
        shape = pick_shape(rng, 2, 3, 3)
        big = [e + 1 for e in shape]
        out.append({"op": "mask", "X": h_kruskal(rng, shape), "W": h_dense(np.ones(tuple(big), dtype=int)), "valid": False})
        # ttensor.reconstruct: index vectors (repeats, any order), mixing matrices, modes in any order
        for it in range(n):
            shape = pick_shape(rng, 1, 4, 3)
            N = len(shape)
            T = h_tucker(rng, shape)
            kind = it % 4
            if kind == 0:
                out.append({"op": "reconstruct", "X": T, "samples": None, "modes": None, "sel": [], "ssel": [],
                            "tag": ["recon:none"]})
                continue
            modes = list(range(N)) if kind == 1 else rng.sample(range(N), rng.randint(1, N))
            samples = []
            for m_ in modes:
                if rng.random() < 0.6:
                    samples.append({"idx": [rng.randrange(shape[m_]) for _ in range(rng.randint(1, 3))]})
                else:
                    q = rng.randint(1, 3)
                    if q == shape[m_] and rng.random() < 0.5:
                        q += 1
                    samples.append(mat_arg(rand_mat(rng, q, shape[m_])))
            out.append({"op": "reconstruct", "X": T, "samples": samples, "modes": None if kind == 1 else modes,
                        "sel": modes, "ssel": samples, "tag": ["recon:all" if kind == 1 else "recon:modes"]})
        # Tucker with a sparse core: full and ttv (scalar / dense-core / sparse-core results)
        for it in range(n * 2):
            shape = pick_shape(rng, 1, 4, 3)
            N = len(shape)
            X, Xd = sparse_core_tucker(rng, shape)
            if it % 3 == 0:
                out.append({"op": "tucker_sp", "what": "full", "X": X, "Xd": Xd, "tag": ["spcore:full"]})
                continue
            sel = rng.choice(subsets(N))
            byMode = {d: vec(rng, shape[d]) for d in range(N)}
            vs, dims, excl = designate(rng, N, sel, rng.choice(CONVS), byMode, True)
            out.append({"op": "tucker_sp", "what": "ttv", "X": X, "Xd": Xd, "vs": vs, "dims": dims, "excl": excl,
                        "sel": sorted(sel), "ws": [byMode[d] for d in sorted(sel)], "tag": ["spcore:ttv"]})
        return with_layouts(rng, out)


# ----------------------------------------------------------------------------
# storage dtypes: the array an operand denotes is an array of REAL numbers, whatever numpy type stores it
# ----------------------------------------------------------------------------
#: storage types of the data / vals / core (float64 is the control)
DTYPES = ["float64", "int8", "uint8", "int16", "int32", "int64", "float32", "bool"]
#: entry magnitudes per storage type, chosen so that one product of two entries (hence every sum of squares /
#: sum of products) leaves the type's range (ints), its 24-bit significand (float32: odd values > 2**12) or
#: {0, 1} (bool: a count above one), while the exact result still fits a double (except int64: compared to 1e-12)
DT_RANGE = {"float64": (2, 40), "int8": (60, 120), "uint8": (100, 250), "int16": (10000, 30000),
            "int32": (47000, 60000), "int64": (3 * 10 ** 9, 10 ** 11), "float32": (4097, 8191), "bool": (1, 1)}
#: operation key -> storage types whose deviation is tagged but not asserted (decision of the coordinator).
#: A deviation in a combination that is not listed here is a violation.
DTYPE_PENDING = {
    # single precision: the norm is computed in single precision (rounding, not treated as a defect)
    "norm:dense": {"float32"}, "norm:sparse": {"float32"},
}
#: operation keys of the two KNOWN findings (known/C02.json K02-ttt-storage-dtype, K02-sp-scale-storage-dtype): the
#: result is computed in the storage type of the operands (a doctest of each pins an integer-typed result for
#: integer input). Their deviations are reported as violations and accepted by a matcher only when the result is
#: exactly what arithmetic in the storage type gives.
DTYPE_KNOWN_KEYS = ("ttt:full", "ttt:partial", "ttt:outer", "scale:sparse:array", "scale:sparse:tensor")


def dt_pending(key, dt, md):
    """is this combination on the list of reported, not yet confirmed deviations of the unchanged code?"""
    return dt != "float64" and md != "float64" and dt in DTYPE_PENDING.get(key, ())


def dt_val(rng, dt):
    lo, hi = DT_RANGE[dt]
    v = rng.randint(lo, hi)
    if dt == "float32":
        v |= 1
    if dt == "float64" and rng.random() < 0.3:   # the narrow types stay positive: a sum that cancels back into range
        v = -v                                    # is computed correctly by modular arithmetic
    if dt == "bool" and rng.random() < 0.15:
        v = 0
    return v


def dt_array(rng, dt, shape, zero_share=0.0):
    A = np.empty(tuple(shape), dtype=object)
    for idx in gen.all_subs(list(shape)):
        A[tuple(idx)] = 0 if rng.random() < zero_share else dt_val(rng, dt)
    return A


def dt_rows(rng, dt, r, c):
    return [[dt_val(rng, dt) for _ in range(c)] for _ in range(r)]


def dt_close(got, ref):
    """value equality of two canonical results: exact (correctly rounded double), except that a value that does
    not fit the 53-bit significand may be off by 1e-12 relative"""
    from harness.lib import jnum, num_eq
    sa, va = value_of(got)
    sb, vb = value_of(ref)
    if sa != sb or len(va) != len(vb):
        return False
    for x, y in zip(va, vb):
        if num_eq(jnum(x), jnum(y)):
            continue
        if isinstance(x, str) or isinstance(y, str):
            return False
        if abs(y) >= 2 ** 53 and abs(x - y) <= abs(y) / 10 ** 12:
            continue
        return False
    return True


class DtypesFam(C02Family):
    """every kernel on operands whose data / vals / core (and multiplicands) are stored in a narrow, integer or
    single-precision numpy type, with magnitudes for which the exact result leaves that type"""
    name = "dtypes"
    theorems = ("C02_norm_dense", "C02_innerprod_dense", "C02_ttv_dense", "C02_ttm_dense", "C02_mttkrp_dense",
                "C02_mttkrps_dense", "C02_collapse_dense", "C02_contract_dense", "C02_scale_dense", "C02_ttt_dense",
                "C02_norm_sparse", "C02_innerprod_sparse_sparse", "C02_innerprod_sparse_dense", "C02_ttv_sparse",
                "C02_ttm_sparse", "C02_mttkrp_sparse", "C02_collapse_sparse", "C02_contract_sparse", "C02_scale_sparse",
                "C02_tucker_full")

    def gen(self, rng, tier):
        out = []

        def holder(kind, dt, shape, cs=None):
            if kind == "dense":
                h = h_dense(dt_array(rng, dt, shape))
            elif kind == "sparse":
                A = dt_array(rng, dt, shape, 0.3)
                if not np.any(A != 0):
                    A[(0,) * len(shape)] = dt_val(rng, dt) or 1
                h = h_sparse(A, rng)
            else:
                cs = cs or [2] * len(shape)
                h = {"kind": "tucker", "core": {"shape": cs, "data": [int(x) for x in dt_array(rng, dt, cs).flatten(order="F")]},
                     "factors": [dt_rows(rng, dt, s_, c_) for s_, c_ in zip(shape, cs)]}
            if dt != "float64":
                h["dtype"] = dt
            return h

        def add(key, dt, mdt, c):
            c["dt"] = [key, dt, mdt or "-"]
            c["tag"] = [f"dtype:{dt}", f"mult:{mdt or '-'}", f"dt:{key}"] + list(c.get("tag", []))
            if mdt and mdt != "float64":
                c["mdtype"] = mdt
            if c["X"]["kind"] == "tucker" and mdt and mdt != "float64":
                c["X"]["fdtype"] = mdt
            c["lay"] = "C"
            out.append(c)

        reps = 1 if tier == "quick" else 4
        for _ in range(reps):
            for dt in DTYPES:
                mds = ["float64"] if dt == "float64" else [dt, "float64"]
                # Kruskal tensors only store float64; the bare vector carries the type
                for shape in ([2, 3], [3, 2, 2]):
                    n = rng.randrange(len(shape))
                    w = [dt_val(rng, dt) for _ in range(shape[n])]
                    add("ttv:kruskal:bare", "float64", dt, {"op": "ttv", "X": h_kruskal(rng, shape), "vs": [w], "dims": [n],
                                                            "excl": None, "sel": [n], "ws": [w], "bare": True})
                for shape in ([2, 3], [3, 2, 2]):
                    N = len(shape)
                    for kind in ("dense", "sparse", "tucker"):
                        def X():
                            return holder(kind, dt, shape)
                        for md in (mds if kind == "tucker" else [None]):   # Tucker: md = storage type of the factors
                            add(f"norm:{kind}", dt, md, {"op": "norm", "X": X()})
                            for yk in ("dense", "sparse"):
                                add(f"innerprod:{kind}x{yk}", dt, md, {"op": "innerprod", "X": X(), "Y": holder(yk, dt, shape)})
                        if kind == "tucker":
                            for md in mds:
                                add("full:tucker", dt, md, {"op": "full", "X": X()})
                        for md in mds:
                            for sel in ([N - 1], list(range(N))):
                                ws = [[dt_val(rng, dt) for _ in range(shape[d])] for d in sel]
                                add(f"ttv:{kind}:{'all' if len(sel) == N else 'one'}", dt, md,
                                    {"op": "ttv", "X": X(), "vs": ws, "dims": sel, "excl": None, "sel": sel, "ws": ws})
                            n = rng.randrange(N)
                            M = mat_arg(dt_rows(rng, dt, 2, shape[n]))
                            add(f"ttm:{kind}", dt, md, {"op": "ttm", "X": X(), "Ms": [M], "dims": [n], "excl": None,
                                                        "tr": False, "sel": [n], "msel": [M]})
                            # ONE vector of this type handed over bare (not inside a list)
                            n = rng.randrange(N)
                            w = [dt_val(rng, dt) for _ in range(shape[n])]
                            add(f"ttv:{kind}:bare", dt, md, {"op": "ttv", "X": X(), "vs": [w], "dims": [n], "excl": None,
                                                             "sel": [n], "ws": [w], "bare": True})
                            if kind == "tucker":
                                # reconstruct: an index vector on one mode, a mixing matrix of this type on another
                                modes = rng.sample(range(N), 2)
                                samples = [{"idx": [rng.randrange(shape[modes[0]]) for _ in range(2)]},
                                           mat_arg(dt_rows(rng, dt, 2, shape[modes[1]]))]
                                add("reconstruct:tucker", dt, md, {"op": "reconstruct", "X": X(), "samples": samples,
                                                                   "modes": modes, "sel": modes, "ssel": samples})
                            for n in (0, N - 1):
                                fs = [dt_rows(rng, dt, s_, 2) for s_ in shape]
                                add(f"mttkrp:{kind}", dt, md, {"op": "mttkrp", "X": X(), "U": {"list": fs}, "n": n, "fs": fs,
                                                               "lam": [1, 1]})
                            if kind == "dense":
                                fs = [dt_rows(rng, dt, s_, 2) for s_ in shape]
                                add("mttkrps:dense", dt, md, {"op": "mttkrps", "X": X(), "U": {"list": fs}, "fs": fs, "lam": [1, 1]})
                        if kind == "dense":
                            # ttsv on a cubical tensor: the default code path and the one through ttv
                            cub = [2] * N
                            for md in mds:
                                for ver in ("none", "1"):
                                    for skip in (None, 0):
                                        xv = [dt_val(rng, dt) for _ in range(2)]
                                        add(f"ttsv:{'default' if ver == 'none' else 'v1'}", dt, md,
                                            {"op": "ttsv", "X": holder("dense", dt, cub), "x": xv, "skip": skip, "ver": ver,
                                             "dnew": 0 if skip is None else 1})
                        if kind == "tucker":
                            continue
                        for sel in ([0], list(range(N))):
                            add(f"collapse:{kind}:{'all' if len(sel) == N else 'one'}", dt, None,
                                {"op": "collapse", "X": X(), "dims": None if len(sel) == N else sel, "fun": "sum", "sel": sel})
                            add(f"collapse:{kind}:{'all' if len(sel) == N else 'one'}:default-reducer", dt, None,
                                {"op": "collapse", "X": X(), "dims": None if len(sel) == N else sel, "fun": "sum", "sel": sel,
                                 "deffun": True})
                        sq = [2, 2] if N == 2 else [2, 3, 2]
                        add(f"contract:{kind}", dt, None, {"op": "contract", "X": holder(kind, dt, sq), "a": 0, "b": N - 1})
                        for md in mds:
                            F = {"kind": "array", "data": [dt_val(rng, dt) for _ in range(shape[1])]}
                            add(f"scale:{kind}:array", dt, md, {"op": "scale", "X": X(), "F": F, "dims": [1], "fk": "array", "sel": [1]})
                        Fh = holder("dense", dt, [shape[0]])
                        add(f"scale:{kind}:tensor", dt, None, {"op": "scale", "X": X(), "F": Fh, "dims": [0], "fk": "tensor", "sel": [0]})
                        if kind == "dense":
                            add("ttt:full", dt, None, {"op": "ttt", "X": X(), "Y": holder("dense", dt, shape),
                                                       "xd": list(range(N)), "yd": list(range(N))})
                            add("ttt:partial", dt, None, {"op": "ttt", "X": X(), "Y": holder("dense", dt, [shape[0], 2]),
                                                          "xd": [0], "yd": [0]})
                            add("ttt:outer", dt, None, {"op": "ttt", "X": X(), "Y": holder("dense", dt, [2]),
                                                        "xd": [], "yd": [], "outer": True})
        return out

    def judge(self, c, impl, rep):
        op = c["op"]
        key, dt, md = c["dt"]
        tags = [op, f"{op}:{c['X']['kind']}"] + list(c.get("tag", []))
        model, spec = rep["model"], rep["spec"]
        pending = dt_pending(key, dt, md)
        why = None
        if "ok" not in impl:
            why = f"raised {impl.get('exc')}: {impl.get('msg')}"
        else:
            got = impl["ok"]
            bad = strip_reads(got)
            sval = canon_model(spec)
            if bad:
                why = bad[0]
            elif op == "norm":
                from harness.lib import frac
                sq = frac(sval) if not isinstance(sval, dict) else frac(sval["value"])
                want = math.sqrt(sq) if sq < 2 ** 1000 else float("inf")
                gv = frac(got["value"])
                if isinstance(gv, str) or not (float(gv) == want or abs(float(gv) - want) <= 1e-12 * max(1.0, want)):
                    why = f"norm {got['value']} instead of sqrt({sq})"
            elif op == "mttkrps":
                if not (len(got) == len(sval) and all(dt_close(g, s_) for g, s_ in zip(got, sval))):
                    why = "a matrix of mttkrps differs from the sum over indices"
            else:
                if op == "innerprod":
                    sval = {"kind": "scalar", "value": sval}
                if not dt_close(got, sval):
                    why = "the result differs from the sum over indices of the stored real values"
        if why is None:
            return Verdict("ok", "", impl, model, spec, tags + (["pending-but-correct"] if pending else []), True)
        if pending:
            return Verdict("ok", "", impl, model, spec, tags + ["pending-deviation", f"pending-deviation:{key}:{dt}"], True)
        return Verdict("violation", f"{key} on data stored as {dt} (multiplicands {md}): {why}", impl, model, spec, tags, True)


# ----------------------------------------------------------------------------
# tensor.ttsv: the same vector in every mode after the first skip_dim + 1
# ----------------------------------------------------------------------------
TTSV_KIND = {0: "scalar", 1: "vec", 2: "mat"}


def ttsv_valid(shape, nx, skip, ver):
    """does the definition prescribe a value for this request (and the documentation accept it)?"""
    N = len(shape)
    if ver not in ("none", "1", "2"):
        return False
    if skip is not None and not 0 <= skip < N:
        return False
    dnew = 0 if skip is None else skip + 1
    if ver == "1":      # through ttv: only the multiplied modes must match the vector
        return all(shape[d] == nx for d in range(dnew, N))
    if any(e != shape[0] for e in shape):   # the direct computation is documented for cubical tensors only
        return False
    return dnew == N or nx == shape[0]


class TtsvFam(C02Family):
    """tensor.ttsv on both code paths (version=1 through ttv; the default / version=2 through reshape-dot), every
    skip_dim the code accepts and the rejected ones, every result kind (scalar / 1-d array / 2-d array / tensor)"""
    name = "ttsv"
    theorems = ("C02_ttsv_dense", "C02_ttsv_v1_dense", "C02_ttsv_versions_agree", "C02_ttsv_rejects",
                "C02_ttsv_spec_eq_ttv")

    def case(self, rng, shape, skip, ver, nx=None, tag=(), zero_share=0.25):
        shape = list(shape)
        N = len(shape)
        nx = shape[-1] if nx is None else nx
        x = vec(rng, nx, zero_share)
        if nx >= 2 and all(v >= 0 for v in x):      # at least one negative entry
            x[rng.randrange(nx)] = -rng.choice([1, 2, 3])
        if nx >= 3 and 0 not in x and rng.random() < 0.5:
            x[rng.randrange(nx)] = 0
        dnew = 0 if skip is None else min(max(skip + 1, 0), N)
        c = {"op": "ttsv", "X": h_dense(rand_array(rng, shape, rng.choice([0.0, 0.2, 0.5]), -3, 3)), "x": x, "skip": skip,
             "ver": ver, "dnew": dnew, "xconv": rng.choice(["array", "array", "list", "tuple", "col", "row"]),
             "skip_pos": rng.random() < 0.5,
             "tag": [f"ver:{ver}", f"skip:{'none' if skip is None else ('last' if skip == N - 1 else min(skip, 3))}",
                     f"keep{min(dnew, 3)}", "cubical" if len(set(shape)) == 1 else "non-cubical",
                     f"ext{min(shape)}" if len(set(shape)) == 1 else "ext-mixed"] + list(tag)}
        c["tag"] += [f"x:{c['xconv']}", "skip:positional" if (c["skip_pos"] and skip is not None) else "skip:keyword"]
        if not ttsv_valid(shape, nx, skip, ver):
            c["valid"] = False
        return c

    def gen(self, rng, tier):
        out = []
        # ALWAYS: every order 1..5 x every extent x every skip_dim (absent, 0 .. N-1) x every version
        for N in range(1, 6):
            for sz in ((1, 2, 3) if (N <= 4 or tier == "thorough") else (1, 2)):
                for skip in [None] + list(range(N)):
                    for ver in ("none", "1", "2"):
                        out.append(self.case(rng, [sz] * N, skip, ver, tag=["enumerated"]))
        if tier == "thorough":
            for N in range(1, 4):
                for skip in [None] + list(range(N)):
                    for ver in ("none", "1", "2"):
                        out.append(self.case(rng, [4] * N, skip, ver, tag=["enumerated"]))
        # version 1 goes through ttv: only the multiplied modes need the vector's length
        for shape, skip in (([2, 3, 3], 0), ([4, 2, 2, 2], 0), ([2, 3, 4, 4], 1), ([2, 3, 4], 1), ([3, 2], 0), ([2, 3], 1),
                            ([3, 1, 2, 2], 1), ([1, 3, 3], 0), ([2, 3, 4], 2), ([3, 2, 2, 2, 2], 0), ([2, 3, 2, 2, 2], 1),
                            ([2, 3, 4, 2, 2], 2)):
            for ver in ("1", "none", "2"):     # the direct computation refuses these (malformed stream)
                out.append(self.case(rng, shape, skip, ver, tag=["v1-only"]))
        # rejected requests: skip_dim outside the modes, unknown version, non-cubical, wrong vector length
        for _ in range(6 if tier == "quick" else 40):
            N = rng.randint(1, 4)
            sz = rng.randint(1, 3)
            shape = [sz] * N
            how = rng.choice(["skip", "skip", "version", "noncubical", "veclen", "veclen-unused"])
            ver = rng.choice(["none", "1", "2"])
            if how == "skip":
                out.append(self.case(rng, shape, rng.choice([-1, -2, N, N + 1]), ver, tag=["bad:skip"]))
            elif how == "version":
                out.append(self.case(rng, shape, rng.choice([None] + list(range(N))), rng.choice(["3", "0"]), tag=["bad:version"]))
            elif how == "noncubical":
                shp = list(shape) + [sz + 1]
                rng.shuffle(shp)
                skip = rng.choice([None] + list(range(len(shp))))
                out.append(self.case(rng, shp, skip, ver, nx=rng.choice(shp), tag=["bad:noncubical"]))
            elif how == "veclen":
                skip = rng.choice([None] + list(range(N - 1)))
                out.append(self.case(rng, shape, skip, ver, nx=sz + rng.choice([1, 2] if sz == 1 else [-1, 1]), tag=["bad:veclen"]))
            else:   # nothing is multiplied, so the vector is never looked at: the tensor itself comes back
                out.append(self.case(rng, shape, N - 1, ver, nx=sz + 1, tag=["veclen-unused"]))
        # random cubical cases
        for _ in range(20 if tier == "quick" else 300):
            N = rng.randint(1, 5)
            sz = rng.randint(1, 4 if N <= 3 else (3 if N == 4 else 2))
            out.append(self.case(rng, [sz] * N, rng.choice([None] + list(range(N))), rng.choice(["none", "1", "2"]),
                                 tag=["sampled"]))
        return with_layouts(rng, out)

    def judge(self, c, impl, rep):
        shape = c["X"]["shape"]
        tags = ["ttsv", f"N{len(shape)}"] + list(c.get("tag", []))
        model, spec = rep["model"], rep["spec"]
        m_rej = isinstance(model, dict) and model.get("reject") is True
        i_rej = "ok" not in impl
        if not c.get("valid", True):
            tags.append("malformed")
            ok = (i_rej == m_rej)
            return Verdict("ok" if ok else "corr", "" if ok else "acceptance of a malformed request differs from the model",
                           impl, model, None, tags + (["rejected"] if i_rej else ["accepted"]), False)
        if i_rej:
            return Verdict("violation", f"ttsv raised on a valid request: {impl.get('exc')}: {impl.get('msg')}",
                           impl, model, spec, tags + ["raised"])
        got = impl["ok"]
        mval = canon_model(model["ok"]) if not m_rej else None
        sval = canon_model(spec)
        nt = nonzero_holder(c["X"]) and any(v != 0 for v in c["x"])
        want_kind = TTSV_KIND.get(c["dnew"], "dense")
        tags.append(f"ttsv->{got['kind']}")
        _, gv = value_of(got)
        _, sv = value_of(sval)
        from harness.lib import jnum, num_eq
        if len(gv) != len(sv) or not all(num_eq(jnum(a), jnum(b)) for a, b in zip(gv, sv)):
            return Verdict("violation", "ttsv differs from the sum over indices", impl, model, spec, tags, nt)
        if got["kind"] != want_kind or not same_value(got, sval):
            return Verdict("violation", f"ttsv result kind: {got['kind']} of shape {value_of(got)[0]} where skip_dim="
                           f"{c['skip']} prescribes {want_kind} of shape {value_of(sval)[0] if c['dnew'] else []}",
                           impl, model, spec, tags + ["kind-mismatch"], nt)
        if m_rej or not deep_eq(got, mval):
            return Verdict("corr", "ttsv differs from the model", impl, model, spec, tags, nt)
        return Verdict("ok", "", impl, model, spec, tags, nt)


# ----------------------------------------------------------------------------
# Tucker tensors whose core is an sptensor: innerprod / norm / mttkrp
# ----------------------------------------------------------------------------
SPCORE_FILL = ["empty", "one", "half", "full"]


def spcore_tucker(rng, shape, cs=None, fill=None, order=None, lo=-2, hi=2):
    """(holder with a sparse core, the same object with the core expanded); `fill` = sparsity class of the core"""
    cs = list(cs) if cs is not None else [rng.randint(1, 3) for _ in shape]
    fill = fill or rng.choice(SPCORE_FILL)
    n = gen.numel(cs)
    k = {"empty": 0, "one": 1, "half": max(1, n // 2), "full": n}[fill]
    A = np.zeros(n, dtype=int)
    for p_ in rng.sample(range(n), min(k, n)):
        A[p_] = rng.choice([-3, -2, -1, 1, 2, 3])
    A = A.reshape(tuple(cs), order="F")
    # factors with entries of both signs (and a few zeros)
    fs = [rand_mat(rng, s_, c_, 0.15, lo, hi) for s_, c_ in zip(shape, cs)]
    for f in fs:
        if all(v >= 0 for row in f for v in row):
            f[rng.randrange(len(f))][rng.randrange(len(f[0]))] = -rng.choice([1, 2])
    X = {"kind": "tucker", "core": h_sparse(A, rng, order=order), "factors": fs}
    Xd = {"kind": "tucker", "core": {"shape": cs, "data": [int(x) for x in A.flatten(order="F")]}, "factors": fs}
    return X, Xd


class SparseCoreFam(C02Family):
    """ttensor.innerprod / norm / mttkrp when the core is an sptensor: every sparsity class of the core (nothing / one
    entry / half / everything stored, every stored order), non-cubical cores, factors with negative entries, every kind
    of other operand (dense, sparse, Kruskal, Tucker with a dense or a sparse core) in both call orders, both sides of
    every size switch, every mode n with a factor list and with a Kruskal operand (all weight patterns)"""
    name = "tucker_sparse_core"
    theorems = ("C02_innerprod_tucker_sparse_core", "C02_innerprod_tucker_sparse_core_tucker",
                "C02_innerprod_tucker_sparse_core_kruskal", "C02_norm_tucker_sparse_core", "C02_mttkrp_tucker_sparse_core",
                "C02_mttkrp_tucker_sparse_core_kruskal", "C02_tucker_sparse_core_eq_dense_core",
                "C02_mttkrp_tucker_rejects", "C02_innerprod_parts_rejects")

    def other(self, rng, yk, shape, fill=None):
        """the second operand of innerprod"""
        if yk == "tucker-sp":
            Y, _ = spcore_tucker(rng, shape, fill=fill)
            return Y
        return rand_holder(rng, yk, shape)

    def gen(self, rng, tier):
        out = []
        yks = ["dense", "sparse", "kruskal", "tucker", "tucker-sp"]
        it = 0

        def inner(shape, cs, fill, yk, rev, tag, ycs=None, yfill=None):
            nonlocal it
            it += 1
            X, Xd = spcore_tucker(rng, shape, cs=cs, fill=fill, order=SP_ORDERS[it % len(SP_ORDERS)])
            if yk == "tucker-sp":
                Y, _ = spcore_tucker(rng, shape, cs=ycs, fill=yfill)
            elif yk == "tucker" and ycs is not None:
                Y = h_tucker(rng, shape, cs=ycs)
            else:
                Y = rand_holder(rng, yk, shape)
            c = {"op": "tucker_sp", "what": "innerprod", "X": X, "Xd": Xd, "Y": Y,
                 "tag": ["spcore:innerprod", f"core:{fill}", f"other:{yk}", "reversed" if rev else "direct"] + list(tag)}
            if rev:
                c["rev"] = True
            out.append(c)

        def norm(shape, cs, fill, tag):
            nonlocal it
            it += 1
            X, Xd = spcore_tucker(rng, shape, cs=cs, fill=fill, order=SP_ORDERS[it % len(SP_ORDERS)])
            out.append({"op": "tucker_sp", "what": "norm", "X": X, "Xd": Xd, "tag": ["spcore:norm", f"core:{fill}"] + list(tag)})

        # ALWAYS: the size switches, one case per outcome x sparsity class x other operand kind x call order
        switches = (([2, 2], [3, 3], "tensor<core"), ([2, 3], [2, 3], "tensor=core"), ([3, 4], [2, 2], "tensor>core"),
                    ([2, 1, 2], [2, 3, 1], "tensor<core"), ([3, 2, 2], [1, 2, 2], "tensor>core"), ([3, 2, 3], [2, 1, 3], "tensor>core"))
        for shape, cs, tagv in switches:
            for fill in SPCORE_FILL:
                for yk in ("dense", "sparse", "kruskal"):
                    for rev in (False, True):
                        if tier == "quick" and rng.random() < 0.5:
                            continue
                        inner(shape, cs, fill, yk, rev, ["switch:" + tagv])
                norm(shape, cs, fill, ["switch:" + tagv])
        # two Tucker tensors: first core larger / equal / smaller, each core dense or sparse, both call orders
        for shape, c1, c2, tagv in (([3, 3], [3, 2], [2, 2], "core1>core2"), ([3, 3], [2, 2], [2, 2], "core1=core2"),
                                    ([3, 2, 2], [1, 2, 1], [2, 2, 2], "core1<core2"), ([2, 3, 2], [2, 3, 1], [1, 2, 2], "core1>core2")):
            for fill in SPCORE_FILL:
                for yk in ("tucker", "tucker-sp"):
                    for rev in (False, True):
                        inner(shape, c1, fill, yk, rev, ["switch:" + tagv], ycs=c2, yfill=rng.choice(SPCORE_FILL))
        # sampled: orders 1..4, non-cubical cores
        for _ in range(30 if tier == "quick" else 300):
            shape = pick_shape(rng, 1, 4, 3)
            fill = rng.choice(SPCORE_FILL)
            inner(shape, None, fill, rng.choice(yks), rng.random() < 0.5, ["sampled"])
            norm(shape, None, rng.choice(SPCORE_FILL), ["sampled"])
        # mttkrp: every mode n, factor list and Kruskal operand (every weight pattern), every sparsity class
        pat = 0
        reps = 1 if tier == "quick" else 6
        for _ in range(reps):
            for N in range(2, 5):
                for fill in SPCORE_FILL:
                    shape = pick_shape(rng, N, N, 3 if N == 4 else 4)
                    cs = [rng.randint(1, 3) for _ in shape]
                    if len(set(cs)) == 1 and N > 1:     # non-cubical core
                        cs[rng.randrange(N)] = cs[0] % 3 + 1
                    for n in range(N):
                        for ask in (False, True):
                            pattern = WEIGHT_PATTERNS[pat % len(WEIGHT_PATTERNS)]
                            pat += int(ask)
                            U, fs, lam = k_operand(rng, shape, ask, pattern=pattern)
                            it += 1
                            X, Xd = spcore_tucker(rng, shape, cs=cs, fill=fill, order=SP_ORDERS[it % len(SP_ORDERS)])
                            br = "first" if n == 0 else ("last" if n == N - 1 else "middle")
                            out.append({"op": "tucker_sp", "what": "mttkrp", "X": X, "Xd": Xd, "U": U, "n": n, "fs": fs, "lam": lam,
                                        "tag": ["spcore:mttkrp", f"core:{fill}", br] +
                                               ([f"kruskalU", f"w:{pattern}"] if ask else ["listU"])})
        # malformed: shapes differ / a factor of the operand with the wrong number of rows
        for _ in range(4 if tier == "quick" else 20):
            shape = pick_shape(rng, 2, 3, 3)
            s2 = list(shape)
            s2[rng.randrange(len(s2))] += 1
            X, Xd = spcore_tucker(rng, shape)
            yk = rng.choice(yks)
            Y = spcore_tucker(rng, s2)[0] if yk == "tucker-sp" else rand_holder(rng, yk, s2)
            c = {"op": "tucker_sp", "what": "innerprod", "X": X, "Xd": Xd, "Y": Y, "valid": False, "tag": ["spcore:innerprod"]}
            if rng.random() < 0.5:
                c["rev"] = True
            out.append(c)
            U, fs, lam = k_operand(rng, shape, False)
            n = rng.randrange(len(shape))
            m = (n + 1) % len(shape)
            U["list"][m] = U["list"][m] + [U["list"][m][0]]
            out.append({"op": "tucker_sp", "what": "mttkrp", "X": X, "Xd": Xd, "U": U, "n": n, "fs": fs, "lam": lam,
                        "valid": False, "tag": ["spcore:mttkrp"]})
        return with_layouts(rng, out)


# ----------------------------------------------------------------------------
# ttv with ONE multiplicand handed over bare (an ndarray that is not inside a list)
# ----------------------------------------------------------------------------
class BareVectorFam(C02Family):
    """`X.ttv(v, n)` with the vector itself as the first argument (documented for every class): the classes tell a bare
    vector from a list of vectors by looking at its first entry, so the vector's LENGTH matters - every mode of
    shapes with singleton modes (length-1 vectors), with longer modes, of order 1 (scalar result), for every
    representation, under the dims and the exclude_dims convention (and with nothing designated for order 1); 1-d
    arrays in every memory layout and storage type, for Kruskal tensors also n x 1 / 1 x n arrays."""
    name = "ttv_bare_vector"
    theorems = ("C02_ttv_dense", "C02_ttv_dense_dims", "C02_ttv_sparse", "C02_ttv_sparse_dims", "C02_ttv_spec_set",
                "C02_exclude_dims", "C02_list_len_P")
    SHAPES = ([1], [3], [1, 3], [3, 1], [1, 1], [2, 1, 3], [1, 2, 1], [3, 2], [2, 3, 4], [1, 1, 1], [2, 1, 1, 3])

    def gen(self, rng, tier):
        out = []
        kinds = ["dense", "sparse", "kruskal", "tucker", "sum"]
        for _ in range(1 if tier == "quick" else 6):
            for kind in kinds:
                for shape in self.SHAPES:
                    N = len(shape)
                    for n in range(N):
                        convs = ["dims", "excl"] + (["none"] if N == 1 else [])
                        if tier == "quick":
                            convs = [rng.choice(convs)] if shape[n] > 1 else convs
                        for conv in convs:
                            w = vec(rng, shape[n], 0.1)
                            c = {"op": "ttv", "X": rand_holder(rng, kind, list(shape)), "vs": [w],
                                 "dims": [n] if conv == "dims" else None,
                                 "excl": [d for d in range(N) if d != n] if conv == "excl" else None,
                                 "sel": [n], "ws": [w], "bare": True,
                                 "tag": ["bare", f"bare:{kind}:len{'1' if shape[n] == 1 else '>1'}", f"bare:{conv}"]}
                            form = rng.choice(["1d", "1d", "col", "row"]) if kind == "kruskal" else "1d"
                            if form != "1d":
                                c["vlay"] = form
                            else:
                                c["vlay"] = rng.choice(["C", "strided"])
                            if rng.random() < 0.3:
                                c["mdtype"] = rng.choice(["int64", "float32", "int8"])
                            c["tag"] += [f"bare:{form}", f"bare:dtype:{c.get('mdtype', 'float64')}"]
                            out.append(c)
        return with_layouts(rng, out)


def families():
    return [TtvFam(), TtmFam(), MttkrpFam(), MttkrpsFam(), InnerFam(), ContractCollapseScaleFam(), TttFam(), FullFam(),
            ExtrasFam(), CrossFam(), DtypesFam(), TtsvFam(), SparseCoreFam(), BareVectorFam()]
