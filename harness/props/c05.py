"""C05 — operations never modify their operands and never alias them.

For every public operation of the seven classes (list obtained by introspection) and the five
algorithm entry points, on small operands: (a) every operand array is snapshotted bit for bit
and compared afterwards, (b) np.shares_memory is computed for every (result array, operand
array) pair, (c) every result array is overwritten completely and the operands re-read, and
vice versa.  (a)/(b)/(c) are compared with the mutation flags and sharing matrix that the
proved heap model (lean/PyttbModel/Heap) predicts for the same operand layouts; the property
itself (nothing mutated except the receiver of a documented in-place operation, nothing
shared except through a documented no-copy parameter) is what the model's entries are proved
to satisfy, so a difference is a violation of the property on the implementation.
"""
from __future__ import annotations

import contextlib
import inspect
import io
import logging
import os
import warnings

os.environ.setdefault("MPLBACKEND", "Agg")

import numpy as np
import pyttb as ttb
import scipy.sparse as sps

from harness import gen
from harness.lib import Family, Verdict, drive

logging.getLogger().setLevel(logging.ERROR)

RULE = ("every public method of tensor/sptensor/ktensor/ttensor/sumtensor/tenmat/sptenmat found by introspection, the "
        "pyttb_utils helpers and module-level constructors, and cp_als/cp_apr/tucker_als/hosvd/gcp_opt over their option "
        "space (init ktensor/list/random/nvecs, optdims strict subsets, dimorder permutations, fixsigns, three cp_apr "
        "algorithms with zero rows, ranks/dimorder/sequential, mask, optimizer and sampler objects), each on small "
        "operands (orders 1..4, singleton modes, F/C/strided layouts for constructor arguments). Every operation that "
        "takes a mode order, mode subset or mode split is swept over the identity, EVERY order/split that only relocates "
        "singleton modes (where the model predicts a view unless the code copies), layout-changing orders, and "
        "size-preserving reshapes, with copy=True/False; every caller-supplied object is snapshotted bit for bit. "
        "Parameter corner cases where the general case computes new arrays but nothing is left to compute, for every "
        "class: EMPTY mode selections of ttv / ttm / collapse (dims=[] or exclude_dims=all modes, with N multiplicands or "
        "none, array and list), ttsv with the last mode skipped, already symmetric / partly symmetric / all-zero "
        "receivers of symmetrize x every way of naming the groups x both versions (branch decided by a NumPy reference), "
        "sparse receivers and operands WITHOUT nonzeros or with a single one for every unary, binary (either side, both), "
        "scale (every factor kind), product and mask operation, dense receivers without nonzeros / all ones, the tensor "
        "without modes, identity scalars (+0, *1, /1, **1), identity matrices, all-ones masks, single-element lists and "
        "single-component Kruskal tensors, Kruskal tensors already in normal form / already symmetric, sum tensors with "
        "parts without nonzeros, khatrirao of ONE matrix in every layout and 1-row / 1-column shape, helper functions on "
        "empty / identical row sets and identity renumberings, algorithms that stop at once (maxiters 0 / 1, a tolerance met "
        "by the first iteration, optimizers with no iteration, full ranks). Besides the array level (np.shares_memory, "
        "write every element, both directions) every case is observed at OBJECT level: a returned pyttb object that IS an "
        "operand object, and a write through the public __setitem__ of either side re-read through the other (holders "
        "re-walked, so a rebound attribute counts - this is what makes an aliased tensor without nonzeros visible); "
        "tensor.tenfun / tenfun_unary / tenfun_binary also with handles that return (a view of) their argument, with and without inputs; "
        "non-trivial = the call succeeded and returned or changed at least one array; distinct = distinct case hash")
ASSUMPTIONS = [
    "the classification of NumPy calls into view / fresh / in-place write used by the heap model (checked on every "
    "run by the 'numpy_prims' family against np.shares_memory, strides and contiguity flags)",
    "np.shares_memory is exact; writing every element of an array makes any shared cell visible",
    "callables passed by the caller (elemfun, collapse, from_function) return new arrays; tensor.tenfun / tenfun_unary / "
    "tenfun_binary are exercised with handles that return (a view of) the array they are given as well",
    "object identity and the objects' own __setitem__ are checked by the harness against the property text directly (the "
    "heap model speaks about array cells; an object whose arrays have no cells is outside it)",
]
TRUSTED_EXTRA = ["NumPy's own view / copy behaviour below the modelled primitives (exercised, not proved)"]
EXHAUSTIVE = {"quick": False, "thorough": False}

CLASSES = {"tensor": ttb.tensor, "sptensor": ttb.sptensor, "ktensor": ttb.ktensor, "ttensor": ttb.ttensor,
           "sumtensor": ttb.sumtensor, "tenmat": ttb.tenmat, "sptenmat": ttb.sptenmat}
ALGS = ["cp_als", "cp_apr", "tucker_als", "hosvd", "gcp_opt"]
SKIP_NAMES = {"__class__", "__dict__", "__doc__", "__module__", "__weakref__", "__init_subclass__",
              "__subclasshook__", "__new__", "__getattribute__", "__setattr__", "__delattr__", "__dir__",
              "__format__", "__hash__", "__reduce__", "__reduce_ex__", "__sizeof__", "__getstate__",
              "__annotations__", "__slots__", "__static_attributes__", "__firstlineno__"}


def public_methods(cls):
    """Public callables and properties defined by pyttb for a class (not the slot attributes)."""
    out = []
    for n, _ in inspect.getmembers(cls):
        if n in SKIP_NAMES or (n.startswith("_") and not (n.startswith("__") and n.endswith("__"))):
            continue
        owner = [c for c in cls.__mro__ if n in c.__dict__][:1]
        if not owner or owner[0] is object:
            continue
        st = inspect.getattr_static(cls, n)
        if type(st).__name__ == "member_descriptor":
            continue  # slot attribute (data, subs, ...), not an operation
        out.append(n)
    return sorted(out)


# ----------------------------------------------------------------------------
# JSON specs -> Python objects
# ----------------------------------------------------------------------------
def arr(shape, data, dtype="f", layout="F"):
    return {"t": "arr", "shape": list(shape), "data": list(data), "dtype": dtype, "layout": layout}


def py(v):
    return {"t": "py", "v": v}


def lst(items):
    return {"t": "list", "items": list(items)}


def tup(items):
    return {"t": "tuple", "items": list(items)}


def sl(a=None, b=None):
    return {"t": "slice", "a": a, "b": b}


def fn(name):
    return {"t": "fn", "name": name}


def rows(rws, dtype="i", layout="C"):
    """2-d array given by its rows."""
    r, c = len(rws), len(rws[0])
    return arr([r, c], [rws[i][j] for j in range(c) for i in range(r)], dtype, layout)


def iarr(vals):
    return arr([len(vals)], vals, "i")


def farr(vals):
    return arr([len(vals)], vals, "f")


FUNCS = {
    "abs": lambda x: np.abs(x),
    "plus1": lambda x: x + 1,
    "add": lambda x, y: x + y,
    "max0": lambda x: np.max(x, axis=0),
    "sum": np.sum,
    "ones": lambda s: np.ones(s),
    "ones_f": lambda s: np.ones(s, order="F"),
    "sqrtabs": lambda x: np.sqrt(np.abs(x)) + 1,
    # handles that return (a view of) the array they were given: what the operation builds from the handle's
    # return value must still be independent of the operands
    "ident": lambda x: x,
    "row0": lambda x: x[0, :],
    "lastrow": lambda x: x[-1:, :],
    "first": lambda x, y: x,
    "second": lambda x, y: y,
}
VIEW_FUNCS = ("ident", "row0", "lastrow", "first", "second")


def build(s):
    t = s["t"]
    if t == "py":
        return s["v"]
    if t == "arr":
        dt = {"f": float, "i": int, "b": bool, "c": complex}[s["dtype"]]
        shape = tuple(s["shape"])
        base = np.array(s["data"], dtype=dt).reshape(shape, order="F")
        if dt is complex:
            base = base * (1 + 2j)
        lay = s["layout"]
        if lay == "F":
            return np.asfortranarray(base).copy(order="F")
        if lay == "C":
            return np.ascontiguousarray(base).copy(order="C")
        if lay == "S":  # every other element of a larger buffer along the first axis: not contiguous
            big = np.zeros((2 * shape[0],) + shape[1:], dtype=dt, order="F")
            v = big[::2]
            v[...] = base
            return v
        raise ValueError(lay)
    if t == "list":
        return [build(x) for x in s["items"]]
    if t == "tuple":
        return tuple(build(x) for x in s["items"])
    if t == "slice":
        return slice(s["a"], s["b"])
    if t == "fn":
        return FUNCS[s["name"]]
    if t == "tensor":
        if not s["shape"]:
            return ttb.tensor()  # the tensor without modes and without entries
        return gen.mk_tensor(ttb, s["shape"], s["data"])
    if t == "sptensor":
        return gen.mk_sptensor(ttb, s["shape"], s["subs"], s["vals"])
    if t == "ktensor":
        return gen.mk_ktensor(ttb, s["weights"], s["factors"])
    if t == "ttensor":
        core = build(s["core"])
        fac = [np.asfortranarray(np.array(f, dtype=float).reshape(len(f), -1)) for f in s["factors"]]
        return ttb.ttensor(core, fac)
    if t == "sumtensor":
        return ttb.sumtensor([build(p) for p in s["parts"]])
    if t == "tenmat_raw":  # the constructor itself, any dtype / layout of the data
        return ttb.tenmat(build(s["data"]), np.array(s["rdims"], dtype=int), np.array(s["cdims"], dtype=int),
                          tuple(s["tshape"]))
    if t == "coo":
        d = build(s["dense"])
        return sps.coo_matrix(d)
    if t == "tenmat":
        if "cdims" in s:
            return build(s["tensor"]).to_tenmat(np.array(s["rdims"], dtype=int), np.array(s["cdims"], dtype=int))
        return build(s["tensor"]).to_tenmat(np.array(s["rdims"], dtype=int))
    if t == "sptenmat":
        if "cdims" in s:
            return build(s["sptensor"]).to_sptenmat(np.array(s["rdims"], dtype=int), np.array(s["cdims"], dtype=int))
        return build(s["sptensor"]).to_sptenmat(np.array(s["rdims"], dtype=int))
    if t == "sampler":
        from pyttb.gcp import samplers as SM
        data = build(s["data"])
        kw = {"max_iters": 4}
        if s.get("kind") == "uniform":
            kw.update(function_sampler=SM.Samplers.UNIFORM, function_samples=6,
                      gradient_sampler=SM.Samplers.UNIFORM, gradient_samples=6)
        elif s.get("kind") == "stratified":
            cnt = SM.StratifiedCount(2, 3)
            kw.update(function_sampler=SM.Samplers.STRATIFIED, function_samples=cnt,
                      gradient_sampler=SM.Samplers.STRATIFIED, gradient_samples=cnt)
        elif s.get("kind") == "semistrat":
            cnt = SM.StratifiedCount(2, 3)
            kw.update(function_sampler=SM.Samplers.STRATIFIED, function_samples=cnt,
                      gradient_sampler=SM.Samplers.SEMISTRATIFIED, gradient_samples=cnt)
        return SM.GCPSampler(data, **kw)
    if t == "objective":
        from pyttb.gcp.handles import Objectives
        return getattr(Objectives, s["name"])
    if t == "optimizer":
        from pyttb.gcp import optimizers as O
        if s["name"] == "LBFGSB":
            return O.LBFGSB(maxiter=s.get("max_iters", 2))
        return getattr(O, s["name"])(max_iters=s.get("max_iters", 1), epoch_iters=2, printitn=0)
    raise ValueError(f"spec {t}")


def Tspec(rng, shape):
    return {"t": "tensor", "shape": list(shape), "data": gen.dense_data(rng, shape)}


def Tpos(rng, shape):
    return {"t": "tensor", "shape": list(shape), "data": [rng.randint(1, 5) for _ in range(gen.numel(shape))]}


def Sspec(rng, shape, klass="some"):
    subs, vals = gen.sparse_entries(rng, shape, klass)
    if klass == "some" and len(subs) < 2:
        subs, vals = gen.sparse_entries(rng, shape, "all")
        subs, vals = subs[: max(2, len(subs) // 2)], vals[: max(2, len(subs) // 2)]
    return {"t": "sptensor", "shape": list(shape), "subs": subs, "vals": vals}


def Spos(rng, shape):
    s = Sspec(rng, shape)
    s["vals"] = [abs(v) for v in s["vals"]]
    return s


def Kspec(rng, shape, R=2, unit=False, pos=False, normal=False):
    """normal: already in normal form – every column is a signed unit vector (norm one in every norm),
    weights one (so normalize / arrange / fixsigns have nothing to do)."""
    def mat(m):
        if normal:
            cols = [rng.randrange(m) for _ in range(R)]
            return [[1 if cols[r] == i else 0 for r in range(R)] for i in range(m)]
        if pos:
            return [[rng.randint(1, 4) for _ in range(R)] for _ in range(m)]
        return [[rng.choice([-3, -2, -1, 1, 2, 3]) for _ in range(R)] for _ in range(m)]
    w = [1] * R if unit else [rng.choice([2, 3, 4, 5]) for _ in range(R)]
    return {"t": "ktensor", "weights": w, "factors": [mat(m) for m in shape]}


def TTspec(rng, shape, cshape=None):
    cshape = cshape or [min(2, m) for m in shape]
    return {"t": "ttensor", "core": Tspec(rng, cshape),
            "factors": [[[rng.choice([-2, -1, 1, 2, 3]) for _ in range(c)] for _ in range(m)] for m, c in zip(shape, cshape)]}


def Tzero(shape):
    """A dense tensor without nonzeros."""
    return {"t": "tensor", "shape": list(shape), "data": [0] * gen.numel(shape)}


def Tones(shape):
    return {"t": "tensor", "shape": list(shape), "data": [1] * gen.numel(shape)}


def sym_data(rng, shape, grps):
    """F-ordered data of a tensor that is symmetric in every listed group of modes (the value of an
    entry depends on its subscript only through the sorted subscripts of each group)."""
    vals = {}
    out = []
    for sub in gen.all_subs(shape):
        key = list(sub)
        for g in grps:
            srt = sorted(sub[k] for k in g)
            for k, v in zip(sorted(g), srt):
                key[k] = v
        out.append(vals.setdefault(tuple(key), rng.choice([-4, -3, -2, -1, 1, 2, 3, 4, 5])))
    return out


def is_sym(shape, data, grps):
    """Reference (plain NumPy): the tensor equals every transposition of itself that permutes the
    modes within the groups.  Decides which branch of `symmetrize` runs."""
    import itertools
    A = np.array(data, dtype=float).reshape(tuple(shape), order="F")
    for g in grps:
        for q in itertools.permutations(g):
            order = list(range(len(shape)))
            for a, b in zip(g, q):
                order[a] = b
            if tuple(shape[k] for k in order) != tuple(shape) or not np.array_equal(A, np.transpose(A, order)):
                return False
    return True


def empty_selections(N, items):
    """Argument conventions that select NO mode of an order-N object for ttv / ttm: `dims=[]` or
    `exclude_dims` = every mode, with N multiplicands (`items`) or with none, as array and list."""
    allm = list(range(N))
    return [("none/dims-empty/N", [lst(items)], {"dims": iarr([])}),
            ("none/dims-empty/0", [lst([])], {"dims": iarr([])}),
            ("none/exclude-all/N", [lst(items)], {"exclude_dims": iarr(allm)}),
            ("none/exclude-all/0", [lst([])], {"exclude_dims": iarr(allm)}),
            ("none/exclude-all-list/N", [lst(items)], {"exclude_dims": py(allm)})]


def mat(rng, r, c, layout="F"):
    return arr([r, c], [rng.choice([-3, -2, -1, 1, 2, 3]) for _ in range(r * c)], "f", layout)


def vec(rng, n):
    return farr([rng.choice([-3, -2, -1, 1, 2, 3]) for _ in range(n)])


# ----------------------------------------------------------------------------
# walking objects for their arrays
# ----------------------------------------------------------------------------
def _j(path, name):
    return f"{path}.{name}" if path else name


def walk(obj, path, out, depth=0):
    if depth > 6 or obj is None:
        return out
    if isinstance(obj, np.ndarray):
        out.append((path or "arr", obj))
    elif isinstance(obj, ttb.tensor):
        walk(obj.data, _j(path, "data"), out, depth + 1)
    elif isinstance(obj, ttb.sptensor):
        walk(obj.subs, _j(path, "subs"), out, depth + 1)
        walk(obj.vals, _j(path, "vals"), out, depth + 1)
    elif isinstance(obj, ttb.ktensor):
        walk(obj.weights, _j(path, "weights"), out, depth + 1)
        for i, f in enumerate(obj.factor_matrices):
            walk(f, _j(path, f"f{i}"), out, depth + 1)
    elif isinstance(obj, ttb.ttensor):
        walk(obj.core, _j(path, "core"), out, depth + 1)
        for i, f in enumerate(obj.factor_matrices):
            walk(f, _j(path, f"f{i}"), out, depth + 1)
    elif isinstance(obj, ttb.sumtensor):
        for i, p in enumerate(obj.parts):
            walk(p, _j(path, f"p{i}"), out, depth + 1)
    elif isinstance(obj, ttb.tenmat):
        for n in ("data", "rindices", "cindices"):
            walk(getattr(obj, n), _j(path, n), out, depth + 1)
    elif isinstance(obj, ttb.sptenmat):
        for n in ("subs", "vals", "rdims", "cdims"):
            walk(getattr(obj, n), _j(path, n), out, depth + 1)
    elif sps.issparse(obj):
        for n in ("data", "row", "col", "indices", "indptr"):
            if hasattr(obj, n):
                walk(getattr(obj, n), _j(path, n), out, depth + 1)
    elif isinstance(obj, (list, tuple)):
        for i, x in enumerate(obj):
            walk(x, _j(path, str(i)), out, depth + 1)
    elif isinstance(obj, dict):
        for k in sorted(obj, key=str):
            walk(obj[k], _j(path, str(k)), out, depth + 1)
    elif type(obj).__module__.startswith("pyttb.") and hasattr(obj, "__dict__") and not callable(obj):
        # sampler / optimizer objects handed to an algorithm: every array they hold
        for k in sorted(vars(obj)):
            walk(vars(obj)[k], _j(path, k), out, depth + 1)
    return out


PYTTB_TYPES = (ttb.tensor, ttb.sptensor, ttb.ktensor, ttb.ttensor, ttb.sumtensor, ttb.tenmat, ttb.sptenmat)


def walk_objs(obj, path, out, depth=0):
    """The pyttb objects reachable from obj (the object itself, parts of a sum tensor, the core of
    a Tucker tensor, entries of lists / tuples / dicts), with their paths."""
    if depth > 6 or obj is None:
        return out
    if isinstance(obj, PYTTB_TYPES):
        out.append((path, obj))
        if isinstance(obj, ttb.ttensor):
            walk_objs(obj.core, _j(path, "core"), out, depth + 1)
        elif isinstance(obj, ttb.sumtensor):
            for i, q in enumerate(obj.parts):
                walk_objs(q, _j(path, f"p{i}"), out, depth + 1)
    elif isinstance(obj, (list, tuple)):
        for i, x in enumerate(obj):
            walk_objs(x, _j(path, str(i)), out, depth + 1)
    elif isinstance(obj, dict):
        for k in sorted(obj, key=str):
            walk_objs(obj[k], _j(path, str(k)), out, depth + 1)
    return out


def under(name, path):
    """Is the array / object called `name` the object at `path` or inside it?"""
    return path == "" or name == path or name.startswith(path + ".")


def poke(obj, val=7.5):
    """Change one entry of a pyttb object through its OWN public `__setitem__` (for a sparse object
    this rebinds its arrays, so it is visible through another name of the same object even when no
    array has a cell to share – the tensor without nonzeros).  False when there is nothing to write."""
    try:
        if isinstance(obj, (ttb.tensor, ttb.sptensor)):
            shape = tuple(int(d) for d in obj.shape)
            if len(shape) == 0 or 0 in shape:
                return False
            key = tuple([0] * len(shape)) if len(shape) > 1 else 0
            with warnings.catch_warnings():
                warnings.simplefilter("ignore")
                obj[key] = val  # never a value of the generated data (small integers)
            return True
        if isinstance(obj, (ttb.tenmat, ttb.sptenmat)):
            shape = tuple(int(d) for d in obj.shape)
            if len(shape) != 2 or 0 in shape:
                return False
            if isinstance(obj, ttb.tenmat) and not np.issubdtype(obj.data.dtype, np.floating):
                return False
            obj[0, 0] = val
            return True
    except Exception:  # noqa: BLE001
        return False
    return False


def snap(a):
    return (a.tobytes(), str(a.dtype), a.shape)


def perturb(a):
    """Change every element in place. Returns False when the array cannot be written."""
    if not a.flags.writeable or a.size == 0:
        return False
    try:
        if a.dtype == bool:
            a[...] = ~a
        elif np.issubdtype(a.dtype, np.integer):
            a[...] = a + 1
        elif np.issubdtype(a.dtype, np.floating):
            a[...] = np.where(np.isfinite(a), a + 1.0, 0.0)
        elif np.issubdtype(a.dtype, np.complexfloating):
            a[...] = np.where(np.isfinite(a), a + 1.0, 0.0)
        else:
            return False
    except Exception:  # noqa: BLE001
        return False
    return True


def descr(a):
    """Shape and strides (in elements) of an operand array for the model."""
    it = a.itemsize or 1
    strides = []
    for d, s in zip(a.shape, a.strides):
        strides.append(0 if d <= 1 and s < 0 else abs(s) // it)
    return {"shape": [int(x) for x in a.shape], "strides": [int(x) for x in strides]}


def resolve(c, recv):
    cls, m = c["cls"], c["method"]
    if cls == "alg":
        return getattr(ttb, m)
    if cls == "utils":
        return getattr(ttb.pyttb_utils, m)
    if cls == "func":
        return getattr(ttb, m)
    if c["kind"] == "ctor":
        return CLASSES[cls]
    if c["kind"] == "static":
        return getattr(CLASSES[cls], m)
    if c["kind"] == "prop":
        return lambda: getattr(recv, m)
    return getattr(recv, m)


def changed_operands(c, operands, before, recv, args, kwargs):
    """Operand positions whose array changed bit-wise, or whose holder now holds another array
    (an attribute or list element of an operand object was rebound)."""
    mut = {i for i, (_, a) in enumerate(operands) if snap(a) != before[i]}
    after = []
    if c["kind"] != "inplace":
        walk(recv, "self", after)
    else:
        after.extend((n, a) for n, a in operands if n == "self" or n.startswith("self."))
    for i, a in enumerate(args):
        walk(a, f"a{i}", after)
    for k in kwargs:
        walk(kwargs[k], f"k.{k}", after)
    now = dict(after)
    for i, (n, _) in enumerate(operands):
        if n not in now or snap(now[n]) != before[i]:
            mut.add(i)
    return sorted(mut)


def observe(c):
    """Run one case on the implementation. Returns a dict of observations."""
    recv = build(c["recv"]) if c.get("recv") is not None else None
    args = [build(a) for a in c.get("args", [])]
    kwargs = {k: build(v) for k, v in c.get("kwargs", {}).items()}
    operands = []
    walk(recv, "self", operands)
    for i, a in enumerate(args):
        walk(a, f"a{i}", operands)
    for k in kwargs:
        walk(kwargs[k], f"k.{k}", operands)
    before = [snap(a) for _, a in operands]
    obs = {"operands": [n for n, _ in operands], "descr": [descr(a) for _, a in operands]}
    try:
        with warnings.catch_warnings():
            warnings.simplefilter("ignore")
            with np.errstate(all="ignore"), contextlib.redirect_stdout(io.StringIO()):
                result = resolve(c, recv)(*args, **kwargs)
    except Exception as e:  # noqa: BLE001
        obs["reject"] = f"{type(e).__name__}: {str(e)[:120]}"
        obs["mut"] = changed_operands(c, operands, before, recv, args, kwargs)
        return obs
    finally:
        try:
            import matplotlib.pyplot as plt
            plt.close("all")
        except Exception:  # noqa: BLE001
            pass
    obs["mut"] = changed_operands(c, operands, before, recv, args, kwargs)
    results = []
    if c["kind"] == "inplace":
        walk(recv, "", results)
    else:
        walk(result, "", results)
    obs["results"] = [n for n, _ in results]
    obs["rtype"] = type(result).__name__
    share = set()
    for rn, r in results:
        for i, (_, o) in enumerate(operands):
            if r.size and o.size and np.shares_memory(r, o):
                share.add((rn, i))
    # (c) write through each side, look at the other
    vis = set()
    for rn, r in results:
        cur = [snap(o) for _, o in operands]
        if perturb(r):
            for i, (_, o) in enumerate(operands):
                if snap(o) != cur[i]:
                    vis.add((rn, i))
    for i, (_, o) in enumerate(operands):
        cur = [snap(r) for _, r in results]
        if perturb(o):
            for k, (rn, r) in enumerate(results):
                if snap(r) != cur[k]:
                    vis.add((rn, i))
    obs["share"] = sorted(share)
    obs["visible"] = sorted(vis)
    obs["rsize"] = [int(r.size) for _, r in results]
    # (d) object level.  Identity: a pyttb object reachable from the result IS an object reachable
    # from an operand.  Write-through with the objects' own `__setitem__` in both directions: the
    # arrays reachable from the other side are re-walked from their holders, so a rebound attribute
    # counts (what makes an aliased tensor WITHOUT nonzeros observable: no array has a cell to share).
    obs["same"], obs["visible_obj"] = [], []
    if c["kind"] != "inplace":
        robjs = walk_objs(result, "", [])
        oobjs = walk_objs(recv, "self", [])
        for i, a in enumerate(args):
            walk_objs(a, f"a{i}", oobjs)
        for k in kwargs:
            walk_objs(kwargs[k], f"k.{k}", oobjs)
        obs["same"] = sorted((rp, op) for rp, ro in robjs for op, oo in oobjs if ro is oo)

        def operand_snaps():
            now = walk(recv, "self", [])
            for i, a in enumerate(args):
                walk(a, f"a{i}", now)
            for k in kwargs:
                walk(kwargs[k], f"k.{k}", now)
            return {n: snap(a) for n, a in now}

        def result_snaps():
            return {n: snap(a) for n, a in walk(result, "", [])}

        def changed(before_, after_):
            return sorted(n for n in set(before_) | set(after_) if before_.get(n) != after_.get(n))

        vo = set()
        for rp, ro in robjs:
            cur = operand_snaps()
            if poke(ro):
                for n in changed(cur, operand_snaps()):
                    vo.add(("r", rp, n))
        for op, oo in oobjs:
            cur = result_snaps()
            if poke(oo, 8.5):
                for n in changed(cur, result_snaps()):
                    vo.add(("o", n, op))
        obs["visible_obj"] = sorted(vo)
    return obs


# ----------------------------------------------------------------------------
# cases
# ----------------------------------------------------------------------------
def M(cls, method, **params):
    return {"cls": cls, "method": method, "params": params}


COMP = {"cls": "any", "method": "computed", "params": {}, "auto": "results"}
COPYALL = {"cls": "any", "method": "copy_all", "params": {}, "auto": "recv"}


def case(cls, method, label, recv=None, args=(), kwargs=None, model=COMP, kind="pure"):
    return {"cls": cls, "method": method, "kind": kind, "label": label, "recv": recv,
            "args": list(args), "kwargs": dict(kwargs or {}), "model": model}


def keeps_layout(shape, order):
    """Transposing F-contiguous data of this shape by `order` leaves it F-contiguous (theorem
    C05_view_iff_fcontig and its singleton corollary): the modes of extent > 1 keep their
    relative order.  These are exactly the orders for which the model predicts a VIEW unless
    the code copies, so every operation that takes a mode order / mode split is swept over them."""
    ns = [k for k in order if shape[k] != 1]
    return ns == sorted(ns)


def _all_orders(rng, n):
    import itertools
    if n <= 4:
        return [list(q) for q in itertools.permutations(range(n))]
    return [list(range(n))] + [gen.perm(rng, n) for _ in range(30)]


def perms_for(rng, shape, tier):
    """Mode orders: the identity, every order that only relocates singleton modes (capped in the
    quick tier), the reversal and a random order that changes the layout."""
    n = len(shape)
    allp = _all_orders(rng, n)
    if tier == "thorough":
        return allp
    ident = list(range(n))
    keep = [q for q in allp if keeps_layout(shape, q) and q != ident]
    other = [q for q in allp if not keeps_layout(shape, q)]
    out = [ident] + (keep if len(keep) <= 5 else rng.sample(keep, 5))
    rev = ident[::-1]
    if rev in other:
        out.append(rev)
    rest = [q for q in other if q not in out]
    if rest:
        out.append(rng.choice(rest))
    return out


def mode_splits(rng, shape, tier):
    """(rdims, cdims) pairs for matricizations: every single row mode, the two trivial splits,
    every split of an order that only relocates singleton modes (capped in the quick tier), and
    splits of layout-changing orders."""
    n = len(shape)
    ident = list(range(n))
    out = [([r], [k for k in ident if k != r]) for r in ident]
    out += [(ident, []), ([], ident)]
    allp = _all_orders(rng, n)
    keep, other = [], []
    for q in allp:
        for cut in range(1, n):
            sp = (q[:cut], q[cut:])
            (keep if keeps_layout(shape, q) else other).append(sp)
    keep = [sp for sp in keep if sp not in out]
    other = [sp for sp in other if sp not in out]
    if tier == "quick":
        keep = keep if len(keep) <= 6 else rng.sample(keep, 6)
        other = other if len(other) <= 2 else rng.sample(other, 2)
    seen, res = set(), []
    for sp in out + keep + other:
        key = (tuple(sp[0]), tuple(sp[1]))
        if key not in seen:
            seen.add(key)
            res.append(sp)
    return res


def mode_subsets(rng, n, tier):
    """Non-empty subsets of the modes (all of them for n <= 3, or in the thorough tier)."""
    import itertools
    subs = [list(c) for k in range(1, n + 1) for c in itertools.combinations(range(n), k)]
    if tier == "thorough" or n <= 3:
        return subs
    singles = [c for c in subs if len(c) == 1]
    rest = [c for c in subs if len(c) > 1]
    return singles + rng.sample(rest, min(4, len(rest)))


def reshape_targets(shape):
    """Size-preserving targets: the shape itself, flattening, merging the first two modes,
    appending / prepending / dropping / relocating singleton modes, two-factor splits."""
    n = gen.numel(shape)
    out = [list(shape), [n]]
    if len(shape) >= 2:
        out.append([shape[0] * shape[1]] + list(shape[2:]))
    out.append(list(shape) + [1])
    out.append([1] + list(shape))
    nos = [d for d in shape if d != 1]
    if nos and nos != list(shape):
        out.append(nos)
        out.append(nos + [1] * (len(shape) - len(nos)))
    for d in (2, 3):
        if n % d == 0:
            out.append([d, n // d])
    res = []
    for t in out:
        if t not in res:
            res.append(t)
    return res


DENSE_SHAPES = [[2, 3, 4], [3, 1, 2], [3, 4], [4], [1, 3], [2, 1, 1, 3], [2, 3, 1, 2], [1, 1, 2]]


def tensor_cases(rng, tier):
    out = []
    C = "tensor"
    # constructors ------------------------------------------------------------------------
    for shape in [[2, 3, 4], [3, 4], [4], [1, 3], [3, 1]]:
        n = gen.numel(shape)
        data = gen.dense_data(rng, shape)
        for lay in ("F", "C", "S"):
            for copy in (True, False):
                out.append(case(C, "__init__", f"{lay}/copy={copy}", None, [arr(shape, data, "f", lay)],
                                {"copy": py(copy)}, M(C, "__init__", shape=shape, copy=copy), "ctor"))
        tgt = reshape_targets(shape)[-1]
        for lay in ("F", "C"):
            for copy in (True, False):
                out.append(case(C, "__init__", f"{lay}/shape/copy={copy}", None, [arr(shape, data, "f", lay), py(tgt)],
                                {"copy": py(copy)}, M(C, "__init__", shape=tgt, copy=copy), "ctor"))
        out.append(case(C, "__init__", "shape-array", None, [arr(shape, data), iarr(shape)], {},
                        M(C, "__init__", shape=shape, copy=True), "ctor"))
    out.append(case(C, "from_function", "ones", None, [fn("ones"), py([2, 3])], {}, COMP, "static"))
    out.append(case(C, "from_function", "ones_f", None, [fn("ones_f"), py([2, 3])], {}, COMP, "static"))
    # receivers ----------------------------------------------------------------------------
    shapes = DENSE_SHAPES if tier == "quick" else DENSE_SHAPES + [gen.shape(rng, 1, 4, 3) for _ in range(16)]
    # every receiver shape with generic data; two of them also WITHOUT nonzeros and with all entries one
    recvs = [(shape, Tspec(rng, shape), "") for shape in shapes]
    recvs += [(shape, Tzero(shape), "zero/") for shape in ([2, 3, 4], [3, 1, 2], [4])]
    recvs += [([2, 3, 2], Tones([2, 3, 2]), "ones/")]
    for shape, X, variant in recvs:
        first = len(out)
        N = len(shape)
        EW = M(C, "elementwise", shape=shape)
        for m in ("copy", "__pos__", "full"):
            out.append(case(C, m, "", X, [], {}, M(C, "copy", shape=shape)))
        out.append(case(C, "__deepcopy__", "", X, [py({})], {}, M(C, "copy", shape=shape)))
        out.append(case(C, "double", "", X, [], {}, M(C, "double")))
        for m in ("__neg__", "exp", "logical_not", "__repr__", "__str__", "norm"):
            out.append(case(C, m, "", X))
        for m in ("ndims", "nnz", "order"):
            out.append(case(C, m, "", X, kind="prop"))
        out.append(case(C, "find", "", X, [], {}, M(C, "find")))
        out.append(case(C, "to_sptensor", "", X, [], {}, M(C, "to_sptensor")))
        # permute
        for p in perms_for(rng, shape, tier):
            ps = [shape[k] for k in p]
            for form in ("arr", "list"):
                a = iarr(p) if form == "arr" else py(p)
                out.append(case(C, "permute", f"{form}/{'id' if p == sorted(p) else 'perm'}", X, [a], {},
                                M(C, "permute", perm=p, shape=ps)))
        out.append(case(C, "permute", "arr2d", X, [arr([1, N], list(range(N)), "i")], {},
                        M(C, "permute", perm=list(range(N)), shape=shape)))
        # reshape
        for t in reshape_targets(shape):
            out.append(case(C, "reshape", "same" if t == shape else "other", X, [py(t)], {}, M(C, "reshape", shape=t)))
        out.append(case(C, "reshape", "shape-array", X, [iarr(shape)], {}, M(C, "reshape", shape=shape)))
        # squeeze
        sq = [d for d in shape if d > 1]
        flag = "none" if len(sq) == N else ("scalar" if not sq else "some")
        out.append(case(C, "squeeze", flag, X, [], {}, M(C, "squeeze", flag=flag, shape=(shape if flag == "none" else sq))))
        # to_tenmat over mode splits (incl. splits that only relocate singleton modes)
        for rd, cd in mode_splits(rng, shape, tier):
            for copy in (True, False):
                lab = ("keeps-layout" if keeps_layout(shape, rd + cd) else "relayout") + f"/copy={copy}"
                out.append(case(C, "to_tenmat", lab, X, [], {"rdims": iarr(rd), "cdims": iarr(cd), "copy": py(copy)},
                                M(C, "to_tenmat", perm=rd + cd, dims=[shape[k] for k in rd + cd],
                                  shape=[gen.numel([shape[k] for k in rd]), gen.numel([shape[k] for k in cd])], copy=copy)))
        for r in range(N):
            rd = [r]
            cd = [k for k in range(N) if k != r]
            out.append(case(C, "to_tenmat", "rdims-only", X, [iarr(rd)], {"copy": py(False)},
                            M(C, "to_tenmat", perm=rd + cd, dims=[shape[k] for k in rd + cd],
                              shape=[shape[r], gen.numel(shape) // shape[r]], copy=False)))
        if N >= 2:
            out.append(case(C, "to_tenmat", "cdims", X, [], {"cdims": iarr([0])},
                            M(C, "to_tenmat", perm=list(range(1, N)) + [0], dims=shape[1:] + shape[:1],
                              shape=[gen.numel(shape) // shape[0], shape[0]], copy=True)))
            out.append(case(C, "to_tenmat", "fc", X, [iarr([1])], {"cdims_cyclic": py("fc"), "copy": py(False)},
                            M(C, "to_tenmat", perm=[1] + list(range(2, N)) + [0],
                              dims=[shape[k] for k in [1] + list(range(2, N)) + [0]],
                              shape=[shape[1], gen.numel(shape) // shape[1]], copy=False)))
        # element-wise binary
        Y = Tspec(rng, shape)
        for m in ("__add__", "__sub__", "__mul__", "__truediv__", "__eq__", "__ne__", "__ge__", "__gt__", "__le__",
                  "__lt__", "__pow__", "logical_and", "logical_or", "logical_xor"):
            out.append(case(C, m, "tensor", X, [Y], {}, EW))
            out.append(case(C, m, "scalar", X, [py(2.0)], {}, EW))
        for m in ("__radd__", "__rmul__", "__rtruediv__"):
            out.append(case(C, m, "scalar", X, [py(2.0)], {}, EW))
        out.append(case(C, "__mul__", "sptensor", X, [Sspec(rng, shape)], {}, EW))
        out.append(case(C, "__mul__", "ktensor", X, [Kspec(rng, shape)], {}, EW))
        out.append(case(C, "__add__", "sumtensor", X, [{"t": "sumtensor", "parts": [Tspec(rng, shape)]}],
                        {}, COMP))
        out.append(case(C, "isequal", "tensor", X, [Y]))
        out.append(case(C, "isequal", "sptensor", X, [Sspec(rng, shape)]))
        out.append(case(C, "innerprod", "tensor", X, [Y]))
        out.append(case(C, "innerprod", "sptensor", X, [Sspec(rng, shape)]))
        if N >= 2:
            out.append(case(C, "innerprod", "ktensor", X, [Kspec(rng, shape)]))
            out.append(case(C, "innerprod", "ttensor", X, [TTspec(rng, shape)]))
        out.append(case(C, "tenfun", "unary", X, [fn("abs")]))
        out.append(case(C, "tenfun", "binary", X, [fn("add"), Y]))
        out.append(case(C, "tenfun", "binary-scalar", X, [fn("add"), py(1.0)]))
        out.append(case(C, "tenfun", "unary-many", X, [fn("max0"), Y, arr(shape, gen.dense_data(rng, shape))]))
        out.append(case(C, "tenfun_binary", "", X, [fn("add"), Y]))
        out.append(case(C, "tenfun_binary", "first=False", X, [fn("add"), py(3.0)], {"first": py(False)}))
        out.append(case(C, "tenfun_unary", "", X, [fn("max0"), Y]))
        out.append(case(C, "tenfun_unary", "self", X, [fn("plus1")]))
        # handles that return a view of the matrix / arrays they are given (select a row, hand the argument back)
        Y2 = arr(shape, gen.dense_data(rng, shape))
        for h in ("row0", "lastrow"):
            out.append(case(C, "tenfun_unary", f"view:{h}:inputs", X, [fn(h), Y]))
            out.append(case(C, "tenfun_unary", f"view:{h}:2inputs", X, [fn(h), Y, Tspec(rng, shape)]))
            out.append(case(C, "tenfun", f"view:{h}:inputs", X, [fn(h), Y, Y2]))
            out.append(case(C, "tenfun", f"view:{h}:sparse-input", X, [fn(h), Sspec(rng, shape), Y2]))
        for h in ("ident", "row0", "lastrow"):
            out.append(case(C, "tenfun_unary", f"view:{h}:self", X, [fn(h)]))
            out.append(case(C, "tenfun", f"view:{h}:self", X, [fn(h)]))
        for h in ("first", "second"):
            out.append(case(C, "tenfun", f"view:{h}:tensor", X, [fn(h), Y]))
            out.append(case(C, "tenfun", f"view:{h}:ndarray", X, [fn(h), Y2]))
            out.append(case(C, "tenfun", f"view:{h}:sptensor", X, [fn(h), Sspec(rng, shape)]))
            out.append(case(C, "tenfun_binary", f"view:{h}:tensor", X, [fn(h), Y]))
            out.append(case(C, "tenfun_binary", f"view:{h}:first=False", X, [fn(h), Y], {"first": py(False)}))
        out.append(case(C, "mask", "", X, [{"t": "tensor", "shape": shape, "data": [i % 2 for i in range(gen.numel(shape))]}]))
        # collapse / scale
        out.append(case(C, "collapse", "all", X))
        if N >= 2:
            out.append(case(C, "collapse", "dims", X, [iarr([0])]))
            out.append(case(C, "collapse", "fun", X, [iarr([N - 1]), fn("sum")]))
            out.append(case(C, "collapse", "none", X, [iarr([])]))
            out.append(case(C, "scale", "vector", X, [vec(rng, shape[0]), iarr([0])]))
            out.append(case(C, "scale", "tensor", X, [Tspec(rng, [shape[1]]), py(1)]))
        # ttv / ttm / mttkrp / nvecs
        def ttv_model(dims):
            rem = [k for k in range(N) if k not in dims]
            perm = rem + dims
            sz = [shape[k] for k in perm]
            return M(C, "ttv", perm=perm, dims=[gen.numel(sz[:-1]), sz[-1]], shape=[shape[k] for k in rem],
                     flag="" if rem else "scalar")

        def ttm_model(n, rows):
            perm = [n] + [k for k in range(N) if k != n]
            return M(C, "ttm", perm=perm, dims=[perm.index(k) for k in range(N)],
                     shape=[rows if k == n else shape[k] for k in range(N)])

        out.append(case(C, "ttv", "one", X, [vec(rng, shape[0]), py(0)], {}, ttv_model([0])))
        out.append(case(C, "ttv", "all", X, [lst([vec(rng, d) for d in shape])], {}, ttv_model(list(range(N)))))
        # NO mode selected: nothing is multiplied, the result carries the receiver's entries
        for lab, a, kw in empty_selections(N, [vec(rng, d) for d in shape]):
            out.append(case(C, "ttv", lab, X, a, kw, M(C, "ttv", perm=list(range(N)), shape=shape, flag="none")))
            if lab in ("none/dims-empty/0", "none/exclude-all/N"):  # (rejected by tensor.ttm at the time of writing)
                out.append(case(C, "ttm", lab, X, [lst([mat(rng, 2, d) for d in shape]) if lab.endswith("N") else lst([])], kw))
        out.append(case(C, "ttm", "list-one", X, [lst([mat(rng, 2, shape[N - 1])]), iarr([N - 1])], {}))
        out.append(case(C, "ttm", "identity-matrix", X,
                        [arr([shape[0], shape[0]], [1 if i == j else 0 for j in range(shape[0]) for i in range(shape[0])]), py(0)],
                        {}, ttm_model(0, shape[0]) if N >= 2 else COMP))
        out.append(case(C, "collapse", "none-list", X, [py([])]))
        out.append(case(C, "collapse", "none-arr", X, [iarr([])]))
        out.append(case(C, "mask", "all-ones", X, [Tones(shape)]))
        for m, e in (("__add__", 0.0), ("__sub__", 0.0), ("__mul__", 1.0), ("__truediv__", 1.0), ("__pow__", 1.0),
                     ("__radd__", 0.0), ("__rmul__", 1.0)):
            out.append(case(C, m, "scalar-identity", X, [py(e)], {}, EW))
        out.append(case(C, "__add__", "zero-tensor", X, [Tzero(shape)], {}, EW))
        out.append(case(C, "__mul__", "ones-tensor", X, [Tones(shape)], {}, EW))
        out.append(case(C, "__mul__", "empty-sptensor", X, [Sspec(rng, shape, "empty")], {}, EW))
        out.append(case(C, "innerprod", "empty-sptensor", X, [Sspec(rng, shape, "empty")]))
        if N >= 2:
            for ds in mode_subsets(rng, N, tier):
                out.append(case(C, "ttv", f"dims{len(ds)}", X, [lst([vec(rng, shape[k]) for k in ds]), iarr(ds)], {},
                                ttv_model(ds)))
            out.append(case(C, "ttv", "exclude", X, [lst([vec(rng, d) for d in shape[1:]])], {"exclude_dims": py(0)},
                            ttv_model(list(range(1, N)))))
            for n in range(N):
                out.append(case(C, "ttm", f"mode{n}", X, [mat(rng, 2, shape[n]), py(n)], {}, ttm_model(n, 2)))
                out.append(case(C, "collapse", f"mode{n}", X, [iarr([n])]))
                out.append(case(C, "scale", f"mode{n}", X, [vec(rng, shape[n]), iarr([n])]))
            out.append(case(C, "ttm", "C-layout", X, [mat(rng, 2, shape[1], "C"), py(1)], {}, ttm_model(1, 2)))
            out.append(case(C, "ttm", "transpose", X, [mat(rng, shape[N - 1], 2), py(N - 1)], {"transpose": py(True)},
                            ttm_model(N - 1, 2)))
            out.append(case(C, "ttm", "list", X, [lst([mat(rng, 2, d) for d in shape])]))
            out.append(case(C, "ttm", "list-exclude", X, [lst([mat(rng, 2, d) for d in shape])], {"exclude_dims": iarr([0])}))
            U = [mat(rng, d, 2) for d in shape]
            for n in range(N):
                out.append(case(C, "mttkrp", f"list/{n}", X, [lst(U), py(n)], {}, M(C, "mttkrp")))
            out.append(case(C, "mttkrp", "ktensor", X, [Kspec(rng, shape), py(1)], {}, M(C, "mttkrp")))
            out.append(case(C, "mttkrps", "list", X, [lst(U)]))
            out.append(case(C, "mttkrps", "ktensor", X, [Kspec(rng, shape)]))
            out.append(case(C, "nvecs", "eigsh", X, [py(0), py(1)]))
            out.append(case(C, "nvecs", "dense", X, [py(N - 1), py(shape[N - 1])]))
            out.append(case(C, "ttt", "outer", X, [Tspec(rng, shape[:2])]))
            out.append(case(C, "ttt", "inner", X, [Y, iarr(list(range(N))), iarr(list(range(N)))]))
            out.append(case(C, "ttt", "one-mode", X, [Tspec(rng, [shape[0], 2]), py(0), py(0)]))
        # getitem
        n = gen.numel(shape)
        out.append(case(C, "__getitem__", "int", X, [py(n - 1)]))
        out.append(case(C, "__getitem__", "slice", X, [sl(0, n)]))
        out.append(case(C, "__getitem__", "linear-arr", X, [iarr([0, n - 1])]))
        out.append(case(C, "__getitem__", "linear-neg", X, [iarr([-1, 0])]))
        out.append(case(C, "__getitem__", "linear-list", X, [py([0, n - 1])]))
        out.append(case(C, "__getitem__", "subs", X, [rows([[0] * N, [d - 1 for d in shape]])]))
        out.append(case(C, "__getitem__", "subtensor-slices", X, [tup([sl(None, None)] * N)]))
        out.append(case(C, "__getitem__", "subtensor-mixed", X, [tup([sl(0, 1)] + [py(0)] * (N - 1))]))
        out.append(case(C, "__getitem__", "subtensor-scalar", X, [tup([py(0)] * N)]))
        # setitem (in place)
        si = lambda flag: M(C, "__setitem__", flag=flag)  # noqa: E731
        out.append(case(C, "__setitem__", "linear-arr", X, [iarr([0, n - 1]), py(7.0)], {}, si("linear"), "inplace"))
        out.append(case(C, "__setitem__", "linear-neg", X, [iarr([-1, 0]), farr([5, 6])], {}, si("linear"), "inplace"))
        out.append(case(C, "__setitem__", "linear-int", X, [py(0), py(7.0)], {}, si("sub"), "inplace"))
        out.append(case(C, "__setitem__", "subs", X, [rows([[0] * N, [d - 1 for d in shape]]), farr([5, 6])],
                        {}, si("sub"), "inplace"))
        out.append(case(C, "__setitem__", "subs-grow", X, [arr([1, N], [d for d in shape], "i", "C"), py(4.0)],
                        {}, si("grow"), "inplace"))
        out.append(case(C, "__setitem__", "subtensor-scalar", X, [tup([sl(None, None)] * N), py(3.0)], {}, si("sub"), "inplace"))
        out.append(case(C, "__setitem__", "subtensor-tensor", X, [tup([sl(None, None)] * N), Y], {}, si("sub"), "inplace"))
        out.append(case(C, "__setitem__", "subtensor-array", X,
                        [tup([sl(0, d) for d in shape]), arr(shape, gen.dense_data(rng, shape))], {}, si("sub"), "inplace"))
        out.append(case(C, "__setitem__", "subtensor-grow", X, [tup([py(d) for d in shape]), py(1.0)], {}, si("grow"), "inplace"))
        for c in out[first:]:
            c["label"] = variant + c["label"]
    # the tensor without modes and entries
    E0 = {"t": "tensor", "shape": [], "data": []}
    for m in ("copy", "__pos__", "full", "double", "__neg__", "norm", "squeeze", "to_sptensor", "find", "__repr__"):
        out.append(case(C, m, "no-modes", E0))
    out.append(case(C, "__deepcopy__", "no-modes", E0, [py({})]))
    out.append(case(C, "permute", "no-modes", E0, [iarr([])]))
    out.append(case(C, "reshape", "no-modes", E0, [py(())]))
    out.append(case(C, "__add__", "no-modes", E0, [E0]))
    out.append(case(C, "isequal", "no-modes", E0, [E0]))
    # receivers with modes of equal extent: contract, symmetrize, issymmetric, ttsv.  symmetrize over generic,
    # ALREADY SYMMETRIC (nothing to average: the result carries the receiver's entries), partly symmetric and
    # all-zero data x every way of naming the groups (default, 1-d, 2-d, several groups, single-mode groups,
    # which are trivially symmetric) x both versions; the branch taken is decided by a NumPy reference
    SYM = [([2, 2, 2], [[0, 1, 2]]), ([3, 3], [[0, 1]]), ([2, 2, 3], [[0, 1]]), ([2, 3, 2], [[0, 2]]),
           ([2, 2, 3, 3], [[0, 1], [2, 3]]), ([4], [[0]]), ([2, 1, 2], [[0, 2]])]
    if tier == "thorough":
        SYM += [([3, 3, 3], [[0, 1, 2]]), ([2, 2, 2, 2], [[0, 1, 2, 3]]), ([2, 2, 2, 2], [[0, 3], [1, 2]]), ([3, 2, 3], [[2, 0]])]
    for shape, full in SYM:
        N = len(shape)
        whole = full == [list(range(N))]
        datas = [("generic", gen.dense_data(rng, shape)), ("symmetric", sym_data(rng, shape, full)),
                 ("zero", [0] * gen.numel(shape))]
        if len(full) > 1:
            datas.append(("partly", sym_data(rng, shape, full[:1])))
        elif len(full[0]) > 2:
            datas.append(("partly", sym_data(rng, shape, [full[0][:2]])))
        for dl, data in datas:
            X = {"t": "tensor", "shape": shape, "data": data}
            forms = [("grps2d", [rows(full)], full), ("single-mode-groups", [rows([[k] for k in range(N)])], [[k] for k in range(N)])]
            if whole:
                forms.append(("default", [], full))
            if len(full) == 1:
                forms.append(("grps1d", [iarr(full[0])], full))
                if len(full[0]) > 2:
                    forms.append(("subgroup", [iarr(full[0][:2])], [full[0][:2]]))
            for fl, a, grps in forms:
                same = is_sym(shape, data, grps)
                lab = f"{dl}/{fl}/{'already-symmetric' if same else 'averaged'}"
                out.append(case(C, "symmetrize", lab, X, a, {}, M(C, "symmetrize", shape=shape, flag="same" if same else "")))
                out.append(case(C, "symmetrize", lab + "/v1", X, a, {"version": py(1)}, M(C, "symmetrize", shape=shape, flag="v1")))
                out.append(case(C, "issymmetric", lab, X, a, {}, RO))
                out.append(case(C, "issymmetric", lab + "/details", X, a, {"version": py(1), "return_details": py(True)}))
        if not whole:
            continue
        X = Tspec(rng, shape)
        sz = shape[0]
        if N >= 2:
            out.append(case(C, "contract", "", X, [py(0), py(1)]))
        # ttsv: every skip_dim; the last one multiplies NOTHING (the result carries the receiver's entries)
        def ttsv_model(dnew, none):
            return M(C, "ttsv", shape=[sz] * dnew, k=dnew, flag="none" if none else "")
        for Xv, vl in ((X, ""), (Tzero(shape), "zero/")):
            out.append(case(C, "ttsv", vl + "scalar", Xv, [vec(rng, sz)], {}, ttsv_model(0, False)))
            for sk in range(N):
                out.append(case(C, "ttsv", vl + (f"skip{sk}" if sk < N - 1 else "skip-last/nothing-multiplied"), Xv, [vec(rng, sz)],
                                {"skip_dim": py(sk)}, ttsv_model(sk + 1, sk == N - 1)))
                out.append(case(C, "ttsv", vl + (f"skip{sk}/v1" if sk < N - 1 else "skip-last/nothing-multiplied/v1"), Xv,
                                [vec(rng, sz)], {"skip_dim": py(sk), "version": py(1)}))
    return out


SPARSE_SHAPES = [[2, 3, 4], [3, 1, 2], [3, 4], [4], [1, 3], [2, 1, 1, 3]]


def sptensor_cases(rng, tier):
    out = []
    C = "sptensor"
    NS = M(C, "newsubs_copyvals")
    # constructors
    for shape in ([2, 3, 4], [3, 4]):
        s = Sspec(rng, shape)
        nz = len(s["subs"])
        N = len(shape)
        flat = [s["subs"][i][k] for k in range(N) for i in range(nz)]
        for lay in ("C", "F"):
            for copy in (True, False):
                out.append(case(C, "__init__", f"{lay}/copy={copy}", None,
                                [arr([nz, N], flat, "i", lay), arr([nz, 1], s["vals"], "f"), py(shape)],
                                {"copy": py(copy)}, M(C, "__init__", copy=copy), "ctor"))
        out.append(case(C, "__init__", "noshape", None, [arr([nz, N], flat, "i", "C"), arr([nz, 1], s["vals"], "f")], {},
                        M(C, "__init__", copy=True), "ctor"))
        out.append(case(C, "__init__", "empty-arrays", None, [arr([0, N], [], "i", "C"), arr([0, 1], [], "f"), py(shape)],
                        {"copy": py(False)}, M(C, "__init__", copy=False), "ctor"))
        out.append(case(C, "from_aggregator", "sum", None,
                        [arr([nz, N], flat, "i", "C"), arr([nz, 1], s["vals"], "f"), py(shape)], {}, COMP, "static"))
        out.append(case(C, "from_aggregator", "dup", None,
                        [arr([2 * nz, N], [x for k in range(N) for x in [s["subs"][i][k] for i in range(nz)] * 2], "i", "C"),
                         arr([2 * nz, 1], s["vals"] * 2, "f"), py(shape)], {"function_handle": py("max")}, COMP, "static"))
    out.append(case(C, "from_function", "", None, [fn("ones"), py([3, 4]), py(5)], {}, COMP, "static"))
    shapes = SPARSE_SHAPES if tier == "quick" else SPARSE_SHAPES + [gen.shape(rng, 1, 4, 3) for _ in range(16)]
    for si, shape in enumerate(shapes):
        N = len(shape)
        # receivers with several stored entries, with NONE (a tensor without nonzeros) and with a single one
        for klass in (("some", "empty", "one") if si < (2 if tier == "quick" else 8) else ("some", "empty")):
            X = Sspec(rng, shape, klass)
            lab = klass
            for m in ("copy", "__pos__"):
                out.append(case(C, m, lab, X, [], {}, M(C, "copy")))
            out.append(case(C, "__deepcopy__", lab, X, [py({})], {}, M(C, "copy")))
            out.append(case(C, "find", lab, X, [], {}, M(C, "find")))
            for m in ("double", "norm", "allsubs", "__repr__", "__str__", "logical_not", "squash"):
                out.append(case(C, m, lab, X))
            for m in ("full", "to_tensor"):
                out.append(case(C, m, lab, X, [], {}, M(C, "full") if klass != "empty" else COMP))
            CS = M(C, "copysubs_newvals")
            for m in ("ones", "__neg__"):
                out.append(case(C, m, lab, X, [], {}, CS))
            for m in ("ndims", "nnz", "order"):
                out.append(case(C, m, lab, X, kind="prop"))
            NSm = NS if klass != "empty" else COMP
            for p in (perms_for(rng, shape, tier)[:3] if tier == "quick" else perms_for(rng, shape, tier)):
                out.append(case(C, "permute", f"{lab}/{'id' if p == sorted(p) else 'perm'}", X, [iarr(p)], {}, NSm))
            for t in (reshape_targets(shape)[:3] if tier == "quick" else reshape_targets(shape)):
                out.append(case(C, "reshape", lab, X, [py(t)], {}, NSm))
            nsq = [d for d in shape if d > 1]
            out.append(case(C, "squeeze", lab, X, [], {},
                            M(C, "copy") if len(nsq) == N else (NSm if nsq else COMP)))
            for rd, cd in mode_splits(rng, shape, tier):
                out.append(case(C, "to_sptenmat", f"{lab}/{'keeps-layout' if keeps_layout(shape, rd + cd) else 'relayout'}",
                                X, [], {"rdims": iarr(rd), "cdims": iarr(cd)}))
            out.append(case(C, "collapse", f"{lab}/all", X))
            out.append(case(C, "elemfun", lab, X, [fn("sqrtabs")]))
            out.append(case(C, "extract", lab, X, [arr([1, N], [0] * N, "i", "C")]))
            out.append(case(C, "subdims", lab, X, [lst([sl(None, None)] * N)]))
            out.append(case(C, "squash", f"{lab}/inverse", X, [], {"return_inverse": py(True)}))
            for m in ("__mul__", "__truediv__", "__rmul__", "__eq__", "__ne__", "__ge__", "__gt__", "__le__", "__lt__",
                      "logical_and", "logical_or", "logical_xor", "__add__", "__sub__", "__rtruediv__"):
                out.append(case(C, m, f"{lab}/scalar", X, [py(2.0)], {},
                                CS if m in ("__mul__", "__truediv__", "__rmul__") else COMP))
            n = gen.numel(shape)
            out.append(case(C, "__getitem__", f"{lab}/int", X, [py(n - 1)]))
            out.append(case(C, "__getitem__", f"{lab}/linear", X, [iarr([0, n - 1])]))
            out.append(case(C, "__getitem__", f"{lab}/subs", X, [rows([[0] * N, [d - 1 for d in shape]])]))
            out.append(case(C, "__getitem__", f"{lab}/subtensor", X, [tup([sl(None, None)] * N)]))
            out.append(case(C, "__getitem__", f"{lab}/subtensor-mixed", X, [tup([py(0)] + [sl(None, None)] * (N - 1))]))
            out.append(case(C, "__getitem__", f"{lab}/scalar", X, [tup([py(0)] * N)]))
            # scale: a receiver without nonzeros has nothing to scale (the result is a copy); every factor kind
            SC = M(C, "copysubs_newvals") if klass != "empty" else M(C, "copy")
            out.append(case(C, "scale", f"{lab}/array", X, [vec(rng, shape[0]), py(0)], {}, SC))
            out.append(case(C, "scale", f"{lab}/array-last", X, [vec(rng, shape[N - 1]), iarr([N - 1])], {}, SC))
            out.append(case(C, "scale", f"{lab}/tensor", X, [Tspec(rng, [shape[0]]), iarr([0])], {}, SC))
            out.append(case(C, "scale", f"{lab}/sptensor", X, [Sspec(rng, [shape[0]], "all"), iarr([0])], {}, SC))
            out.append(case(C, "scale", f"{lab}/ones", X, [farr([1] * shape[0]), py(0)], {}, SC))
            if N >= 2:
                out.append(case(C, "scale", f"{lab}/tensor-two-modes", X, [Tpos(rng, shape[:2]), iarr([0, 1])], {}, SC))
            # products: one mode, all modes, NO mode (nothing is multiplied)
            out.append(case(C, "ttv", f"{lab}/one", X, [vec(rng, shape[0]), py(0)]))
            out.append(case(C, "ttv", f"{lab}/all", X, [lst([vec(rng, d) for d in shape])]))
            for sl_, a, kw in empty_selections(N, [vec(rng, d) for d in shape]):
                out.append(case(C, "ttv", f"{lab}/{sl_}", X, a, kw))
            out.append(case(C, "ttm", f"{lab}/none/dims-empty/0", X, [lst([])], {"dims": iarr([])}))
            out.append(case(C, "collapse", f"{lab}/none", X, [iarr([])]))
            out.append(case(C, "mask", f"{lab}/self", X, [X]))
            out.append(case(C, "mask", f"{lab}/empty", X, [Sspec(rng, shape, "empty")]))
            for m, e in (("__mul__", 1.0), ("__truediv__", 1.0), ("__rmul__", 1.0)):
                out.append(case(C, m, f"{lab}/scalar-identity", X, [py(e)], {}, CS))
            for m, e in (("__add__", 0.0), ("__sub__", 0.0), ("__mul__", 0.0)):
                out.append(case(C, m, f"{lab}/scalar-zero", X, [py(e)]))
            if N >= 2:
                out.append(case(C, "ttm", f"{lab}/mode0", X, [mat(rng, 2, shape[0]), py(0)]))
                out.append(case(C, "ttm", f"{lab}/list-one", X, [lst([mat(rng, 2, shape[N - 1])]), iarr([N - 1])]))
                out.append(case(C, "mttkrp", f"{lab}/list/0", X, [lst([mat(rng, d, 2) for d in shape]), py(0)]))
                out.append(case(C, "collapse", f"{lab}/dims", X, [iarr([0])]))
                out.append(case(C, "nvecs", lab, X, [py(0), py(1)]))
                out.append(case(C, "innerprod", f"{lab}/ktensor", X, [Kspec(rng, shape)]))
                out.append(case(C, "__mul__", f"{lab}/ktensor", X, [Kspec(rng, shape)], {},
                                M(C, "copysubs_newvals") if klass != "empty" else M(C, "copy")))
        X = Sspec(rng, shape)
        Y = Sspec(rng, shape)
        D = Tspec(rng, shape)
        BIN = ("__mul__", "__truediv__", "__eq__", "__ne__", "__ge__", "__gt__", "__le__", "__lt__", "logical_and",
               "logical_or", "logical_xor", "__add__", "__sub__", "isequal", "innerprod")
        for m in BIN:
            out.append(case(C, m, "sptensor", X, [Y]))
            out.append(case(C, m, "tensor", X, [D]))
        # either operand (or both) WITHOUT nonzeros: several operations then hand on a copy of the other one
        E1, E2, Z = Sspec(rng, shape, "empty"), Sspec(rng, shape, "empty"), Tzero(shape)
        for m in BIN:
            out.append(case(C, m, "sptensor/other-empty", X, [E2]))
            out.append(case(C, m, "sptensor/self-empty", E1, [Y]))
            out.append(case(C, m, "sptensor/both-empty", E1, [E2]))
            out.append(case(C, m, "tensor/self-empty", E1, [D]))
            out.append(case(C, m, "tensor/other-zero", X, [Z]))
            out.append(case(C, m, "tensor/both-zero", E1, [Z]))
        out.append(case(C, "__add__", "same-pattern", X, [dict(X, vals=[1] * len(X["vals"]))]))
        out.append(case(C, "__sub__", "self-copy", X, [X]))
        out.append(case(C, "__add__", "sumtensor/self-empty", E1, [{"t": "sumtensor", "parts": [Tspec(rng, shape)]}]))
        out.append(case(C, "__mul__", "ktensor", X, [Kspec(rng, shape)], {}, M(C, "copysubs_newvals")))
        out.append(case(C, "__truediv__", "ktensor", X, [Kspec(rng, shape, pos=True)], {}, M(C, "copysubs_newvals")))
        out.append(case(C, "__add__", "sumtensor", X, [{"t": "sumtensor", "parts": [Tspec(rng, shape)]}]))
        out.append(case(C, "mask", "", X, [Y]))
        if N >= 2:
            out.append(case(C, "innerprod", "ktensor", X, [Kspec(rng, shape)]))
            out.append(case(C, "collapse", "dims", X, [iarr([0])]))
            out.append(case(C, "collapse", "dims-many", X, [iarr([N - 1]), fn("sum")]))
            out.append(case(C, "ttv", "exclude", X, [lst([vec(rng, d) for d in shape[1:]])], {"exclude_dims": py(0)}))
            for ds in mode_subsets(rng, N, tier):
                out.append(case(C, "ttv", f"dims{len(ds)}", X, [lst([vec(rng, shape[k]) for k in ds]), iarr(ds)]))
            for n in range(N):
                out.append(case(C, "ttm", f"mode{n}", X, [mat(rng, 2, shape[n]), py(n)]))
                out.append(case(C, "collapse", f"mode{n}", X, [iarr([n])]))
            out.append(case(C, "ttm", "transpose", X, [mat(rng, shape[1], 2), py(1)], {"transpose": py(True)}))
            out.append(case(C, "ttm", "list", X, [lst([mat(rng, 2, d) for d in shape])]))
            U = [mat(rng, d, 2) for d in shape]
            for n in range(N):
                out.append(case(C, "mttkrp", f"list/{n}", X, [lst(U), py(n)]))
            out.append(case(C, "mttkrp", "ktensor", X, [Kspec(rng, shape), py(1)]))
            out.append(case(C, "nvecs", "", X, [py(0), py(1)]))
            out.append(case(C, "to_sptenmat", "cdims", X, [], {"cdims": iarr([0])}))
            out.append(case(C, "to_sptenmat", "t", X, [iarr([1])], {"cdims_cyclic": py("t")}))
            out.append(case(C, "reshape", "old_modes", X, [py([shape[0] * shape[1]]), iarr([0, 1])]))
        if N == 2:
            out.append(case(C, "spmatrix", "", X, [], {}, M(C, "spmatrix")))
            out.append(case(C, "spmatrix", "empty", Sspec(rng, shape, "empty")))
        # setitem
        si = lambda flag, **kw: M(C, "__setitem__", flag=flag, **kw)  # noqa: E731
        s0 = X["subs"][0]
        free = [c for c in gen.all_subs(shape) if c not in X["subs"]]
        out.append(case(C, "__setitem__", "subs-change", X, [arr([1, N], s0, "i", "C"), py(9.0)], {}, si("change"), "inplace"))
        out.append(case(C, "__setitem__", "subs-delete", X, [arr([1, N], s0, "i", "C"), py(0.0)], {}, si("rebuild"), "inplace"))
        if free:
            out.append(case(C, "__setitem__", "subs-insert", X, [arr([1, N], free[0], "i", "C"), arr([1, 1], [4], "f")],
                            {}, si("rebuild"), "inplace"))
        out.append(case(C, "__setitem__", "subs-grow", X, [arr([1, N], list(shape), "i", "C"), py(2.0)], {}, si("rebuild"), "inplace"))
        out.append(case(C, "__setitem__", "subtensor-zero", X, [tup([sl(None, None)] * N), py(0)], {}, si("rebuild"), "inplace"))
        out.append(case(C, "__setitem__", "subtensor-scalar", X, [tup([sl(0, 1)] * N), py(5.0)], {},
                        si("change" if [0] * N in X["subs"] else "rebuild"), "inplace"))
        out.append(case(C, "__setitem__", "subtensor-sptensor", X, [tup([sl(0, d) for d in shape]), Y], {}, si("rebuild"), "inplace"))
        E = Sspec(rng, shape, "empty")
        out.append(case(C, "__setitem__", "empty-recv/sptensor", E, [tup([sl(0, d) for d in shape]), Y], {},
                        si("sp_value_empty_recv", k=3), "inplace"))
        out.append(case(C, "__setitem__", "empty-recv/subs", E, [arr([1, N], [0] * N, "i", "C"), arr([1, 1], [4], "f")],
                        {}, si("rebuild"), "inplace"))
        if N == 1:
            out.append(case(C, "__setitem__", "linear-1d", X, [py(0), py(3.0)], {},
                            si("change" if [0] in X["subs"] else "rebuild"), "inplace"))
    X = Sspec(rng, [2, 2, 3])
    out.append(case(C, "contract", "", X, [py(0), py(1)]))
    out.append(case(C, "contract", "2d", Sspec(rng, [3, 3]), [py(0), py(1)]))
    return out


K_SHAPES = [[2, 3, 4], [3, 2], [4], [2, 1, 3], [1, 3, 1, 2]]


def ktensor_cases(rng, tier):
    out = []
    C = "ktensor"
    # constructors
    for shape in ([2, 3, 4], [3, 2]):
        n = len(shape)
        R = 2
        for lay in ("F", "C", "mixed"):
            fms = [mat(rng, d, R, ("C" if (lay == "C" or (lay == "mixed" and i == 0)) else "F")) for i, d in enumerate(shape)]
            for copy in (True, False):
                out.append(case(C, "__init__", f"{lay}/w/copy={copy}", None, [lst(fms), farr([2, 3])], {"copy": py(copy)},
                                M(C, "__init__", n=n, copy=copy, flag="w"), "ctor"))
                out.append(case(C, "__init__", f"{lay}/now/copy={copy}", None, [lst(fms)], {"copy": py(copy)},
                                M(C, "__init__", n=n, copy=copy, flag=""), "ctor"))
        out.append(case(C, "__init__", "tuple/copy=False", None, [tup([mat(rng, d, R) for d in shape]), farr([2, 3])],
                        {"copy": py(False)}, M(C, "__init__", n=n, copy=False, flag="w"), "ctor"))
        tot = sum(shape) * R
        out.append(case(C, "from_vector", "weights", None, [farr(list(range(1, tot + R + 1))), py(shape), py(True)], {}, COMP, "static"))
        out.append(case(C, "from_vector", "noweights", None, [farr(list(range(1, tot + 1))), py(shape), py(False)], {}, COMP, "static"))
        out.append(case(C, "from_vector", "row", None, [arr([1, tot], list(range(1, tot + 1))), py(shape), py(False)], {}, COMP, "static"))
        out.append(case(C, "from_function", "", None, [fn("ones"), py(shape), py(2)], {}, COMP, "static"))
    shapes = K_SHAPES if tier == "quick" else K_SHAPES + [[2, 1, 3], [2, 2, 2, 2]] + [gen.shape(rng, 1, 4, 4) for _ in range(8)]
    for si, shape in enumerate(shapes):
        n = len(shape)
        # weighted, unit weights, and ALREADY in normal form (unit columns, unit weights, sorted)
        for lab in (("w", "unit", "normal") if (si < 2 or tier == "thorough") else ("w", "unit")):
            unit = lab != "w"
            X = Kspec(rng, shape, 2, unit, normal=(lab == "normal"))
            for m in ("copy", "__pos__"):
                out.append(case(C, m, lab, X, [], {}, M(C, "copy", n=n)))
            out.append(case(C, "__deepcopy__", lab, X, [py({})], {}, M(C, "copy", n=n)))
            for m in ("norm", "__repr__", "__str__", "issymmetric"):
                out.append(case(C, m, lab, X, [], {}, RO))
            out.append(case(C, "double", lab, X, [], {}, M(C, "double", n=n, shape=shape)))
            out.append(case(C, "__neg__", lab, X, [], {}, M(C, "scale", n=n)))
            out.append(case(C, "tovec", lab, X, [], {}, M(C, "tovec", n=n)))
            out.append(case(C, "tovec", f"{lab}/weights", X, [py(True)], {}, M(C, "tovec", n=n)))
            for m in ("full", "to_tensor"):
                out.append(case(C, m, lab, X, [], {}, M(C, "full", shape=shape)))
            for m in ("ndims", "ncomponents", "order", "shape"):
                out.append(case(C, m, lab, X, kind="prop"))
            out.append(case(C, "tovec", f"{lab}/noweights", X, [py(False)], {}, M(C, "tovec", n=n, flag="now")))
            out.append(case(C, "issymmetric", f"{lab}/diffs", X, [py(True)]))
            out.append(case(C, "tolist", lab, X, [], {}, M(C, "tolist", n=n, flag="unit" if unit else "")))
            for md in sorted({0, n - 1}):
                out.append(case(C, "tolist", f"{lab}/mode{md}", X, [py(md)], {}, M(C, "tolist_mode", n=n, k=md)))
            EX = M(C, "extract", n=n)
            out.append(case(C, "extract", f"{lab}/none", X, [], {}, M(C, "extract", n=n, flag="none")))
            out.append(case(C, "extract", f"{lab}/int", X, [py(1)], {}, EX))
            out.append(case(C, "extract", f"{lab}/arr", X, [iarr([1, 0])], {}, EX))
            out.append(case(C, "extract", f"{lab}/all-in-order", X, [iarr([0, 1])], {}, EX))
            out.append(case(C, "extract", f"{lab}/list", X, [py([0])], {}, EX))
            out.append(case(C, "extract", f"{lab}/tuple", X, [py((1,))], {}, EX))
            for p in (perms_for(rng, shape, tier)[:3] if tier == "quick" else perms_for(rng, shape, tier)):
                out.append(case(C, "permute", f"{lab}/{'id' if p == sorted(p) else 'perm'}", X, [iarr(p)], {},
                                M(C, "permute", n=n, perm=p)))
            # ttv
            out.append(case(C, "ttv", f"{lab}/all", X, [lst([vec(rng, d) for d in shape])], {}, M(C, "ttv", n=n, flag="scalar")))
            for sl_, a, kw in empty_selections(n, [vec(rng, d) for d in shape]):  # NO mode: every factor matrix remains
                out.append(case(C, "ttv", f"{lab}/{sl_}", X, a, kw, M(C, "ttv", n=n, dims=list(range(n)))))
            if n >= 2:
                for ds in mode_subsets(rng, n, tier):
                    rem = [k for k in range(n) if k not in ds]
                    out.append(case(C, "ttv", f"{lab}/dims{len(ds)}", X, [lst([vec(rng, shape[k]) for k in ds]), iarr(ds)], {},
                                    M(C, "ttv", n=n, dims=rem, flag="" if rem else "scalar")))
                out.append(case(C, "ttv", f"{lab}/one", X, [vec(rng, shape[0]), py(0)], {},
                                M(C, "ttv", n=n, dims=list(range(1, n)))))
                out.append(case(C, "ttv", f"{lab}/exclude", X, [lst([vec(rng, d) for d in shape[:-1]])],
                                {"exclude_dims": py(n - 1)}, M(C, "ttv", n=n, dims=[n - 1])))
            out.append(case(C, "__mul__", f"{lab}/scalar", X, [py(2.0)], {}, M(C, "scale", n=n)))
            out.append(case(C, "__rmul__", f"{lab}/scalar", X, [py(2.0)], {}, M(C, "scale", n=n)))
            out.append(case(C, "__mul__", f"{lab}/one", X, [py(1)], {}, M(C, "scale", n=n)))
            # in place -----------------------------------------------------------------------------
            nz = lambda flag, **kw: M(C, "normalize", n=n, flag=flag, **kw)  # noqa: E731
            out.append(case(C, "normalize", lab, X, [], {}, nz(""), "inplace"))
            out.append(case(C, "normalize", f"{lab}/all", X, [py("all")], {}, nz("all"), "inplace"))
            out.append(case(C, "normalize", f"{lab}/one", X, [py(n - 1)], {}, nz("one", k=n - 1), "inplace"))
            out.append(case(C, "normalize", f"{lab}/sort", X, [], {"sort": py(True)}, nz("sort"), "inplace"))
            out.append(case(C, "normalize", f"{lab}/mode", X, [], {"mode": py(0)}, nz("mode", k=0), "inplace"))
            out.append(case(C, "normalize", f"{lab}/normtype", X, [], {"normtype": py(1)}, nz(""), "inplace"))
            out.append(case(C, "arrange", lab, X, [], {}, M(C, "arrange", n=n, flag=""), "inplace"))
            out.append(case(C, "arrange", f"{lab}/wf", X, [py(0)], {}, M(C, "arrange", n=n, flag="wf", k=0), "inplace"))
            out.append(case(C, "arrange", f"{lab}/perm", X, [], {"permutation": iarr([1, 0])}, M(C, "arrange", n=n, flag="perm"), "inplace"))
            out.append(case(C, "arrange", f"{lab}/perm-list", X, [], {"permutation": py([1, 0])}, M(C, "arrange", n=n, flag="perm"), "inplace"))
            out.append(case(C, "fixsigns", lab, X, [], {}, M(C, "fixsigns", n=n, flag=""), "inplace"))
            out.append(case(C, "fixsigns", f"{lab}/other", X, [Kspec(rng, shape, 2)], {}, M(C, "fixsigns", n=n, flag="other"), "inplace"))
            out.append(case(C, "redistribute", lab, X, [py(n - 1)], {}, M(C, "redistribute", n=n, k=n - 1), "inplace"))
            out.append(case(C, "update", f"{lab}/w", X, [iarr([-1]), farr([7, 8])], {}, M(C, "update", n=n, dims=[], flag="w"), "inplace"))
            out.append(case(C, "update", f"{lab}/factor", X, [py(0), farr(list(range(1, 2 * shape[0] + 1)))], {},
                            M(C, "update", n=n, dims=[0], flag=""), "inplace"))
            out.append(case(C, "update", f"{lab}/both", X, [iarr([-1, n - 1]), farr(list(range(1, 2 * shape[n - 1] + 3)))], {},
                            M(C, "update", n=n, dims=[n - 1], flag="w"), "inplace"))
            if n >= 2:
                out.append(case(C, "viz", lab, X, [], {"show_figure": py(False)}, M(C, "viz", n=n, flag=""), "inplace"))
            if n >= 2:
                out.append(case(C, "viz", f"{lab}/plain", X, [], {"show_figure": py(False), "normalize": py(False), "rel_weights": py(False)},
                                M(C, "viz", n=n, flag="plain"), "inplace"))
        X = Kspec(rng, shape, 2)
        Y = Kspec(rng, shape, 2)
        for m in ("__add__", "__sub__"):
            out.append(case(C, m, "ktensor", X, [Y], {}, M(C, "addsub", n=n)))
        for m in ("isequal", "innerprod"):
            out.append(case(C, m, "ktensor", X, [Y], {}, RO))
        out.append(case(C, "score", "", X, [Y]))
        out.append(case(C, "score", "nopenalty", X, [Y], {"weight_penalty": py(False)}))
        out.append(case(C, "__mul__", "tensor", X, [Tspec(rng, shape)]))
        out.append(case(C, "__mul__", "sptensor", X, [Sspec(rng, shape)]))
        out.append(case(C, "__add__", "sumtensor", X, [{"t": "sumtensor", "parts": [Tspec(rng, shape)]}]))
        out.append(case(C, "innerprod", "tensor", X, [Tspec(rng, shape)], {}, RO))
        out.append(case(C, "innerprod", "sptensor", X, [Sspec(rng, shape)], {}, RO))
        out.append(case(C, "mask", "tensor", X, [{"t": "tensor", "shape": shape, "data": [i % 2 for i in range(gen.numel(shape))]}],
                        {}, M(C, "mask", n=n, flag="tensor")))
        out.append(case(C, "mask", "tensor-zero", X, [{"t": "tensor", "shape": shape, "data": [0] * gen.numel(shape)}],
                        {}, M(C, "mask", n=n, flag="tensor")))
        out.append(case(C, "mask", "sptensor", X, [Sspec(rng, shape)], {}, M(C, "mask", n=n)))
        out.append(case(C, "mask", "sptensor-empty", X, [Sspec(rng, shape, "empty")], {}, M(C, "mask", n=n)))
        if n >= 2:
            out.append(case(C, "innerprod", "ttensor", X, [TTspec(rng, shape)], {}, RO))
            U = [mat(rng, d, 3) for d in shape]
            for k in range(n):
                out.append(case(C, "mttkrp", f"list/{k}", X, [lst(U), py(k)], {}, M(C, "mttkrp")))
            out.append(case(C, "mttkrp", "list-C", X, [lst([mat(rng, d, 3, "C") for d in shape]), py(0)], {}, M(C, "mttkrp")))
            out.append(case(C, "mttkrp", "ktensor", X, [Y, py(n - 1)], {}, M(C, "mttkrp")))
            out.append(case(C, "nvecs", "eigsh", X, [py(0), py(1)]))
            out.append(case(C, "nvecs", "dense", X, [py(n - 1), py(shape[n - 1])]))
            for rd, cd in mode_splits(rng, shape, tier):
                for copy in (True, False):
                    out.append(case(C, "to_tenmat", f"{'keeps-layout' if keeps_layout(shape, rd + cd) else 'relayout'}/copy={copy}",
                                    X, [], {"rdims": iarr(rd), "cdims": iarr(cd), "copy": py(copy)},
                                    M(C, "to_tenmat", n=n, perm=rd + cd, dims=[shape[k] for k in rd + cd],
                                      shape=[gen.numel([shape[k] for k in rd]), gen.numel([shape[k] for k in cd])], copy=copy)))
    X = Kspec(rng, [3, 3, 3], 2)
    out.append(case(C, "symmetrize", "", X))
    out.append(case(C, "issymmetric", "cubic", X))
    # already symmetric (all factor matrices equal): nothing to symmetrize
    f = [[rng.choice([-2, -1, 1, 2, 3]) for _ in range(2)] for _ in range(3)]
    XS = {"t": "ktensor", "weights": [2, 3], "factors": [f, f, f]}
    out.append(case(C, "symmetrize", "already-symmetric", XS))
    out.append(case(C, "issymmetric", "already-symmetric", XS))
    out.append(case(C, "issymmetric", "already-symmetric/diffs", XS, [py(True)]))
    # a single component (lists / index arrays of one element)
    for shape in ([3, 2], [2, 1, 3]):
        n = len(shape)
        X1 = Kspec(rng, shape, 1)
        for m in ("copy", "__pos__"):
            out.append(case(C, m, "R1", X1, [], {}, M(C, "copy", n=n)))
        out.append(case(C, "full", "R1", X1, [], {}, M(C, "full", shape=shape)))
        out.append(case(C, "double", "R1", X1, [], {}, M(C, "double", n=n, shape=shape)))
        out.append(case(C, "tolist", "R1", X1, [], {}, M(C, "tolist", n=n, flag="")))
        out.append(case(C, "tovec", "R1", X1, [], {}, M(C, "tovec", n=n)))
        out.append(case(C, "extract", "R1/only", X1, [iarr([0])], {}, M(C, "extract", n=n)))
        out.append(case(C, "extract", "R1/int", X1, [py(0)], {}, M(C, "extract", n=n)))
        out.append(case(C, "permute", "R1/id", X1, [iarr(list(range(n)))], {}, M(C, "permute", n=n, perm=list(range(n)))))
        out.append(case(C, "ttv", "R1/one", X1, [lst([vec(rng, shape[0])]), iarr([0])], {}, M(C, "ttv", n=n, dims=list(range(1, n)))))
        out.append(case(C, "__add__", "R1", X1, [Kspec(rng, shape, 1)], {}, M(C, "addsub", n=n)))
        out.append(case(C, "arrange", "R1/perm", X1, [], {"permutation": iarr([0])}, M(C, "arrange", n=n, flag="perm"), "inplace"))
        out.append(case(C, "normalize", "R1", X1, [], {}, M(C, "normalize", n=n, flag=""), "inplace"))
    return out


def TTsp(rng, shape, cshape):
    """Tucker tensor with a sparse core that has an entry in every cell."""
    t = TTspec(rng, shape, cshape)
    t["core"] = Sspec(rng, cshape, "all")
    return t


def ttensor_cases(rng, tier):
    """Tucker tensors with a dense and with a sparse core; singleton modes in tensor and core; every
    mode order for permute, every mode subset for ttv / ttm, samples per mode for reconstruct."""
    out = []
    C = "ttensor"
    configs = [([3, 4, 2], [2, 2, 2]), ([3, 2], [2, 1]), ([3, 1, 2], [2, 1, 2]), ([2, 3], [2, 3])]
    if tier == "thorough":
        configs += [([2, 2, 1, 3], [2, 1, 1, 2]), ([4], [2]), ([1, 3], [1, 2])]
    for shape, cs in configs:
        n = len(shape)
        core = Tspec(rng, cs)
        for lay in ("F", "C"):
            fms = [mat(rng, d, c, lay) for d, c in zip(shape, cs)]
            for copy in (True, False):
                out.append(case(C, "__init__", f"dense/{lay}/copy={copy}", None, [core, lst(fms)], {"copy": py(copy)},
                                M(C, "__init__", n=n, k=1, copy=copy), "ctor"))
        score = Sspec(rng, cs, "all")
        out.append(case(C, "__init__", "sparse-core/copy=False", None, [score, lst([mat(rng, d, c) for d, c in zip(shape, cs)])],
                        {"copy": py(False)}, M(C, "__init__", n=n, k=2, copy=False), "ctor"))
        out.append(case(C, "__init__", "sparse-core/copy=True", None, [score, lst([mat(rng, d, c) for d, c in zip(shape, cs)])],
                        {"copy": py(True)}, M(C, "__init__", n=n, k=2, copy=True), "ctor"))
        for ck, X in ((1, TTspec(rng, shape, cs)), (2, TTsp(rng, shape, cs))):
            cl = "dense" if ck == 1 else "sparse"
            b0 = ck + n  # first operand register after the receiver's arrays
            P = lambda meth, **kw: M(C, meth, k=ck, n=n, **kw)  # noqa: E731
            for m in ("copy", "__pos__"):
                out.append(case(C, m, cl, X, [], {}, P("copy")))
            out.append(case(C, "__deepcopy__", cl, X, [py({})], {}, P("copy")))
            for m in ("full", "to_tensor", "reconstruct"):
                out.append(case(C, m, cl, X, [], {}, P("full")))
            out.append(case(C, "double", cl, X, [], {}, P("double")))
            out.append(case(C, "__neg__", cl, X, [], {}, P("scale", flag="neg")))
            out.append(case(C, "__mul__", f"{cl}/scalar", X, [py(2.0)], {}, P("scale", flag="mul")))
            out.append(case(C, "__rmul__", f"{cl}/scalar", X, [py(2.0)], {}, P("scale", flag="mul")))
            for m in ("norm", "__repr__", "__str__"):
                out.append(case(C, m, cl, X, [], {}, RO))
            for m in ("ndims", "order", "shape"):
                out.append(case(C, m, cl, X, kind="prop"))
            out.append(case(C, "isequal", cl, X, [TTspec(rng, shape, cs)], {}, RO))
            out.append(case(C, "isequal", f"{cl}/self-copy", X, [X], {}, RO))
            for o, lab in ((TTspec(rng, shape, cs), "ttensor"), (Tspec(rng, shape), "tensor"), (Sspec(rng, shape), "sptensor"),
                           (Kspec(rng, shape), "ktensor")):
                out.append(case(C, "innerprod", f"{cl}/{lab}", X, [o], {}, RO))
            for p in (perms_for(rng, shape, tier)[:3] if tier == "quick" else perms_for(rng, shape, tier)):
                out.append(case(C, "permute", f"{cl}/{'id' if p == sorted(p) else 'perm'}", X, [iarr(p)], {}, P("permute", perm=p)))
            # ttv: vectors aligned with the (sorted) multiplied modes
            TV = {"cls": C, "method": "ttv", "params": {"k": ck, "n": n}, "auto": "tt_ttv"}

            def ttv_model(ds):
                m = dict(TV)
                m["params"] = dict(TV["params"], dims=list(ds), perm=[b0 + i for i in range(len(ds))])
                return m

            out.append(case(C, "ttv", f"{cl}/one", X, [vec(rng, shape[0]), py(0)], {}, ttv_model([0])))
            out.append(case(C, "ttv", f"{cl}/all", X, [lst([vec(rng, d) for d in shape])], {}, ttv_model(range(n))))
            if n >= 2:
                out.append(case(C, "ttv", f"{cl}/exclude", X, [lst([vec(rng, d) for d in shape[1:]])], {"exclude_dims": py(0)},
                                ttv_model(range(1, n))))
            for ds in mode_subsets(rng, n, tier):
                out.append(case(C, "ttv", f"{cl}/dims{len(ds)}", X, [lst([vec(rng, shape[k]) for k in ds]), iarr(ds)], {}, ttv_model(ds)))
            # NO mode selected: the core goes through `core.ttv([], [])`, every factor matrix remains
            for sl_, a, kw in empty_selections(n, [vec(rng, d) for d in shape]):
                out.append(case(C, "ttv", f"{cl}/{sl_}", X, a, kw, ttv_model([])))
            for sl_, a, kw in empty_selections(n, [mat(rng, 2, d) for d in shape]):
                out.append(case(C, "ttm", f"{cl}/{sl_}", X, a, kw, P("ttm", dims=[], perm=[])))
            out.append(case(C, "ttm", f"{cl}/list-one", X, [lst([mat(rng, 2, shape[n - 1])]), iarr([n - 1])], {},
                            P("ttm", dims=[n - 1], perm=[b0])))
            out.append(case(C, "ttm", f"{cl}/identity-matrix", X,
                            [arr([shape[0], shape[0]], [1 if i == j else 0 for j in range(shape[0]) for i in range(shape[0])]), py(0)],
                            {}, P("ttm", dims=[0], perm=[b0])))
            out.append(case(C, "__mul__", f"{cl}/scalar-identity", X, [py(1.0)], {}, P("scale", flag="mul")))
            out.append(case(C, "reconstruct", f"{cl}/identity-samples", X, [iarr(list(range(shape[0]))), py(0)], {},
                            P("reconstruct", dims=[1] + [0] * (n - 1), perm=[b0] + [0] * (n - 1))))
            for k in range(n):
                out.append(case(C, "ttm", f"{cl}/mode{k}", X, [mat(rng, 2, shape[k]), py(k)], {}, P("ttm", dims=[k], perm=[b0])))
                out.append(case(C, "mttkrp", f"{cl}/list/{k}", X, [lst([mat(rng, d, 2) for d in shape]), py(k)], {}, P("mttkrp", dims=[k])))
            out.append(case(C, "ttm", f"{cl}/list", X, [lst([mat(rng, 2, d) for d in shape])], {},
                            P("ttm", dims=list(range(n)), perm=[b0 + i for i in range(n)])))
            out.append(case(C, "ttm", f"{cl}/list-C", X, [lst([mat(rng, 2, d, "C") for d in shape])], {},
                            P("ttm", dims=list(range(n)), perm=[b0 + i for i in range(n)])))
            if n >= 2:
                out.append(case(C, "ttm", f"{cl}/transpose", X, [mat(rng, shape[1], 2)], {"dims": py(1), "transpose": py(True)},
                                P("ttm", dims=[1], perm=[b0])))
                out.append(case(C, "ttm", f"{cl}/exclude", X, [lst([mat(rng, 2, d) for d in shape[1:]])], {"exclude_dims": py(0)},
                                P("ttm", dims=list(range(1, n)), perm=[b0 + i for i in range(n - 1)])))
                out.append(case(C, "mttkrp", f"{cl}/ktensor", X, [Kspec(rng, shape), py(1)], {}, P("mttkrp", dims=[1])))
            out.append(case(C, "nvecs", cl, X, [py(0), py(1)]))
            out.append(case(C, "nvecs", f"{cl}/dense", X, [py(n - 1), py(shape[n - 1])]))
            out.append(case(C, "reconstruct", f"{cl}/samples", X, [iarr([0, 1]), py(0)], {},
                            P("reconstruct", dims=[1] + [0] * (n - 1), perm=[b0] + [0] * (n - 1))))
            out.append(case(C, "reconstruct", f"{cl}/matrix", X, [lst([mat(rng, 2, shape[0])]), py([0])], {},
                            P("reconstruct", dims=[1] + [0] * (n - 1), perm=[b0] + [0] * (n - 1))))
            out.append(case(C, "reconstruct", f"{cl}/all-modes", X, [lst([iarr([0]) for _ in shape])], {},
                            P("reconstruct", dims=[1] * n, perm=[b0 + i for i in range(n)])))
            out.append(case(C, "reconstruct", f"{cl}/last-mode", X, [iarr([0]), py(n - 1)], {},
                            P("reconstruct", dims=[0] * (n - 1) + [1], perm=[0] * (n - 1) + [b0])))
    return out


def kind_of(spec):
    """Part kinds of the heap model: 0 dense, 1 sparse, 2 Kruskal, 3 Tucker (dense core), 4 Tucker (sparse core)."""
    t = spec["t"]
    if t == "ttensor":
        return 3 if spec["core"]["t"] == "tensor" else 4
    return {"tensor": 0, "sptensor": 1, "ktensor": 2}[t]


def sumtensor_cases(rng, tier):
    """Sum tensors over part lists of every kind and order (one part, repeated kinds, a Tucker part with a
    sparse core), copy flag of the constructor, every operand kind for + and innerprod, every mode
    subset for ttv, every mode for mttkrp."""
    out = []
    C = "sumtensor"
    configs = [([2, 3, 4], "TSKU"), ([3, 2], "TSKU"), ([3, 2], "K"), ([2, 3], "ST"), ([3, 1, 2], "VTK"), ([2, 2], "TT"),
               ([2, 3], "T"), ([1, 3], "U"), ([2, 3], "EK"), ([3, 2], "ZE"), ([2, 2], "E")]  # E / Z: parts without nonzeros
    if tier == "thorough":
        configs += [([2, 3, 2], "UVSKT"), ([4], "KT"), ([2, 1, 2], "S"), ([3, 2], "VU"), ([2, 2, 2], "KKT")]

    def mk(ch, shape):
        cs = [min(2, d) for d in shape]
        return {"T": lambda: Tspec(rng, shape), "S": lambda: Sspec(rng, shape), "K": lambda: Kspec(rng, shape),
                "E": lambda: Sspec(rng, shape, "empty"), "Z": lambda: Tzero(shape),
                "U": lambda: TTspec(rng, shape, cs), "V": lambda: TTsp(rng, shape, cs)}[ch]()

    for shape, letters in configs:
        parts = [mk(ch, shape) for ch in letters]
        kinds = [kind_of(q) for q in parts]
        n = len(shape)
        P = lambda meth, **kw: M(C, meth, n=n, kinds=kw.pop("kinds", kinds), **kw)  # noqa: E731
        lb = letters
        pn = []
        for q in parts:
            pn += {0: 1, 1: 2, 2: n + 1, 3: n + 1, 4: n + 2}[kind_of(q)] * [""]
        AA = {"cls": "any", "method": "alias_all", "params": {}, "auto": "operands"}
        out.append(case(C, "__init__", f"{lb}/copy", None, [lst(parts)], {}, P("copy"), "ctor"))
        out.append(case(C, "__init__", f"{lb}/copy=True", None, [lst(parts)], {"copy": py(True)}, P("copy"), "ctor"))
        out.append(case(C, "__init__", f"{lb}/copy=False", None, [lst(parts)], {"copy": py(False)}, AA, "ctor"))
        X = {"t": "sumtensor", "parts": parts}
        for m in ("copy", "__pos__"):
            out.append(case(C, m, lb, X, [], {}, P("copy")))
        out.append(case(C, "__deepcopy__", lb, X, [py({})], {}, P("copy")))
        out.append(case(C, "__neg__", lb, X, [], {}, P("__neg__")))
        for m in ("full", "to_tensor"):
            out.append(case(C, m, lb, X, [], {}, P("full")))
        out.append(case(C, "double", lb, X, [], {}, P("double")))
        for m in ("norm", "__repr__", "__str__"):
            out.append(case(C, m, lb, X, [], {}, RO))
        for m in ("ndims", "order", "shape"):
            out.append(case(C, m, lb, X, kind="prop"))
        for ch in "TSKUVEZ":
            o = mk(ch, shape)
            out.append(case(C, "__add__", f"{lb}+{ch}", X, [o], {}, P("copy", kinds=kinds + [kind_of(o)])))
            out.append(case(C, "__radd__", f"{ch}+{lb}", X, [o], {}, P("copy", kinds=kinds + [kind_of(o)])))
            out.append(case(C, "innerprod", f"{lb}/{ch}", X, [o], {}, P("innerprod")))
        two = [mk("T", shape), mk("K", shape)]
        out.append(case(C, "__add__", f"{lb}+list", X, [lst(two)], {}, P("copy", kinds=kinds + [0, 2])))
        out.append(case(C, "__add__", f"{lb}+empty-list", X, [lst([])], {}, P("copy")))
        for k in range(n):
            out.append(case(C, "mttkrp", f"{lb}/list/{k}", X, [lst([mat(rng, d, 2) for d in shape]), py(k)], {}, P("mttkrp")))
        if n >= 2:
            out.append(case(C, "mttkrp", f"{lb}/ktensor", X, [Kspec(rng, shape), py(1)], {}, P("mttkrp")))
        TV = {"cls": C, "method": "ttv", "params": {"n": n, "kinds": kinds}, "auto": "sum_ttv"}

        def ttv_model(ds):
            m = dict(TV)
            m["params"] = dict(TV["params"], dims=list(ds))
            return m

        out.append(case(C, "ttv", f"{lb}/one", X, [vec(rng, shape[0]), py(0)], {}, ttv_model([0])))
        out.append(case(C, "ttv", f"{lb}/all", X, [lst([vec(rng, d) for d in shape])], {}, ttv_model(range(n))))
        for sl_, a, kw in empty_selections(n, [vec(rng, d) for d in shape]):  # NO mode selected: `part.ttv([], [])` per part
            out.append(case(C, "ttv", f"{lb}/{sl_}", X, a, kw, ttv_model([])))
        if n >= 2:
            for ds in mode_subsets(rng, n, tier):
                out.append(case(C, "ttv", f"{lb}/dims{len(ds)}", X, [lst([vec(rng, shape[k]) for k in ds]), iarr(ds)], {},
                                ttv_model(ds)))
            out.append(case(C, "ttv", f"{lb}/exclude", X, [lst([vec(rng, d) for d in shape[1:]])], {"exclude_dims": py(0)},
                            ttv_model(range(1, n))))
    out.append(case(C, "__init__", "no-parts", None, [], {}, M(C, "copy", n=0, kinds=[]), "ctor"))
    return out


MAT_SHAPES = [[2, 3, 4], [3, 2], [3, 1, 4], [1, 5], [2, 3, 1, 2], [4], [1, 1, 1]]

RO = {"cls": "any", "method": "reads_only", "params": {}}


def _mat_data(rng, r, c, dtype):
    if dtype == "b":
        return [rng.randint(0, 1) for _ in range(r * c)]
    return gen.dense_data(rng, [r, c])


def tenmat_cases(rng, tier):
    """Matricized dense tensors: every mode split (incl. 1-row / 1-column / all-singleton matrices,
    splits that only relocate singleton modes), real / integer / boolean / complex data, F / C /
    strided layouts of the constructor's data, copy flags."""
    out = []
    C = "tenmat"
    shapes = MAT_SHAPES if tier == "quick" else MAT_SHAPES + [gen.shape(rng, 1, 4, 3) for _ in range(8)]
    dts = ["f", "i", "b", "c"]
    for si, shape in enumerate(shapes):
        N = len(shape)
        for ki, (rd, cd) in enumerate(mode_splits(rng, shape, tier)):
            order = rd + cd
            lay = "keeps-layout" if keeps_layout(shape, order) else "relayout"
            r = gen.numel([shape[k] for k in rd])
            c = gen.numel([shape[k] for k in cd])
            lay += "/1row" if r == 1 else ("/1col" if c == 1 else "")
            # constructor: every layout x copy flag; the dtype rotates (all four for 1-row / 1-column)
            dsel = dts if (r == 1 or c == 1 or tier == "thorough") else [dts[(si + ki) % 4], "f"]
            for dt in dict.fromkeys(dsel):
                data = _mat_data(rng, r, c, dt)
                for lo in ("F", "C", "S"):
                    if lo == "S" and dt not in ("f", dsel[0]):
                        continue
                    for copy in (True, False):
                        out.append(case(C, "__init__", f"{lay}/{dt}/{lo}/copy={copy}", None,
                                        [arr([r, c], data, dt, lo), iarr(rd), iarr(cd), py(shape)],
                                        {"copy": py(copy)}, M(C, "__init__", copy=copy, shape=[r, c]), "ctor"))
            X = {"t": "tenmat", "tensor": Tspec(rng, shape), "rdims": rd, "cdims": cd}
            for copy in (True, False):
                out.append(case(C, "to_tensor", f"{lay}/copy={copy}", X, [], {"copy": py(copy)},
                                M(C, "to_tensor", copy=copy, dims=[shape[k] for k in order],
                                  perm=[order.index(k) for k in range(N)], shape=shape)))
            out.append(case(C, "to_tensor", f"{lay}/default", X, [], {},
                            M(C, "to_tensor", copy=True, dims=[shape[k] for k in order],
                              perm=[order.index(k) for k in range(N)], shape=shape)))
            # receivers of every dtype (built by the constructor itself from F-ordered data)
            for dt in dict.fromkeys(dsel):
                XR = {"t": "tenmat_raw", "data": arr([r, c], _mat_data(rng, r, c, dt), dt, "F"),
                      "rdims": rd, "cdims": cd, "tshape": shape}
                lb = f"{lay}/{dt}"
                for m in ("copy", "__pos__"):
                    out.append(case(C, m, lb, XR, [], {}, M(C, "copy")))
                out.append(case(C, "__deepcopy__", lb, XR, [py({})], {}, M(C, "copy")))
                out.append(case(C, "ctranspose", lb, XR, [], {},
                                M(C, "ctranspose", flag="complex" if dt == "c" else "", shape=[r, c])))
                out.append(case(C, "double", lb, XR, [], {}, M(C, "double")))
                out.append(case(C, "__neg__", lb, XR, [], {}, M(C, "arith", shape=[r, c])))
                out.append(case(C, "to_tensor", f"{lb}/copy=False", XR, [], {"copy": py(False)},
                                M(C, "to_tensor", copy=False, dims=[shape[k] for k in order],
                                  perm=[order.index(k) for k in range(N)], shape=shape)))
                YR = {"t": "tenmat_raw", "data": arr([r, c], _mat_data(rng, r, c, dt), dt, "F"),
                      "rdims": rd, "cdims": cd, "tshape": shape}
                for m in ("__add__", "__sub__", "__radd__", "__rsub__"):
                    out.append(case(C, m, f"{lb}/tenmat", XR, [YR], {}, M(C, "arith", shape=[r, c])))
                    out.append(case(C, m, f"{lb}/scalar", XR, [py(2.0)], {}, M(C, "arith", shape=[r, c])))
                for m in ("__mul__", "__rmul__"):
                    out.append(case(C, m, f"{lb}/scalar", XR, [py(2.0)], {}, M(C, "arith", shape=[r, c])))
                    if dt == "f" and ki < 4:
                        out.append(case(C, m, f"{lb}/scalar-identity", XR, [py(1.0)], {}, M(C, "arith", shape=[r, c])))
                if dt == "f" and ki < 4:
                    for m in ("__add__", "__sub__", "__radd__"):
                        out.append(case(C, m, f"{lb}/scalar-identity", XR, [py(0.0)], {}, M(C, "arith", shape=[r, c])))
                # product with the matricization that swaps rows and columns
                ZR = {"t": "tenmat_raw", "data": arr([c, r], _mat_data(rng, c, r, dt), dt, "F"),
                      "rdims": cd, "cdims": rd, "tshape": shape}
                out.append(case(C, "__mul__", f"{lb}/tenmat", XR, [ZR], {},
                                M(C, "matmul", flag="scalar" if not rd else "", shape=[r, r])))
                out.append(case(C, "isequal", lb, XR, [YR], {}, RO))
                out.append(case(C, "norm", lb, XR, [], {}, RO))
        # one representative split per shape for the remaining operations
        rd = [0]
        cd = list(range(1, N))
        r, c = shape[0], gen.numel(shape) // shape[0]
        X = {"t": "tenmat", "tensor": Tspec(rng, shape), "rdims": rd}
        out.append(case(C, "__init__", "cdims-only", None, [arr([r, c], gen.dense_data(rng, [r, c]), "f", "F")],
                        {"cdims": iarr(cd), "tshape": py(shape)}, M(C, "__init__", copy=True, shape=[r, c]), "ctor"))
        out.append(case(C, "__init__", "rdims-only/copy=False", None, [arr([r, c], gen.dense_data(rng, [r, c]), "f", "F")],
                        {"rdims": iarr(rd), "tshape": py(shape), "copy": py(False)},
                        M(C, "__init__", copy=False, shape=[r, c]), "ctor"))
        for m in ("__repr__", "__str__"):
            out.append(case(C, m, "", X, [], {}, RO))
        for m in ("ndims", "order", "shape"):
            out.append(case(C, m, "", X, kind="prop"))
        out.append(case(C, "__getitem__", "slice", X, [tup([sl(0, 1), sl(None, None)])], {},
                        M(C, "__getitem__", flag="slice", dims=[0, 0, 1])))
        out.append(case(C, "__getitem__", "slice-all", X, [tup([sl(None, None), sl(None, None)])], {},
                        M(C, "__getitem__", flag="slice", dims=[0, 0, r])))
        out.append(case(C, "__getitem__", "scalar", X, [tup([py(0), py(0)])], {}, M(C, "__getitem__", flag="")))
        out.append(case(C, "__getitem__", "fancy", X, [tup([iarr([0]), iarr([0])])], {}, M(C, "__getitem__", flag="")))
        out.append(case(C, "__setitem__", "scalar", X, [tup([py(0), py(0)]), py(5.0)], {}, M(C, "__setitem__"), "inplace"))
        out.append(case(C, "__setitem__", "row", X, [tup([py(0), sl(None, None)]), farr([1] * c)], {}, M(C, "__setitem__"), "inplace"))
    for dt in dts:
        vals = [1, 0, 1, 1, 0, 1] if dt == "b" else [1, 2, 3, 4, 5, 6]
        for copy in (True, False):
            out.append(case(C, "__init__", f"1d/{dt}/copy={copy}", None,
                            [arr([6], vals, dt), iarr([0]), iarr([1]), py([1, 6])],
                            {"copy": py(copy)}, M(C, "__init__", copy=copy, shape=[1, 6]), "ctor"))
    out.append(case(C, "__init__", "empty", None, [], {}, M(C, "__init__", flag="empty"), "ctor"))
    out.append(case(C, "__init__", "empty-array", None, [arr([0], [], "f")], {}, M(C, "__init__", flag="empty"), "ctor"))
    return out


def sptenmat_cases(rng, tier):
    """Matricized sparse tensors: every mode split (1-row / 1-column / all-singleton included), stored
    orders sorted / reversed / with duplicates for the constructor, copy flags, with and without
    entries, dense and scipy-sparse sources for from_array."""
    out = []
    C = "sptenmat"
    shapes = MAT_SHAPES if tier == "quick" else MAT_SHAPES + [gen.shape(rng, 1, 4, 3) for _ in range(8)]
    CP = M(C, "copy")
    for shape in shapes:
        N = len(shape)
        for rd, cd in mode_splits(rng, shape, tier):
            lay = "keeps-layout" if keeps_layout(shape, rd + cd) else "relayout"
            r = gen.numel([shape[k] for k in rd])
            c = gen.numel([shape[k] for k in cd])
            lay += "/1row" if r == 1 else ("/1col" if c == 1 else "")
            cells = [[i, j] for j in range(c) for i in range(r)]
            pick = rng.sample(cells, min(3, len(cells)))
            for so in ("sorted", "reversed", "dup"):
                pk = sorted(pick, key=lambda q: (q[0], q[1]))
                if so == "reversed":
                    pk = pk[::-1]
                elif so == "dup":
                    pk = pk + pk[:1]
                vals = [rng.choice([-3, -2, -1, 1, 2, 3, 4]) for _ in pk]
                if so == "dup" and rng.random() < 0.5:
                    vals[-1] = -vals[0]  # the duplicates cancel: the entry disappears
                for copy in (True, False):
                    for dt, slay in (("f", "C"), ("i", "F"), ("c", "C"), ("b", "F")):
                        if dt != "f" and so != "sorted":
                            continue
                        vv = [1] * len(vals) if dt == "b" else vals
                        out.append(case(C, "__init__", f"{lay}/{so}/{dt}/copy={copy}", None,
                                        [rows(pk, "i", slay), arr([len(pk), 1], vv, dt), iarr(rd), iarr(cd), py(shape)],
                                        {"copy": py(copy)}, M(C, "__init__", copy=copy), "ctor"))
            for copy in (True, False):
                out.append(case(C, "__init__", f"{lay}/empty-arrays/copy={copy}", None,
                                [arr([0, 2], [], "i", "C"), arr([0, 1], [], "f"), iarr(rd), iarr(cd), py(shape)],
                                {"copy": py(copy)}, M(C, "__init__", copy=copy), "ctor"))
            for klass in ("some", "empty"):
                X = {"t": "sptenmat", "sptensor": Sspec(rng, shape, klass), "rdims": rd, "cdims": cd}
                e = "empty" if klass == "empty" else ""
                lb = f"{klass}/{lay}"
                out.append(case(C, "full", lb, X, [], {}, M(C, "full", flag=e, shape=[r, c])))
                out.append(case(C, "to_sptensor", lb, X, [], {}, M(C, "to_sptensor", flag=e, dims=[len(rd), len(cd)])))
                out.append(case(C, "__neg__", lb, X, [], {}, M(C, "__neg__")))
                out.append(case(C, "copy", lb, X, [], {}, CP))
                if klass == "some":
                    out.append(case(C, "double", lb, X, [], {}, M(C, "double")))
        rd = [0]
        cd = list(range(1, N))
        r, c = shape[0], gen.numel(shape) // shape[0]
        for copy in (True, False):
            out.append(case(C, "__init__", f"no-subs/copy={copy}", None, [],
                            {"rdims": iarr(rd), "cdims": iarr(cd), "tshape": py(shape), "copy": py(copy)},
                            M(C, "__init__", flag="nosubs", copy=copy), "ctor"))
        out.append(case(C, "__init__", "rdims-only", None, [], {"rdims": iarr(rd), "tshape": py(shape)},
                        M(C, "__init__", flag="nosubs", copy=True), "ctor"))
        for zero in (False, True):
            dense = [0] * (r * c) if zero else [(i * 7 + 3) % 5 if (i % 2) else 0 for i in range(r * c)]
            nnz = sum(1 for v in dense if v)
            for lo in ("F", "C"):
                out.append(case(C, "from_array", f"ndarray/{lo}/{'zero' if zero else 'some'}", None,
                                [arr([r, c], dense, "f", lo), iarr(rd), iarr(cd), py(shape)], {},
                                M(C, "from_array", k=nnz), "static"))
            out.append(case(C, "from_array", f"coo/{'zero' if zero else 'some'}", None,
                            [{"t": "coo", "dense": arr([r, c], dense, "f", "F")}, iarr(rd), iarr(cd), py(shape)], {},
                            M(C, "from_array", k=nnz, flag="coo"), "static"))
        for klass in ("some", "empty"):
            X = {"t": "sptenmat", "sptensor": Sspec(rng, shape, klass), "rdims": rd}
            out.append(case(C, "__pos__", klass, X, [], {}, CP))
            out.append(case(C, "__deepcopy__", klass, X, [py({})], {}, CP))
            if klass == "empty":
                out.append(case(C, "double", klass, X))
            for m in ("norm", "__repr__", "__str__"):
                out.append(case(C, m, klass, X, [], {}, RO))
            for m in ("nnz", "order", "shape"):
                out.append(case(C, m, klass, X, kind="prop"))
            out.append(case(C, "isequal", klass, X, [{"t": "sptenmat", "sptensor": Sspec(rng, shape), "rdims": rd}], {}, RO))
        X = {"t": "sptenmat", "sptensor": Sspec(rng, shape, "some"), "rdims": rd}
        full_ = len(X["sptensor"]["subs"]) == gen.numel(shape)
        out.append(case(C, "__setitem__", "new", X, [tup([sl(None, None), sl(None, None)]), py(2.0)], {},
                        M(C, "__setitem__", flag="change" if full_ else "rebuild"), "inplace"))
        Xall = {"t": "sptenmat", "sptensor": Sspec(rng, shape, "all"), "rdims": rd}
        out.append(case(C, "__setitem__", "change", Xall, [tup([py(0), py(0)]), py(9.0)], {},
                        M(C, "__setitem__", flag="change"), "inplace"))
        # value arrays (operands that must stay untouched and unshared): 1-d, column, F / C layouts
        out.append(case(C, "__setitem__", "change/array-1d", Xall, [tup([py(0), sl(None, None)]), farr([3] * c)], {},
                        M(C, "__setitem__", flag="change"), "inplace"))
        out.append(case(C, "__setitem__", "change/array-col", Xall,
                        [tup([sl(None, None), py(0)]), arr([r, 1], [4] * r, "f", "C")], {},
                        M(C, "__setitem__", flag="change"), "inplace"))
        out.append(case(C, "__setitem__", "delete/array", Xall, [tup([py(0), sl(None, None)]), farr([0] * c)], {},
                        M(C, "__setitem__", flag="rebuild"), "inplace"))
        Xe = {"t": "sptenmat", "sptensor": Sspec(rng, shape, "empty"), "rdims": rd}
        out.append(case(C, "__setitem__", "empty-recv/array", Xe, [tup([iarr([0]), iarr([0])]), arr([1, 1], [5], "f")], {},
                        M(C, "__setitem__", flag="rebuild"), "inplace"))
        out.append(case(C, "__setitem__", "index-arrays", X, [tup([iarr([0, 0]), iarr([0])]), farr([2, 7])], {},
                        M(C, "__setitem__", flag="change" if [0] * N in X["sptensor"]["subs"] else "rebuild"), "inplace"))
    out.append(case(C, "__init__", "none", None, [], {}, M(C, "__init__", flag="none"), "ctor"))
    return out


def utils_cases(rng, tier):
    out = []
    for idx, lab in (([0, 3, 5], "nonneg"), ([-1, 2], "neg"), ([], "empty")):
        out.append(case("utils", "tt_ind2sub", lab, None, [py((2, 3)), iarr(idx)], {}, M("utils", "tt_ind2sub")))
    out.append(case("utils", "tt_ind2sub", "C-order", None, [py((2, 3)), iarr([1, 4])], {"order": py("C")}, M("utils", "tt_ind2sub")))
    out.append(case("utils", "tt_sub2ind", "", None, [py((2, 3)), arr([2, 2], [0, 1, 1, 2], "i", "C")]))
    out.append(case("utils", "parse_one_d", "1d", None, [iarr([0, 1, 2])], {}, M("utils", "parse_one_d")))
    out.append(case("utils", "parse_one_d", "2d", None, [arr([1, 3], [0, 1, 2], "i")], {}, M("utils", "parse_one_d")))
    A = arr([3, 2], [1, 1, 2, 0, 1, 2], "i", "C")
    B = arr([2, 2], [1, 3, 0, 3], "i", "C")
    for m in ("tt_union_rows", "tt_setdiff_rows", "tt_intersect_rows", "tt_ismember_rows"):
        out.append(case("utils", m, "", None, [A, B]))
    out.append(case("utils", "tt_dimscheck", "dims", None, [py(3)], {"dims": iarr([2, 0])}))
    out.append(case("utils", "tt_dimscheck", "exclude", None, [py(3), py(2)], {"exclude_dims": iarr([1])}))
    out.append(case("utils", "tt_renumber", "", None, [rows([[0, 1], [1, 2]]), py((2, 3)), lst([sl(None, None), py([1, 2])])]))
    out.append(case("utils", "to_memory_order", "F-F", None, [mat(rng, 2, 3, "F"), py("F")], {}, M("utils", "to_memory_order", copy=False)))
    out.append(case("utils", "to_memory_order", "C-F", None, [mat(rng, 2, 3, "C"), py("F")], {}, M("utils", "to_memory_order", copy=False)))
    out.append(case("utils", "to_memory_order", "F-F-copy", None, [mat(rng, 2, 3, "F"), py("F")], {"copy": py(True)},
                    M("utils", "to_memory_order", copy=True)))
    out.append(case("utils", "gather_wrap_dims", "", None, [py(3), iarr([0])], {}))
    # module-level constructors and khatrirao
    out.append(case("func", "tendiag", "", None, [farr([1, 2, 3])]))
    out.append(case("func", "tendiag", "shape", None, [arr([1, 2], [4, 5]), py((2, 3))]))
    out.append(case("func", "sptendiag", "", None, [farr([1, 2, 3])]))
    out.append(case("func", "sptendiag", "shape", None, [arr([2, 1], [4, 5]), py((3, 2))]))
    out.append(case("func", "tenones", "", None, [py((2, 3))]))
    out.append(case("func", "tenzeros", "", None, [iarr([2, 3])]))
    out.append(case("func", "tenrand", "", None, [py((2, 3))]))
    out.append(case("func", "teneye", "", None, [py(2), py(2)]))
    out.append(case("func", "sptenrand", "", None, [py((3, 4))], {"nonzeros": py(3)}))
    # khatrirao: a SINGLE matrix (nothing to multiply: the result carries the argument's entries) in every layout
    # and shape (1-row / 1-column / 1x1 included), with and without `reverse`; then two and three matrices
    KR = lambda n, r, c: M("func", "khatrirao", n=n, shape=[r, c])  # noqa: E731
    for r, c in ([2, 3], [3, 2], [1, 3], [3, 1], [1, 1]):
        for lay in ("F", "C", "S"):
            for rev in (False, True):
                out.append(case("func", "khatrirao", f"one/{lay}/reverse={rev}", None, [mat(rng, r, c, lay)],
                                {"reverse": py(rev)} if rev else {}, KR(1, r, c)))
    for lays in (("F", "C"), ("C", "S"), ("S", "F")):
        out.append(case("func", "khatrirao", "two/" + "".join(lays), None, [mat(rng, 2, 3, lays[0]), mat(rng, 4, 3, lays[1])], {}, KR(2, 8, 3)))
    out.append(case("func", "khatrirao", "two/1x1", None, [mat(rng, 1, 1), mat(rng, 1, 1, "C")], {}, KR(2, 1, 1)))
    out.append(case("func", "khatrirao", "two/one-row-each", None, [mat(rng, 1, 3), mat(rng, 1, 3)], {}, KR(2, 1, 3)))
    out.append(case("func", "khatrirao", "three/reverse", None, [mat(rng, 2, 2), mat(rng, 3, 2), mat(rng, 2, 2)], {"reverse": py(True)},
                    KR(3, 12, 2)))
    out.append(case("func", "khatrirao", "list-rejected", None, [lst([mat(rng, 2, 3), mat(rng, 4, 3)])]))
    # helpers on degenerate arguments: empty / identical row sets, an identity renumbering, empty mode selections
    E = arr([0, 2], [], "i", "C")
    for m in ("tt_union_rows", "tt_setdiff_rows", "tt_intersect_rows", "tt_ismember_rows"):
        out.append(case("utils", m, "second-empty", None, [A, E]))
        out.append(case("utils", m, "first-empty", None, [E, A]))
        out.append(case("utils", m, "identical", None, [A, A]))
        out.append(case("utils", m, "single-row", None, [arr([1, 2], [1, 2], "i", "C"), B]))
    out.append(case("utils", "tt_renumber", "identity", None, [rows([[0, 1], [1, 2]]), py((2, 3)), lst([sl(None, None), sl(None, None)])]))
    out.append(case("utils", "tt_renumber", "empty-subs", None, [E, py((2, 3)), lst([sl(None, None), py([1, 2])])]))
    out.append(case("utils", "tt_dimscheck", "dims-empty", None, [py(3)], {"dims": iarr([])}))
    out.append(case("utils", "tt_dimscheck", "exclude-all", None, [py(3), py(0)], {"exclude_dims": iarr([0, 1, 2])}))
    out.append(case("utils", "tt_dimscheck", "dims-all-sorted", None, [py(3), py(3)], {"dims": iarr([0, 1, 2])}))
    out.append(case("utils", "tt_sub2ind", "empty", None, [py((2, 3)), E]))
    out.append(case("utils", "tt_sub2ind", "single-row", None, [py((2, 3)), arr([1, 2], [1, 2], "i", "C")]))
    out.append(case("utils", "parse_one_d", "single", None, [iarr([2])], {}, M("utils", "parse_one_d")))
    out.append(case("utils", "parse_one_d", "empty", None, [iarr([])], {}, M("utils", "parse_one_d")))
    out.append(case("utils", "to_memory_order", "1-row", None, [mat(rng, 1, 3, "C"), py("F")], {}, M("utils", "to_memory_order", copy=False)))
    out.append(case("utils", "to_memory_order", "1-row-copy", None, [mat(rng, 1, 3, "C"), py("F")], {"copy": py(True)},
                    M("utils", "to_memory_order", copy=True)))
    out.append(case("func", "tendiag", "single", None, [farr([4])]))
    out.append(case("func", "sptendiag", "single", None, [farr([4])]))
    return out


def alg_cases(rng, tier):
    out = []
    for shape in ([[3, 4, 2]] if tier == "quick" else [[3, 4, 2], [4, 3], [2, 3, 2, 2], [3, 1, 2]]):
        out += _alg_cases(rng, shape, tier)
    return out


AF = {"cls": "alg", "method": "fresh", "params": {}, "auto": "results"}


def _ainit(m, views):
    return {"cls": "alg", "method": "returns_init", "params": {"m": m}, "auto": "alg_init", "views": views}


def _strict_subsets(rng, N, tier):
    import itertools
    subs = [list(c) for k in range(1, N) for c in itertools.combinations(range(N), k)]
    if tier == "quick" and len(subs) > 6:
        subs = rng.sample(subs, 6)
    return subs


def _alg_cases(rng, shape, tier):
    """The option space of the five entry points.  Every caller-supplied object (data, initial
    guess, option arrays, sampler and optimizer objects) is an operand: snapshotted bit for bit
    and compared with every returned array."""
    out = []
    N = len(shape)
    R = 2
    ident = list(range(N))
    rot = ident[1:] + ident[:1]
    rev = ident[::-1]
    dense, sparse = Tpos(rng, shape), Spos(rng, shape)
    datas = [("tensor", dense, 1), ("sptensor", sparse, 2)]

    def guess():  # columns are not unit-norm, weights not one
        return Kspec(rng, shape, R, pos=True)

    common = {"maxiters": py(2), "printitn": py(0)}
    # ---- cp_als ------------------------------------------------------------------------------
    for dn, X, m in datas:
        out.append(case("alg", "cp_als", f"{dn}/random", None, [X, py(R)], dict(common), AF))
        out.append(case("alg", "cp_als", f"{dn}/nvecs", None, [X, py(R)], dict(common, init=py("nvecs")), AF))
        out.append(case("alg", "cp_als", f"{dn}/random/optdims", None, [X, py(R)], dict(common, optdims=iarr([0])),
                        _ainit(m, ["2.params.optdims"])))
        out.append(case("alg", "cp_als", f"{dn}/init", None, [X, py(R)], dict(common, init=guess()), _ainit(m, [])))
        for k, od in enumerate(_strict_subsets(rng, N, tier)):
            # held-fixed modes: the caller's factor matrices must not be rescaled or rebound
            kw = dict(common, init=guess())
            views = []
            do = [ident, rot, rev][k % 3]
            if k % 2 == 0:
                kw["dimorder"] = iarr(do)
                views.append("2.params.dimorder")
                kw["optdims"] = iarr(od)
                views.append("2.params.optdims")
            else:
                kw["optdims"] = py(od)
                kw["dimorder"] = py(do)
            if k % 3 == 1:
                kw["fixsigns"] = py(False)
            out.append(case("alg", "cp_als", f"{dn}/init/optdims-subset{len(od)}", None, [X, py(R)], kw, _ainit(m, views)))
        for do in (rot, rev):
            out.append(case("alg", "cp_als", f"{dn}/init/dimorder", None, [X, py(R)],
                            dict(common, init=guess(), dimorder=iarr(do), optdims=arr([1, N], ident, "i")),
                            _ainit(m, ["2.params.dimorder", "2.params.optdims"])))
        out.append(case("alg", "cp_als", f"{dn}/init/nofixsigns", None, [X, py(R)], dict(common, init=guess(), fixsigns=py(False)),
                        _ainit(m, [])))
        # runs that stop at once (one iteration allowed / a tolerance met by the first iteration / no iteration at
        # all / no mode to optimize): the result is (nearly) the initial guess and must still be a copy of it
        out.append(case("alg", "cp_als", f"{dn}/init/maxiters=1", None, [X, py(R)], dict(common, init=guess(), maxiters=py(1)), _ainit(m, [])))
        out.append(case("alg", "cp_als", f"{dn}/init/stops-at-once", None, [X, py(R)], dict(common, init=guess(), stoptol=py(10.0)),
                        _ainit(m, [])))
        out.append(case("alg", "cp_als", f"{dn}/init/maxiters=0", None, [X, py(R)], dict(common, init=guess(), maxiters=py(0)), _ainit(m, [])))
        out.append(case("alg", "cp_als", f"{dn}/init/optdims-empty", None, [X, py(R)], dict(common, init=guess(), optdims=iarr([])),
                        _ainit(m, ["2.params.optdims"])))
    if N >= 2:
        TT = TTspec(rng, shape)
        out.append(case("alg", "cp_als", "ttensor/init", None, [TT, py(R)], dict(common, init=guess(), optdims=iarr([N - 1])),
                        _ainit(1 + N, ["2.params.optdims"])))
        ST = {"t": "sumtensor", "parts": [Tpos(rng, shape), Kspec(rng, shape, 2, pos=True)]}
        out.append(case("alg", "cp_als", "sumtensor/init", None, [ST, py(R)], dict(common, init=guess(), optdims=py([0])),
                        _ainit(1 + 1 + N, [])))
    # ---- cp_apr ------------------------------------------------------------------------------
    for dn, X, m in datas:
        Kz = guess()
        Kz["factors"][0][1] = [0] * R  # an all-zero row in the first factor
        Kz2 = guess()
        Kz2["factors"][N - 1][0] = [0] * R
        for algo in ("mu", "pdnr", "pqnr"):
            kw = {"algorithm": py(algo), "maxiters": py(2), "printitn": py(0), "printinneritn": py(0)}
            out.append(case("alg", "cp_apr", f"{dn}/{algo}/random", None, [X, py(R)], dict(kw), AF))
            out.append(case("alg", "cp_apr", f"{dn}/{algo}/init", None, [X, py(R)], dict(kw, init=guess()), _ainit(m, [])))
            out.append(case("alg", "cp_apr", f"{dn}/{algo}/init-zero-row", None, [X, py(R)], dict(kw, init=Kz), _ainit(m, [])))
            out.append(case("alg", "cp_apr", f"{dn}/{algo}/init-zero-row-last", None, [X, py(R)],
                            dict(kw, init=Kz2, precompinds=py(False), inexact=py(False), maxinneriters=py(3)), _ainit(m, [])))
            out.append(case("alg", "cp_apr", f"{dn}/{algo}/init/stops-at-once", None, [X, py(R)],
                            dict(kw, init=guess(), stoptol=py(1e9)), _ainit(m, [])))
            out.append(case("alg", "cp_apr", f"{dn}/{algo}/init/maxiters=1", None, [X, py(R)],
                            dict(kw, init=guess(), maxiters=py(1), maxinneriters=py(1)), _ainit(m, [])))
            out.append(case("alg", "cp_apr", f"{dn}/{algo}/init/maxiters=0", None, [X, py(R)],
                            dict(kw, init=guess(), maxiters=py(0)), _ainit(m, [])))
    # ---- gcp_opt -----------------------------------------------------------------------------
    obj = {"t": "objective", "name": "GAUSSIAN"}
    gk = {"printitn": py(0)}
    for dn, X, m in datas:
        opts = ["LBFGSB", "Adam", "SGD", "Adagrad"] if dn == "tensor" else ["Adam", "SGD", "Adagrad"]
        for on in opts:
            opt = {"t": "optimizer", "name": on}
            out.append(case("alg", "gcp_opt", f"{dn}/{on}/random", None, [X, py(R), obj, opt], dict(gk), AF))
            out.append(case("alg", "gcp_opt", f"{dn}/{on}/ktensor", None, [X, py(R), obj, opt], dict(gk, init=guess()), AF))
            out.append(case("alg", "gcp_opt", f"{dn}/{on}/list", None, [X, py(R), obj, opt],
                            dict(gk, init=lst([mat(rng, d, R) for d in shape])), AF))
        # no optimization step at all: the result carries the initial guess and must still be a copy of it
        for on in ("Adam", "SGD"):
            opt0 = {"t": "optimizer", "name": on, "max_iters": 0}
            out.append(case("alg", "gcp_opt", f"{dn}/{on}/ktensor/no-iterations", None, [X, py(R), obj, opt0], dict(gk, init=guess()), AF))
            out.append(case("alg", "gcp_opt", f"{dn}/{on}/list/no-iterations", None, [X, py(R), obj, opt0],
                            dict(gk, init=lst([mat(rng, d, R) for d in shape])), AF))
        if dn == "tensor":
            out.append(case("alg", "gcp_opt", f"{dn}/LBFGSB/ktensor/no-iterations", None,
                            [X, py(R), obj, {"t": "optimizer", "name": "LBFGSB", "max_iters": 0}], dict(gk, init=guess()), AF))
        kinds = ["uniform"] if dn == "tensor" else ["stratified", "semistrat"]
        for kd in kinds:
            smp = {"t": "sampler", "data": X, "kind": kd}
            out.append(case("alg", "gcp_opt", f"{dn}/sampler-{kd}", None, [X, py(R), obj, {"t": "optimizer", "name": "Adam"}],
                            dict(gk, init=guess(), sampler=smp), AF))
    W = {"t": "tensor", "shape": shape, "data": [1 if i % 3 else 0 for i in range(gen.numel(shape))]}
    out.append(case("alg", "gcp_opt", "tensor/mask", None, [dense, py(R), obj, {"t": "optimizer", "name": "LBFGSB"}],
                    dict(gk, mask=W), AF))
    out.append(case("alg", "gcp_opt", "tensor/mask+init", None, [dense, py(R), obj, {"t": "optimizer", "name": "LBFGSB"}],
                    dict(gk, mask=W, init=guess()), AF))
    out.append(case("alg", "gcp_opt", "tensor/poisson", None,
                    [dense, py(R), {"t": "objective", "name": "POISSON"}, {"t": "optimizer", "name": "LBFGSB"}],
                    dict(gk, init=guess()), AF))
    # ---- tucker_als, hosvd (dense data) --------------------------------------------------------
    X = Tspec(rng, shape)
    rk = [min(2, d) for d in shape]
    tk = {"maxiters": py(2), "printitn": py(0)}
    hk_ = {"verbosity": py(0)}
    out.append(case("alg", "tucker_als", "random", None, [X, py(rk)], dict(tk), AF))
    out.append(case("alg", "tucker_als", "rank-array", None, [X, iarr(rk)], dict(tk), AF))
    out.append(case("alg", "tucker_als", "nvecs", None, [X, iarr(rk)], dict(tk, init=py("nvecs")), AF))
    orders = [ident, rot, rev] if tier == "quick" else _all_orders(rng, N)
    for do in orders:
        U0 = lst([mat(rng, d, r) for d, r in zip(shape, rk)])
        out.append(case("alg", "tucker_als", "init+dimorder", None, [X, iarr(rk)], dict(tk, init=U0, dimorder=iarr(do)),
                        _ainit(1, ["2.params.3"])))
        out.append(case("alg", "tucker_als", "random+dimorder", None, [X, py(rk)], dict(tk, dimorder=py(do)), AF))
    out.append(case("alg", "tucker_als", "init", None, [X, iarr(rk)], dict(tk, init=lst([mat(rng, d, r) for d, r in zip(shape, rk)])),
                    _ainit(1, [])))
    U0 = lambda: lst([mat(rng, d, r) for d, r in zip(shape, rk)])  # noqa: E731
    out.append(case("alg", "tucker_als", "init/maxiters=1", None, [X, iarr(rk)], dict(tk, init=U0(), maxiters=py(1)), _ainit(1, [])))
    out.append(case("alg", "tucker_als", "init/stops-at-once", None, [X, iarr(rk)], dict(tk, init=U0(), stoptol=py(10.0)), _ainit(1, [])))
    out.append(case("alg", "tucker_als", "init/maxiters=0", None, [X, iarr(rk)], dict(tk, init=U0(), maxiters=py(0)), _ainit(1, [])))
    out.append(case("alg", "tucker_als", "init/full-ranks", None, [X, iarr(shape)],
                    dict(tk, init=lst([mat(rng, d, d) for d in shape])), _ainit(1, [])))
    out.append(case("alg", "hosvd", "full-ranks", None, [X, py(0.5)], dict(hk_, ranks=iarr(shape)), AF))
    out.append(case("alg", "hosvd", "tol-tiny", None, [X, py(1e-12)], dict(hk_), AF))
    out.append(case("alg", "hosvd", "zero-data", None, [Tzero(shape), py(0.5)], dict(hk_, ranks=iarr(rk)), AF))
    hk = {"verbosity": py(0)}
    out.append(case("alg", "hosvd", "tol", None, [X, py(0.5)], dict(hk), AF))
    out.append(case("alg", "hosvd", "tol/nonsequential", None, [X, py(0.1)], dict(hk, sequential=py(False)), AF))
    for do in orders:
        out.append(case("alg", "hosvd", "ranks+dimorder", None, [X, py(0.5)],
                        dict(hk, ranks=iarr([0] + rk[1:]), dimorder=iarr(do)), AF))
        out.append(case("alg", "hosvd", "ranks2d+dimorder/nonsequential", None, [X, py(0.1)],
                        dict(hk, ranks=arr([1, N], rk[:-1] + [0], "i"), dimorder=arr([1, N], do, "i"), sequential=py(False)), AF))
    out.append(case("alg", "hosvd", "ranks-list", None, [X, py(0.5)], dict(hk, ranks=py(rk)), AF))
    return out


# ----------------------------------------------------------------------------
# families
# ----------------------------------------------------------------------------
GENERIC = {("any", "computed"), ("any", "copy_all"), ("alg", "fresh")}


def model_request(c, obs):
    """The driver request for one observed case (None when the case has no model entry)."""
    m = c.get("model")
    if m is None or "reject" in obs:
        return None
    params = dict(m.get("params", {}))
    auto = m.get("auto")
    if auto == "results":
        params["flag"] = ",".join(obs["results"])
    elif auto == "recv":
        names = [n[5:] for n in obs["operands"] if n.startswith("self.")]
        params["flag"] = ",".join(names)
        params["m"] = len(names)
    elif auto == "operands":
        # every operand array is handed through under the result's name for it
        params["m"] = len(obs["operands"])
        params["flag"] = ",".join(obs["results"])
    elif auto == "sum_ttv":
        # data-dependent switches of sumtensor.ttv: a float when every mode is multiplied; per part, is the
        # result (of a sparse part) / the new core (of a Tucker part with a sparse core) sparse
        if obs["rtype"] in ("float", "float64", "int"):
            params["flag"] = "scalar"
        nparts = len(params["kinds"])
        params["perm"] = [1 if (f"p{i}.subs" in obs["results"] or f"p{i}.core.subs" in obs["results"]) else 0
                          for i in range(nparts)]
    elif auto == "tt_ttv":
        # the data-dependent switches of ttensor.ttv: a float when every mode is multiplied; the new core of a
        # sparse core is sparse or dense
        if obs["rtype"] in ("float", "float64", "int"):
            params["flag"] = "scalar"
        elif "core.subs" in obs["results"]:
            params["flag"] = "sp"
        else:
            params["flag"] = ""
    elif auto == "alg_init":
        ini = [i for i, n in enumerate(obs["operands"]) if n.startswith("k.init")]
        ininames = ["1." + obs["operands"][i][len("k.init."):] for i in ini]
        views = list(m.get("views", []))
        vregs = []
        for v in views:
            key = {"2.params.dimorder": "k.dimorder", "2.params.optdims": "k.optdims", "2.params.3": "k.dimorder"}[v]
            vregs.append(obs["operands"].index(key))
        fresh = [n for n in obs["results"] if n not in ininames and n not in views]
        params["flag"] = ",".join(fresh) + ";" + ",".join(ininames) + ";" + ",".join(views)
        params["dims"] = vregs
        if ini:
            params["m"] = ini[0]  # the guess's arrays are consecutive operands
    return {"op": "c05_run", "cls": m["cls"], "method": m["method"], "operands": obs["descr"], "params": params}


def judge(c, obs, mod):
    what = f"{c['cls']}.{c['method']}[{c['label']}]"
    tags = [f"op:{c['cls']}.{c['method']}", f"kind:{c['kind']}"]
    names = obs["operands"]
    recv = [i for i, n in enumerate(names) if n == "self" or n.startswith("self.")]
    if "reject" in obs:
        tags.append(f"reject:{c['cls']}.{c['method']}")
        if obs["mut"] and c["kind"] != "inplace":
            return Verdict("violation", f"{what} raised after changing operand(s) {[names[i] for i in obs['mut']]}",
                           obs, None, None, tags)
        return Verdict("ok", obs["reject"], obs, None, None, tags, False)
    if mod is None or mod.get("unknown"):
        tags.append(f"unmodelled:{c['cls']}.{c['method']}")
        allowed = recv if c["kind"] == "inplace" else []
        exp_share = set((r, i) for r in obs["results"] for i in recv) if c["kind"] == "inplace" else set()
        spec = "unmodelled"
        exact = False
    else:
        mod = mod["ok"]
        allowed = mod["mut"]
        exp_share = set((r, i) for r, i in mod["share"])
        spec = mod["spec"]
        exact = True
        tags.append(f"spec:{spec}")
    seen = set(tuple(x) for x in obs["share"]) | set(tuple(x) for x in obs["visible"])
    nontrivial = bool(obs["results"] or obs["mut"])
    # write-through can only be visible where memory is shared (the converse needs a writable array)
    if not set(map(tuple, obs["visible"])) <= set(map(tuple, obs["share"])):
        return Verdict("corr", f"{what}: a write is visible between arrays that np.shares_memory calls disjoint",
                       obs, mod, None, tags)
    bad_mut = [names[i] for i in obs["mut"] if i not in allowed]
    if bad_mut:
        return Verdict("violation", f"{what} changed its operand(s) {bad_mut}", obs, mod, None, tags)
    extra = sorted(seen - exp_share)
    if extra:
        pairs = [f"{r or 'result'}~{names[i]}" for r, i in extra]
        return Verdict("violation", f"{what}: result shares memory with operand(s): {pairs}", obs, mod, None, tags)
    # object level: identity and write-through with the objects' own __setitem__
    okp = exp_share | (seen if spec == "knownAlias" else set())
    rsize = dict(zip(obs["results"], obs.get("rsize", [])))
    kept = []  # (result object, operand object) identities that a documented no-copy parameter explains
    for rp, op in obs.get("same", []):
        inside = [rn for rn in obs["results"] if under(rn, rp) and rsize.get(rn, 1) > 0]
        explained = spec in ("noCopy", "knownAlias") and all(
            any((rn, i) in okp and under(names[i], op) for i in range(len(names))) for rn in inside)
        if not explained:
            return Verdict("violation", f"{what}: the returned object {rp or 'result'} IS the operand object {op} "
                                        f"(not a copy): a later in-place change of either is one of the other",
                           obs, mod, None, tags + ["same-object"])
        kept.append((rp, op))
    for d, a, b in obs.get("visible_obj", []):
        if d == "r":  # wrote through result object a, operand array b changed
            i = names.index(b) if b in names else -1
            explained = (any((rn, i) in okp for rn in obs["results"] if under(rn, a))
                         or any((under(a, rp) or under(rp, a)) and under(b, op) for rp, op in kept))
            msg = f"an in-place write to the returned object {a or 'result'} changes the operand {b}"
        else:         # wrote through operand object b, result array a changed
            explained = (any((a, i) in okp for i in range(len(names)) if under(names[i], b))
                         or any(under(a, rp) and (under(b, op) or under(op, b)) for rp, op in kept))
            msg = f"an in-place write to the operand object {b} changes the returned {a or 'result'}"
        if not explained:
            return Verdict("violation", f"{what}: {msg}", obs, mod, None, tags + ["object-write-through"])
    if spec == "knownAlias" and seen:
        pairs = [f"{r or 'result'}~{names[i]}" for r, i in sorted(seen)]
        return Verdict("violation", f"known-alias {what}: result shares memory with operand(s): {pairs}", obs, mod, None,
                       tags + ["known-alias"])
    if exact:
        missing = sorted(exp_share - seen)
        if missing:
            return Verdict("corr", f"{what}: the model predicts sharing {missing} that the implementation does not show",
                           obs, mod, None, tags)
        if not mod["check"]:
            return Verdict("corr", f"{what}: the table entry does not pass its own specification check", obs, mod, None, tags)
        if sorted(mod["res"]) != sorted(obs["results"]):
            return Verdict("corr", f"{what}: result arrays {obs['results']} differ from the model's {mod['res']}", obs, mod, None, tags)
        if seen:
            tags.append("shares")
        if obs["mut"]:
            tags.append("mutates-receiver")
    return Verdict("ok", "", obs, mod, None, tags, nontrivial)


class OpsFamily(Family):
    theorems = ("C05_no_visibility", "C05_pure_sound", "C05_fresh_sound", "C05_inplace_only", "C05_nocopy_within",
                "C05_table_sound", "C05_table_semantics", "C05_fresh_corner_cases")

    def __init__(self, name, genfn, extra=()):
        self.name = name
        self.genfn = genfn
        self.theorems = OpsFamily.theorems + tuple(extra)

    def gen(self, rng, tier):
        return self.genfn(rng, tier)

    def evaluate(self, cases):
        np.random.seed(0)
        observations = [observe(c) for c in cases]
        reqs, where = [], []
        for k, (c, o) in enumerate(zip(cases, observations)):
            r = model_request(c, o)
            if r is not None:
                reqs.append(r)
                where.append(k)
        replies = drive(reqs)
        mods = [None] * len(cases)
        for k, r in zip(where, replies):
            mods[k] = r
        return [judge(c, o, m) for c, o, m in zip(cases, observations, mods)]


class Inventory(Family):
    """One case per public operation found by introspection: is there a harness case for it?"""
    name = "inventory"
    theorems = ()

    def gen(self, rng, tier):
        out = []
        for cn, cls in CLASSES.items():
            for m in public_methods(cls):
                out.append({"cls": cn, "method": m})
        for a in ALGS:
            out.append({"cls": "alg", "method": a})
        return out

    def evaluate(self, cases):
        import random
        covered = set()
        for f in OPS:
            for c in f.gen(random.Random(0), "quick"):
                covered.add((c["cls"], c["method"]))
        out = []
        for c in cases:
            key = (c["cls"], c["method"])
            exists = hasattr(ttb, c["method"]) if c["cls"] == "alg" else hasattr(CLASSES[c["cls"]], c["method"])
            if not exists:
                out.append(Verdict("corr", f"{key} listed but not found", None, None, None, [], False))
            elif key in covered:
                out.append(Verdict("ok", "", None, None, None, [f"covered:{c['cls']}.{c['method']}"], False))
            else:
                out.append(Verdict("ok", "no harness case", None, None, None, [f"unmodelled:{c['cls']}.{c['method']}"], False))
        return out


# ---- NumPy primitives against the model's classification --------------------------------
def _np_step(regs, st):
    op = st[0]
    a = regs[st[1]] if op not in ("fresh",) else None
    if op == "transpose":
        return np.transpose(a, st[2])
    if op == "tr":
        return a.T
    if op == "reshapeF":
        return np.reshape(a, st[2], order="F")
    if op == "asF":
        return np.asfortranarray(a)
    if op == "copy":
        return a.copy(order="F")
    if op == "squeeze":
        return np.squeeze(a)
    if op == "slice":
        return a[(slice(None),) * st[2] + (slice(st[3], st[4]),)]
    if op == "select":
        return a[(slice(None),) * st[2] + (st[3],)]
    if op == "newaxis":
        return np.expand_dims(a, st[2])
    if op == "alias":
        return a
    raise ValueError(op)


class NumpyPrims(Family):
    """Chains of NumPy calls on arrays of every layout: the model's view / copy decision, shape,
    strides and contiguity flags against NumPy's."""
    name = "numpy_prims"
    theorems = ("C05_view_iff_fcontig", "C05_transpose_identity_view", "C05_asF_view_or_copy",
                "C05_reshape_view_of_fcontig", "C05_asF_reshape_fresh")

    def gen(self, rng, tier):
        out = []
        n = 150 if tier == "quick" else 1500
        for _ in range(n):
            shape = gen.shape(rng, 1, 4, 3)
            lay = rng.choice(["F", "C", "S"])
            prog = []
            cur, cshape = 0, list(shape)
            nreg = 1
            inexact = []  # registers where NumPy may return a view although the model copies
            for _ in range(rng.randint(1, 4)):
                kind = rng.choice(["transpose", "tr", "reshapeF", "asF", "copy", "squeeze", "slice", "select", "newaxis"])
                if kind == "transpose":
                    p = gen.perm(rng, len(cshape))
                    if rng.random() < 0.3:
                        p = list(range(len(cshape)))
                    prog.append(["transpose", cur, p])
                    cshape = [cshape[k] for k in p]
                elif kind == "tr":
                    prog.append(["tr", cur])
                    cshape = cshape[::-1]
                elif kind == "reshapeF":
                    tgts = reshape_targets(cshape) if cshape else [[1]]
                    t = rng.choice(tgts)
                    prog.append(["reshapeF", cur, t])
                    cshape = list(t)
                    # always followed by asfortranarray, as everywhere in pyttb
                    inexact.append(nreg)
                    nreg += 1
                    cur = nreg - 1
                    prog.append(["asF", cur])
                elif kind in ("asF", "copy", "squeeze"):
                    if kind == "squeeze" and all(d == 1 for d in cshape):
                        continue  # a 0-d result: np.asfortranarray would make it 1-d again
                    prog.append([kind, cur])
                    if kind == "squeeze":
                        cshape = [d for d in cshape if d != 1]
                elif kind == "slice":
                    if not cshape:
                        continue
                    ax = rng.randrange(len(cshape))
                    lo = rng.randrange(cshape[ax])
                    hi = rng.randint(lo + 1, cshape[ax])
                    prog.append(["slice", cur, ax, lo, hi])
                    cshape[ax] = hi - lo
                elif kind == "select":
                    if len(cshape) < 2:  # a[i] of a 1-d array is a scalar, not an array
                        continue
                    ax = rng.randrange(len(cshape))
                    prog.append(["select", cur, ax, rng.randrange(cshape[ax])])
                    cshape.pop(ax)
                elif kind == "newaxis":
                    ax = rng.randint(0, len(cshape))
                    prog.append(["newaxis", cur, ax])
                    cshape.insert(ax, 1)
                nreg += 1
                cur = nreg - 1
            if prog:
                out.append({"shape": shape, "layout": lay, "prog": prog, "inexact": inexact})
        return out

    def evaluate(self, cases):
        impls, reqs = [], []
        for c in cases:
            base = build(arr(c["shape"], list(range(1, gen.numel(c["shape"]) + 1)), "f", c["layout"]))
            regs = [base]
            for st in c["prog"]:
                regs.append(_np_step(regs, st))
            impls.append((base, regs[1:]))
            reqs.append({"op": "c05_prim", "operands": [descr(base)], "prog": c["prog"]})
        replies = drive(reqs)
        out = []
        for c, (base, regs), rep in zip(cases, impls, replies):
            tags = [f"layout:{c['layout']}", f"N{len(c['shape'])}"]
            bad = None
            for k, (a, m) in enumerate(zip(regs, rep["regs"])):
                reg = k + 1
                step = c["prog"][k][0]
                if list(a.shape) != m["shape"]:
                    bad = f"step {k} {step}: shape {list(a.shape)} vs model {m['shape']}"
                    break
                if reg in c["inexact"]:
                    continue
                sh = bool(a.size and np.shares_memory(a, base))
                if sh != (m["shares"] == [0]):
                    bad = f"step {k} {step}: NumPy {'shares' if sh else 'copies'}, model says {m['shares']}"
                    break
                if a.size and (bool(a.flags.f_contiguous) != m["isF"] or bool(a.flags.c_contiguous) != m["isC"]):
                    bad = f"step {k} {step}: contiguity flags F={a.flags.f_contiguous} C={a.flags.c_contiguous} vs model {m['isF']}/{m['isC']}"
                    break
                if a.size:
                    d = descr(a)
                    for ext, s1, s2 in zip(d["shape"], d["strides"], m["strides"]):
                        if ext > 1 and s1 != s2:
                            bad = f"step {k} {step}: strides {d['strides']} vs model {m['strides']}"
                    if bad:
                        break
                tags.append(f"{step}:{'view' if sh else 'fresh'}")
            if bad:
                out.append(Verdict("corr", "NumPy differs from the model's classification: " + bad, None, rep, None, tags))
            else:
                out.append(Verdict("ok", "", None, rep, None, tags, True))
        return out


class NumpyIdioms(Family):
    """The NumPy idioms the step-level entries are written with, on arrays of every layout, dtype and
    shape (1-row / 1-column / all-singleton included): the model's program for the idiom against
    NumPy's result – shape, strides, contiguity flags and whether it shares memory with the source."""
    name = "numpy_idioms"
    theorems = ("C05_asF_view_or_copy", "C05_fresh_tenmat_ctranspose", "C05_ctranspose_needs_copy_example")

    IDIOMS = ["copyC", "tmoCopy", "tmoNoCopy", "conjT", "astype", "expand_dims", "matmulF", "fancy", "conjT_tmo"]

    def gen(self, rng, tier):
        out = []
        shapes = [[1, 3], [3, 1], [1, 1], [2, 3], [3, 2], [4], [1], [2, 1, 3], [1, 2, 1], [2, 3, 2]]
        if tier == "thorough":
            shapes += [gen.shape(rng, 1, 4, 4) for _ in range(40)]
        for shape in shapes:
            for lay in ("F", "C", "S"):
                for dt in ("f", "i", "b", "c"):
                    for idiom in self.IDIOMS:
                        if idiom == "matmulF" and (len(shape) != 2 or dt == "b"):
                            continue
                        out.append({"shape": shape, "layout": lay, "dtype": dt, "idiom": idiom})
        return out

    @staticmethod
    def _run(c, a):
        """(NumPy result, model program) of an idiom applied to the array a."""
        idiom = c["idiom"]
        cplx = c["dtype"] == "c"
        sh = list(a.shape)
        if idiom == "copyC":
            return a.copy(), [["tr", 0], ["copy", 1], ["tr", 2]]
        if idiom == "tmoCopy":
            return ttb.pyttb_utils.to_memory_order(a, "F", copy=True), [["tr", 0], ["copy", 1], ["tr", 2], ["asF", 3]]
        if idiom == "tmoNoCopy":
            return ttb.pyttb_utils.to_memory_order(a, "F"), [["asF", 0]]
        if idiom == "conjT":
            return a.conj().T, [["fresh", sh] if cplx else ["alias", 0], ["tr", 1]]
        if idiom == "conjT_tmo":  # what ctranspose would hand out without its explicit copy
            return ttb.pyttb_utils.to_memory_order(a.conj().T, "F"), [["fresh", sh] if cplx else ["alias", 0], ["tr", 1], ["asF", 2]]
        if idiom == "astype":
            return a.astype(np.float64 if not cplx else np.complex128), [["copy", 0]]
        if idiom == "expand_dims":
            return np.expand_dims(a, axis=1), [["newaxis", 0, 1]]
        if idiom == "matmulF":
            return np.matmul(a, a.T, order="F"), [["fresh", [sh[0], sh[0]]]]
        if idiom == "fancy":
            idx = np.arange(a.shape[0])[::-1].copy()
            return a[idx], [["fresh", sh]]
        raise ValueError(idiom)

    def evaluate(self, cases):
        impls, reqs = [], []
        for c in cases:
            n = gen.numel(c["shape"])
            vals = [i % 2 for i in range(n)] if c["dtype"] == "b" else list(range(1, n + 1))
            base = build(arr(c["shape"], vals, c["dtype"], c["layout"]))
            with warnings.catch_warnings():
                warnings.simplefilter("ignore")
                res, prog = self._run(c, base)
            impls.append((base, res))
            reqs.append({"op": "c05_prim", "operands": [descr(base)], "prog": prog})
        replies = drive(reqs)
        out = []
        for c, (base, a), rep in zip(cases, impls, replies):
            m = rep["regs"][-1]
            tags = [f"idiom:{c['idiom']}", f"layout:{c['layout']}", f"dtype:{c['dtype']}"]
            bad = None
            sh = bool(a.size and np.shares_memory(a, base))
            if list(a.shape) != m["shape"]:
                bad = f"shape {list(a.shape)} vs model {m['shape']}"
            elif sh != (m["shares"] == [0]):
                bad = f"NumPy {'shares' if sh else 'copies'}, model says {m['shares']}"
            elif c["idiom"] in ("fancy", "astype") or (c["dtype"] == "c" and c["idiom"] in ("conjT", "conjT_tmo")):
                pass  # a computed array (it keeps the source's layout; the model gives it F order): only freshness matters
            elif a.size and (bool(a.flags.f_contiguous) != m["isF"] or bool(a.flags.c_contiguous) != m["isC"]):
                bad = f"contiguity F={a.flags.f_contiguous} C={a.flags.c_contiguous} vs model {m['isF']}/{m['isC']}"
            elif a.size:
                d = descr(a)
                for ext, s1, s2 in zip(d["shape"], d["strides"], m["strides"]):
                    if ext > 1 and s1 != s2:
                        bad = f"strides {d['strides']} vs model {m['strides']}"
            tags.append(f"{c['idiom']}:{'view' if sh else 'fresh'}")
            if bad:
                out.append(Verdict("corr", f"NumPy differs from the model's idiom {c['idiom']} on {c['shape']}/{c['layout']}/"
                                           f"{c['dtype']}: " + bad, None, rep, None, tags))
            else:
                out.append(Verdict("ok", "", None, rep, None, tags, True))
        return out


OPS = [OpsFamily("ops_tensor", tensor_cases, ("C05_corner_cases_need_copy_example",)), OpsFamily("ops_sptensor", sptensor_cases),
       OpsFamily("ops_ktensor", ktensor_cases, ("C05_fresh_ktensor_ops", "C05_fresh_ktensor_more", "C05_inplace_only_ktensor")),
       OpsFamily("ops_ttensor", ttensor_cases, ("C05_static_compositional", "C05_call_pureFresh", "C05_fresh_ttensor_ops",
                                                "C05_fresh_ttensor_products", "C05_fresh_ttensor_permute_reconstruct",
                                                "C05_fresh_empty_selection_composites")),
       OpsFamily("ops_sumtensor", sumtensor_cases, ("C05_static_compositional", "C05_call_pureFresh", "C05_fresh_sumtensor_ops",
                                                    "C05_fresh_sumtensor_full", "C05_nocopy_sumtensor_ctor",
                                                    "C05_fresh_empty_selection_composites")),
       OpsFamily("ops_tenmat", tenmat_cases, ("C05_fresh_tenmat_ctranspose", "C05_fresh_tenmat_ops", "C05_nocopy_tenmat_ctor",
                                              "C05_tenmat_to_tensor")),
       OpsFamily("ops_sptenmat", sptenmat_cases, ("C05_fresh_sptenmat_ops", "C05_nocopy_sptenmat_ctor")),
       OpsFamily("ops_utils", utils_cases, ("C05_corner_cases_need_copy_example",)),
       OpsFamily("algorithms", alg_cases)]


def families():
    return OPS + [NumpyPrims(), NumpyIdioms(), Inventory()]
